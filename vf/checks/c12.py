"""C12 — sub-circuits, loops and classical control equal their unrolled form (DESIGN 5/C12)."""
import itertools, time
import numpy as np
from .. import env, coq, runner, tables

LEVEL = 'proof'
META = dict(
    text='Coq theorems (closed under the global context) over a hand-written Gallina model of measurement keys (path, name), key maps, scoped lookup of control keys, classical conditions and CircuitOperation with all its fields, written in the shape of the code (_mapped_any_loop: qubit map -> inverse for negative repetitions -> key map -> parameters; _mapped_single_loop: rescoping with the repetition id, then with parent path and extern keys; mapped_circuit with repetition ids vs plain repetition and deep recursion through Circuit.zip; the with_qubit_mapping / with_measurement_key_mapping / with_params / repeat(-1) / _with_rescoped_keys_ compositions pushed onto nested operations). Proved for every nesting depth, repetition count (positive or negative, non-zero), repetition ids, qubit/key/parameter maps and parent paths: the measurement keys and the qubits a nested operation reports equal those of its completely unrolled circuit; the unrolled circuit consists, moment by moment, of exactly the leaves a compositional semantics prescribes (which operation, inverted or not, on which qubits); key prefixing and key maps compose, control keys bind to the innermost enclosing bound measurement and never to a key bound later; remapping a condition changes only its key iff both replace_key implementations keep the other fields (two booleans read off the working tree on every run: both true since the F2 fix, so the faithful-remapping theorem is live on the tree and stops compiling if replace_key drops fields again); constructor compositions; repeat_until = least number of passes (under fuel). The zero-repetition case is refuted by a proved witness (F7). On every run the model is evaluated with vm_compute on generated nestings (depth 0-3) and compared exactly with the implementation: mapped_circuit shallow/deep moment by moment, measurement/control key sets, parameter names, qubits, is_measurement, touched key names and the fields after one further remapping of each kind; spec-level oracles on the real code compare the wrapped operation with its unrolled circuit by unitary (incl. the single-qubit fast path), deterministic simulation records, exact outcome distribution (scripted seed object enumerating every measurement branch), repeat_until loop counts, scoping templates with independently known outcomes, decompose / unroll_circuit_op* and remapping-commutes-with-unrolling. repeat_until loops at any nesting level (condition over a key of the loop body and a key measured in an enclosing sub-circuit that rescopes keys: repetition ids, parent paths, further enclosing levels, same-named top-level keys) are judged against a loop-free flat reference: each loop becomes k plain repetitions of its body followed by a classical control with the loop condition on a fresh ancilla, whose records certify that k is the do-while count; the loops\' control keys (per instance of the partial unrolling and of the whole circuit) and the simulation records of the wrapped and partially unrolled circuit must equal the reference (fixed grid for every seed + generated nests); two theorems back this oracle: one pass of a loop over body ++ [probe] is the pass over the body followed by the probe carrying exactly the mapped repeat_until condition (C12_until_scoped_as_last_control), and a further key map renames every key name the loop condition reads (C12_until_names_under_key_map; composing over the names of the body only, as the implementation does, is refuted: F20). Classically controlled SUB-CIRCUITS (a ClassicallyControlledOperation whose sub-operation is a CircuitOperation that itself holds classically controlled gates; Circ/CtlSub.v models its three key transformations - conditions AND controlled operation -, its flat form = the unrolled sub-circuit with the conditions of the control on every operation, and its control keys): proved that the flat form commutes with rescoping / key maps / prefixing condition by condition (C12_ctl_flat_*), that a user-level control key looked up from inside a rescoped operation finds exactly the binding of the enclosing scope (C12_ctl_inner_key_binding), and that transforming control and controlled operation piecewise and then unrolling equals rescoping the flat form (C12_ctl_rescope_then_unroll; a rescoping that stops at the conditions of the control is refuted by a witness).  On every run: the model vs the implementation on controlled sub-circuits taken alone (rescoped / key-mapped / prefixed pair, flat form, control keys), each of them decomposed after a key map / after rescoping vs the flat form transformed condition by condition with the positional definitions, and nests in which controlled sub-circuits sit inside enclosing sub-circuits that measure the keys the inner conditions read and rescope them (repetition ids, parent paths, key maps, further levels, a same-named top-level key; fixed grid for every seed + generated nests) vs the reference nest in which every controlled sub-circuit is written out as its unrolled operations carrying the controls: reported measurement / control keys, cirq.decompose and mapped_circuit + decompose (trace equivalence up to the order of conditions), simulation records of the wrapped and the decomposed circuit, and one further key map / key-path prefix / rescoping applied to both nests.  CONDITIONAL BLOCKS written with cirq.If (cirq.If(conds, CircuitOperation), the multi-operation form cirq.If(conds, op1, op2, ...), the layered forms If(c1, If(rest, S)) / If(c1, S.with_classical_controls(rest)) the constructor folds, and cirq.If over a single gate) are the same pair (conditions, operation) of Circ/CtlSub.v and go through every oracle of the controlled sub-circuits in each form (every fixed case alone in the plain form and in one cirq.If form, generated nests with half of the controls written as cirq.If, a fixed grid of blocks whose body holds controls on keys that are NOT among the conditions of the block - a key measured earlier in the enclosing sub-circuit, a key measured outside the nest, both - under six enclosing rescopings / key maps and three outer wrappers); additionally the circuit built from the operation SEQUENCE with the default insertion strategy (placement by the qubits and keys an operation reports) must simulate like the flat reference.  Circ/CondBlock.v: the folding of condition layers preserves flat form and control keys and commutes with the three key transformations (C12_if_fold_*), and a block over a non-empty body of gates reports, as a set, exactly the keys the operations of its flat form read (C12_block_control_keys_are_flat_reads; control keys taken from the conditions of the block alone are refuted by a witness).',
    note='Trusted: Coq kernel; vf/checks/c12.py (building Cirq objects from case records, decoding Cirq objects back, printing Gallina literals, the Python oracles); vf/tables_c12.py. Leaves other than CircuitOperation are abstract (identifier, inversion flag, qubits, keys, conditions, one parameter) and are instantiated by six gate families, measurements and classically controlled gates; key equality is componentwise (path, name), equal to Cirq\'s string equality when no path component contains ":"; sympy conditions are restricted to five expression templates and modelled by simultaneous substitution (as the implementation does since the F13 fix); key-map / qubit-map collision checks of the with_* methods are not modelled (generated maps are injective); control keys and conditions of the unrolled circuit, parameter names and repeat_until are compared with the model but have no unrolling theorem; tagged CircuitOperations are covered by the simulation oracle only; classically controlled CircuitOperations and cirq.If blocks are modelled as the same pair (conditions, operation) outside the inductive type of operations (the model does not distinguish the two classes; a cirq.If over a single gate is the leaf with those conditions), so inside a nest they are judged against the reference nest with the controlled sub-circuit written out (the unrolling of the bare sub-circuit is taken from the implementation, where it never meets a controlled sub-circuit, and the reference nest is an ordinary nest of the kind the struct stream compares with the model); C12_ctl_rescope_then_unroll and C12_block_control_keys_are_flat_reads are stated for bodies of gates (one level), positive repetition counts, user-level keys and no extern keys; tagged sub-circuits under a cirq.If are not generated; a reference that reads a key nobody measures has no simulation outcome (counted, keys and unrolling still compared); with a zero-repetition operation in the nest the key sets are left to F7, and so is the simulation when the wrapped form fails on a missing key (the control on an operation whose unrolled form is empty is still evaluated; counted). the flat reference of nested repeat_until loops exists only when every instance of a loop needs the same number (<= 4) of passes (other cases are skipped and counted), and it trusts the scoping of a classical control placed at the end of the loop body (covered by the key theorems and the struct correspondence). known_findings/C12.json lists seven open signatures (F7, F14, F15, F16 x3, F18) and six fixed ones (F2 x2, F4, F13, F13b, F20).',
    technique='Rocq/Coq proof over an executable Gallina model + vm_compute correspondence against the implementation + differential simulation oracles (exact branch enumeration)',
)

NAMES = ['a', 'b', 'c', 'd', 'm']
COMPS = ['0', '1', 'p', 'r', 'x']
FUEL = 8

COQ_HEADER = ('From Coq Require Import ZArith List Bool String.\n'
              'From VF Require Import Base.Harness Circ.Keys Circ.SubCircuit Generated.CondTables.\n'
              'Import ListNotations.\nOpen Scope string_scope.\nOpen Scope Z_scope.\n'
              'Definition kK := keycond_replace_keeps.\nDefinition kM := maskcond_replace_keeps.\n')


# ----------------------------------------------------------------------------------------------------------------
# sympy condition templates: eid -> (number of key slots, builder from key strings)
def _templates():
    import sympy
    S = sympy.Symbol
    return {
        0: (1, lambda s: sympy.Eq(S(s[0]), 1)),
        1: (1, lambda s: S(s[0]) > 1),
        2: (2, lambda s: sympy.And(sympy.Eq(S(s[0]), 1), sympy.Eq(S(s[1]), 0))),
        3: (1, lambda s: sympy.Eq(sympy.IndexedBase(s[0])[0], 1)),
        4: (2, lambda s: S(s[0]) + 2 * S(s[1]) > 1),
        5: (2, lambda s: sympy.Eq(S(s[0]), S(s[1]))),      # only generated for repeat_until conditions (two distinct keys)
    }


# ----------------------------------------------------------------------------------------------------------------
# case records <-> Cirq objects.  key = (path tuple, name); cond = ('key', key, idx) | ('mask', key, idx, target,
# eq, mask) | ('sym', eid, [keys]); leaf = dict(t='leaf', uid, sgn, qs, mk, cs, ps); sub = dict(t='sub', c=moments,
# reps, ids, use, qm, km, pm, pp, ext, until)
class Vocab:
    FIXED = {0: ('ZPowGate', 0.5, 1), 1: ('XPowGate', 0.25, 1), 3: ('CZPowGate', 0.5, 2), 4: ('ISwapPowGate', 0.5, 2),
             5: ('XPowGate', 1.0, 1), 6: ('CXPowGate', 1.0, 2)}      # 5, 6: classical gates for the simulation streams
    PARAM = {20: ('YPowGate', 1), 21: ('ZZPowGate', 2)}
    MEAS = 10
    UNIT = 8           # PVal v means the number v / 8

    def __init__(self, cirq):
        import sympy
        self.cirq, self.sympy = cirq, sympy
        self.tmpl = _templates()
        self.by_type = {(getattr(cirq, n), e): u for u, (n, e, _) in self.FIXED.items()}
        self.by_ptype = {getattr(cirq, n): u for u, (n, _) in self.PARAM.items()}

    # -- build
    def key(self, k):
        return self.cirq.MeasurementKey(name=k[1], path=tuple(k[0]))

    def cond(self, c):
        cirq = self.cirq
        if c[0] == 'key':
            return cirq.KeyCondition(self.key(c[1]), c[2])
        if c[0] == 'mask':
            return cirq.BitMaskKeyCondition(self.key(c[1]), c[2], c[3], c[4], c[5])
        n, f = self.tmpl[c[1]]
        return cirq.SympyCondition(f([str(self.key(k)) for k in c[2]]))

    def q(self, i):
        return self.cirq.LineQubit(i)

    def pval(self, p):
        return self.sympy.Symbol(p[1]) if p[0] == 'sym' else p[1] / self.UNIT

    def leaf(self, l):
        cirq = self.cirq
        qs = [self.q(i) for i in l['qs']]
        if l['uid'] == self.MEAS:
            return cirq.measure(*qs, key=self.key(l['mk'][0]))
        s = -1 if l['sgn'] else 1
        if l['uid'] in self.FIXED:
            n, e, _ = self.FIXED[l['uid']]
            op = getattr(cirq, n)(exponent=s * e).on(*qs)
        else:
            n, _ = self.PARAM[l['uid']]
            op = getattr(cirq, n)(exponent=s * self.pval(l['ps'][0])).on(*qs)
        if l['cs']:
            conds = [self.cond(c) for c in l['cs']]
            op = cirq.If(conds, op) if l.get('via') == 'if' else op.with_classical_controls(*conds)
        return op

    def circuit(self, moments):
        cirq = self.cirq
        return cirq.FrozenCircuit(cirq.Moment(self.op(o) for o in m) for m in moments)

    def reps(self, r):
        if isinstance(r, tuple):
            s = self.sympy.Symbol(r[2])
            return -s if r[1] else s
        return r

    def sub(self, s, **over):
        cirq = self.cirq
        kw = dict(circuit=self.circuit(s['c']), repetitions=self.reps(s['reps']),
                  qubit_map={self.q(a): self.q(b) for a, b in s['qm']}, measurement_key_map=dict(s['km']),
                  param_resolver={self.sympy.Symbol(k): self.pval(v) for k, v in s['pm']},
                  repetition_ids=s['ids'], parent_path=tuple(s['pp']),
                  extern_keys=frozenset(self.key(k) for k in s['ext']), use_repetition_ids=s['use'],
                  repeat_until=None if s['until'] is None else self.cond(s['until']))
        kw.update(over)
        return cirq.CircuitOperation(**kw)

    def op(self, o):
        if o['t'] == 'leaf':
            return self.leaf(o)
        if o.get('cs'):      # a classically controlled sub-circuit
            return self.ctl(o)
        return self.sub(o)

    PLAIN = dict(reps=1, ids=None, use=False, qm=[], km=[], pm=[], pp=[], ext=[], until=None)

    def ctl(self, o, cs=None, via=None):
        """The conditioned sub-circuit of a record with `cs`, written in the form `via`:
          'cco'    ClassicallyControlledOperation(CircuitOperation, conditions)        (op.with_classical_controls)
          'if'     cirq.If(conditions, CircuitOperation)
          'ifops'  cirq.If(conditions, op1, op2, ...): the conditional block written as a list of operations (the constructor
                   wraps them); only for a sub-circuit without maps / repetitions / path, otherwise 'if'
          'ifnest' cirq.If(first condition, cirq.If(other conditions, CircuitOperation))   (the constructor folds the layers)
          'ifcco'  cirq.If(first condition, CircuitOperation.with_classical_controls(other conditions))        (same)"""
        cirq = self.cirq
        cs = o['cs'] if cs is None else cs
        via = via or o.get('via') or 'cco'
        conds = [self.cond(c) for c in cs]
        if via == 'cco':
            return self.sub(o).with_classical_controls(*conds)
        if via == 'ifops' and all(o[k] == v for k, v in self.PLAIN.items()):
            ops = [self.op(x) for m in o['c'] for x in m]
            return cirq.If(conds, *ops) if len(ops) > 1 else cirq.If(conds, ops)
        if via == 'ifnest' and len(conds) > 1:
            return cirq.If(conds[0], cirq.If(conds[1:], self.sub(o)))
        if via == 'ifcco' and len(conds) > 1:
            return cirq.If(conds[0], self.sub(o).with_classical_controls(*conds[1:]))
        return cirq.If(conds, self.sub(o))

    # -- decode
    def dkey(self, k):
        return (tuple(k.path), k.name)

    def dcond(self, c):
        cirq = self.cirq
        if isinstance(c, cirq.KeyCondition):
            return ('key', self.dkey(c.key), int(c.index))
        if isinstance(c, cirq.BitMaskKeyCondition):
            return ('mask', self.dkey(c.key), int(c.index), int(c.target_value), bool(c.equal_target),
                    None if c.bitmask is None else int(c.bitmask))
        if isinstance(c, cirq.SympyCondition):
            keys = [str(k) for k in c.keys]
            for eid, (n, f) in self.tmpl.items():
                for asg in itertools.product(keys, repeat=n):
                    if set(asg) != set(keys):
                        continue
                    try:
                        if f(list(asg)) == c.expr:
                            return ('sym', eid, [self.dkey(cirq.MeasurementKey.parse_serialized(s)) for s in asg])
                    except Exception:
                        pass
            return ('sym', -1, [self.dkey(k) for k in c.keys])
        raise ValueError(f'unknown condition {c!r}')

    def dpval(self, e):
        sympy = self.sympy
        if isinstance(e, sympy.Symbol):
            return False, ('sym', e.name)
        if isinstance(e, sympy.Mul) and len(e.args) == 2 and e.args[0] == -1 and isinstance(e.args[1], sympy.Symbol):
            return True, ('sym', e.args[1].name)
        v = float(e) * self.UNIT
        if abs(v - round(v)) > 1e-9:
            raise ValueError(f'exponent {e!r} not on the grid')
        return False, ('val', int(round(v)))

    def dleaf(self, op):
        cirq = self.cirq
        cs = []
        if isinstance(op, cirq.If):      # a conditioned gate written with cirq.If: the same leaf, `via` says how it is written
            return dict(self.dleaf(op.sub_operation), cs=[self.dcond(c) for c in op.conditions], via='if')
        if isinstance(op, cirq.ClassicallyControlledOperation):
            cs = [self.dcond(c) for c in op._conditions]
            op = op._sub_operation
        qs = [int(q.x) for q in op.qubits]
        g = op.gate
        if isinstance(g, cirq.MeasurementGate):
            return dict(t='leaf', uid=self.MEAS, sgn=False, qs=qs, mk=[self.dkey(g.mkey)], cs=cs, ps=[])
        u = self.by_ptype.get(type(g))
        if u is None:
            e = float(g.exponent)
            u = self.by_type.get((type(g), abs(e)))
            if u is None:
                raise ValueError(f'operation outside the vocabulary: {op!r}')
            return dict(t='leaf', uid=u, sgn=e < 0, qs=qs, mk=[], cs=cs, ps=[])
        neg, p = self.dpval(g.exponent)
        return dict(t='leaf', uid=u, sgn=neg, qs=qs, mk=[], cs=cs, ps=[p])

    def dreps(self, r):
        sympy = self.sympy
        if isinstance(r, sympy.Basic) and not isinstance(r, sympy.Integer):
            neg, p = self.dpval(r)
            return ('rsym', neg, p[1])
        return int(r)

    def dsub(self, op):
        pm = []
        for k, v in op.param_resolver.param_dict.items():
            neg, p = self.dpval(v)
            if neg:
                raise ValueError('negated symbol in resolver')
            pm.append((str(k), p))
        return dict(t='sub', c=self.dcirc(op.circuit), reps=self.dreps(op.repetitions),
                    ids=None if op.repetition_ids is None else [str(x) for x in op.repetition_ids],
                    use=bool(op.use_repetition_ids), qm=sorted((int(a.x), int(b.x)) for a, b in op.qubit_map.items()),
                    km=sorted(op.measurement_key_map.items()), pm=sorted(pm), pp=list(op.parent_path),
                    ext=sorted(self.dkey(k) for k in op._extern_keys),
                    until=None if op.repeat_until is None else self.dcond(op.repeat_until))

    def dop(self, op):
        cirq = self.cirq
        if isinstance(op, cirq.ClassicallyControlledOperation) and isinstance(op._sub_operation, cirq.CircuitOperation):
            return dict(self.dsub(op._sub_operation), cs=[self.dcond(c) for c in op._conditions])
        if isinstance(op, cirq.If) and isinstance(op.sub_operation, cirq.CircuitOperation):
            return dict(self.dsub(op.sub_operation), cs=[self.dcond(c) for c in op.conditions], via='if')
        return self.dsub(op) if isinstance(op, cirq.CircuitOperation) else self.dleaf(op)

    def dcirc(self, c):
        return [[self.dop(o) for o in m.operations] for m in c.moments]


# ----------------------------------------------------------------------------------------------------------------
# Gallina literals
def gS(s):
    assert all(ch.isalnum() or ch == '_' for ch in s), s
    return '"' + s + '"'


def gL(xs, f=str):
    return '[' + '; '.join(f(x) for x in xs) + ']'


def gK(k):
    return f'(MK {gL(k[0], gS)} {gS(k[1])})'


def gO(x, f):
    return 'None' if x is None else f'(Some {f(x)})'


def gB(b):
    return 'true' if b else 'false'


Z = coq.zlit


def gC(c):
    if c[0] == 'key':
        return f'(CKey {gK(c[1])} {Z(c[2])})'
    if c[0] == 'mask':
        return f'(CMask {gK(c[1])} {Z(c[2])} {Z(c[3])} {gB(c[4])} {gO(c[5], Z)})'
    return f'(CSym {Z(c[1])} {gL(c[2], gK)})'


def gP(p):
    return f'(PSym {gS(p[1])})' if p[0] == 'sym' else f'(PVal {Z(p[1])})'


def gR(r):
    return f'(RSym {gB(r[1])} {gS(r[2])})' if isinstance(r, tuple) else f'(RInt {Z(r)})'


def gOp(o):
    if o['t'] == 'leaf':
        return (f'(OLeaf (Leaf {Z(o["uid"])} {gB(o["sgn"])} {gL(o["qs"], Z)} {gL(o["mk"], gK)} '
                f'{gL(o["cs"], gC)} {gL(o["ps"], gP)}))')
    f = (f'(SubF {gR(o["reps"])} {gO(o["ids"], lambda l: gL(l, gS))} {gB(o["use"])} '
         f'{gL(o["qm"], lambda p: f"({Z(p[0])}, {Z(p[1])})")} {gL(o["km"], lambda p: f"({gS(p[0])}, {gS(p[1])})")} '
         f'{gL(o["pm"], lambda p: f"({gS(p[0])}, {gP(p[1])})")} {gL(o["pp"], gS)} {gL(o["ext"], gK)} {gO(o["until"], gC)})')
    return f'(OSub {gCirc(o["c"])} {f})'


def gCirc(c):
    return gL(c, lambda m: gL(m, gOp))


def gRes(x, f):
    """x: ('ok', value) | ('err', 'ValueError') | ('err', other)."""
    if x[0] == 'ok':
        return f'(Ok {f(x[1])})'
    return 'ErrValue' if x[1] == 'ValueError' else 'ErrFuel'


def attempt(f):
    try:
        return ('ok', f())
    except ValueError as e:
        return ('err', 'ValueError', str(e)[:200])
    except Exception as e:      # anything else never equals a model result
        return ('err', type(e).__name__, str(e)[:200])


def run_coq(ctx, name, defs, evals):
    """defs: Gallina text; evals: list of (stream, rows, predicate text over `rows_i`).  Returns {stream: bad indices}."""
    text = COQ_HEADER + defs
    for i, (stream, rows, pred) in enumerate(evals):
        text += f'Eval vm_compute in failing ({pred}) rows_{i}.\n'
    vals = coq.parse_evals(coq.coq_eval(f'c12_{name}_{ctx.seed}', text))
    assert len(vals) == len(evals), (len(vals), len(evals))
    return {ev[0]: coq.parse_nat_list(v) for ev, v in zip(evals, vals)}


# ----------------------------------------------------------------------------------------------------------------
# stream 1: key algebra and conditions
def rkey(rng, maxpath=2):
    return (tuple(rng.choice(COMPS) for _ in range(rng.randint(0, maxpath))), rng.choice(NAMES))


def rpath(rng, n=3):
    return tuple(rng.choice(COMPS) for _ in range(rng.randint(0, n)))


def rkmap(rng):
    ks = rng.sample(NAMES, rng.randint(0, 3))
    return sorted((k, rng.choice(NAMES + ['z', 'y'])) for k in ks)


def rcond(rng, keyf, maxkeys=2):
    r = rng.random()
    if r < 0.3:
        return ('key', keyf(), rng.choice([-1, -1, 0, 1]))
    if r < 0.65:
        bm = rng.choice([None, 1, 2, 3, 5])
        return ('mask', keyf(), rng.choice([-1, -1, 0]), rng.choice([0, 1, 2, 3]), rng.random() < 0.5, bm)
    eid = rng.choice([0, 1, 2, 3, 4] if maxkeys >= 2 else [0, 1, 3])
    n = {0: 1, 1: 1, 2: 2, 3: 1, 4: 2}[eid]
    ks = [keyf()]
    while len(ks) < n:
        k = keyf()
        if k not in ks:
            ks.append(k)
    return ('sym', eid, ks)


def payload(c):
    return c[2:] if c[0] in ('key', 'mask') else (c[1],)


def key_stream(ctx, cirq, V, n):
    rng = ctx.rng
    mk, proto = cirq.MeasurementKey, cirq.protocols
    rows_key, rows_cond, rows_comp = [], [], []
    for i in range(n):
        k, p, m = rkey(rng, 3), rpath(rng), rkmap(rng)
        bind = [rkey(rng, 3) for _ in range(rng.randint(0, 4))]
        if rng.random() < 0.7:      # make a binding likely: some prefix of p applied to k
            j = rng.randint(0, len(p))
            bind.append((p[:j] + k[0], k[1]))
        K = V.key(k)
        o_pre = V.dkey(proto.with_key_path_prefix(K, p))
        o_pre2 = V.dkey(K.with_key_path_prefix(*p))
        o_map = V.dkey(proto.with_measurement_key_mapping(K, dict(m)))
        o_res = V.dkey(proto.with_rescoped_keys(K, p, frozenset(V.key(b) for b in bind)))
        rows_key.append((k, p, m, o_pre, o_pre2, o_map, o_res))
        ctx.count('key_ops', ('k', k, p, m), bool(p) or bool(m), sample=dict(key=k, prefix=p, key_map=m, prefixed=o_pre, mapped=o_map))
        # spec: positional definition
        if o_pre != (p + k[0], k[1]) or o_pre2 != o_pre or o_res != o_pre or o_map != (k[0], dict(m).get(k[1], k[1])):
            ctx.violation('key:algebra', f'key {k}: prefix {p} -> {o_pre}/{o_pre2}, map {m} -> {o_map}, rescope -> {o_res}',
                          dict(kind='key', key=k, path=p, key_map=m))
        # conditions
        c = rcond(rng, lambda: rkey(rng, 2))
        if rng.random() < 0.6:
            ck = c[1] if c[0] != 'sym' else c[2][0]
            j = rng.randint(0, len(p))
            bind.append((p[:j] + ck[0], ck[1]))
        C = V.cond(c)
        B = frozenset(V.key(b) for b in bind)
        outs = [V.dcond(proto.with_measurement_key_mapping(C, dict(m))), V.dcond(proto.with_key_path_prefix(C, p)),
                V.dcond(proto.with_rescoped_keys(C, p, B))]
        rows_cond.append((c, p, m, bind, outs))
        ctx.count('cond_ops', ('c', c, p, m, bind), True, sample=dict(cond=c, path=p, key_map=m, bindable=bind, mapped=outs[0], rescoped=outs[2]))
        spec_cond(ctx, V, c, p, m, bind, outs)
        # dict composition rule
        dom = rng.sample(NAMES, rng.randint(1, 4))
        m2 = rkmap(rng)
        rows_comp.append((dom, m, m2))
    # fixed grid (every seed): a sympy condition over two keys with the SAME name at different path depths, under a prefix /
    # rescoping that moves the shallower key onto the old name of the deeper one (simultaneous vs sequential rewriting)
    for c, p, m, bind in cond_grid():
        C = V.cond(c)
        B = frozenset(V.key(b) for b in bind)
        outs = [V.dcond(proto.with_measurement_key_mapping(C, dict(m))), V.dcond(proto.with_key_path_prefix(C, p)),
                V.dcond(proto.with_rescoped_keys(C, p, B))]
        rows_cond.append((c, p, m, bind, outs))
        ctx.count('cond_ops:same-name-two-depths', ('c', c, p, m, bind), True,
                  sample=dict(cond=c, path=p, key_map=m, bindable=bind, prefixed=outs[1], rescoped=outs[2]))
        spec_cond(ctx, V, c, p, m, bind, outs)
    defs = ('Definition rows_0 : list (mkey * list string * kmap * mkey * mkey * mkey * mkey) := [\n' + ';\n'.join(
        f'({gK(k)}, {gL(p, gS)}, {gL(m, lambda x: f"({gS(x[0])}, {gS(x[1])})")}, {gK(a)}, {gK(b)}, {gK(c)}, {gK(d)})'
        for k, p, m, a, b, c, d in rows_key) + '].\n')
    defs += ('Definition rows_1 : list (cond * list string * kmap * list mkey * cond * cond * cond) := [\n' + ';\n'.join(
        f'({gC(c)}, {gL(p, gS)}, {gL(m, lambda x: f"({gS(x[0])}, {gS(x[1])})")}, {gL(b, gK)}, {gC(o[0])}, {gC(o[1])}, {gC(o[2])})'
        for c, p, m, b, o in rows_cond) + '].\n')
    evals = [('key_ops', rows_key, 'fun r => match r with (k, p, m, a, b, c, d) => key_eqb (key_prefix p k) a && key_eqb (key_prefix p k) b '
              '&& key_eqb (key_map m k) c && key_eqb (key_prefix p k) d end'),
             ('cond_ops', rows_cond, 'fun r => match r with (c, p, m, b, o1, o2, o3) => cond_eqb (cond_key_map kK kM m c) o1 '
              '&& cond_eqb (cond_prefix kK kM p c) o2 && cond_eqb (cond_rescope kK kM p b c) o3 end')]
    bad = run_coq(ctx, 'keys', defs, evals)
    for idx in bad['key_ops']:
        ctx.mark_broken('correspondence:key_ops', f'model and implementation differ on {rows_key[idx]}')
        ctx.violation(f'correspondence:key_ops', f'key algebra model differs from MeasurementKey on {rows_key[idx][:3]}',
                      dict(kind='key', key=rows_key[idx][0], path=rows_key[idx][1], key_map=rows_key[idx][2]), found_input=False)
    for idx in bad['cond_ops']:
        c, p, m, b, o = rows_cond[idx]
        if not explain_cond(ctx, V, c, p, m, b, o):
            ctx.mark_broken('correspondence:cond_ops', f'model and implementation differ on {rows_cond[idx]}')
            ctx.violation('correspondence:cond_ops', f'condition model differs from the implementation on {c} path={p} map={m} bindable={b}: {o}',
                          dict(kind='cond', cond=c, path=p, key_map=m, bindable=b), found_input=False)


def cond_grid():
    rows = []
    for eid in (2, 4):
        for deep, shallow, p in ((('0',), (), ('0',)), (('p',), (), ('p',)), (('0', '0'), ('0',), ('0',)), (('p', 'p'), ('p',), ('p',)),
                                 (('0',), (), ('p',)), (('0', 'p'), (), ('0', 'p'))):
            for order in (0, 1):
                ks = [(deep, 'a'), (shallow, 'a')]
                if order:
                    ks.reverse()
                for bind in ([], [(p + shallow, 'a')], [(p[:1] + shallow, 'a'), (p + deep, 'a')], [(p + shallow, 'a'), (p + deep, 'a')]):
                    for m in ([], [('a', 'b')]):
                        rows.append((('sym', eid, ks), p, m, bind))
    return rows


def spec_keys_of(c):
    return [c[1]] if c[0] != 'sym' else list(c[2])


def spec_rescope(path, bind, k):
    for i in range(len(path), -1, -1):
        nk = (tuple(path[:i]) + tuple(k[0]), k[1])
        if nk in bind:
            return nk
    return k


def spec_cond_images(c, p, m, bind):
    """What the three remappings must give, by the property's own statement: only the keys change."""
    bs = {(tuple(b[0]), b[1]) for b in bind}
    fs = [lambda k: (tuple(k[0]), dict(m).get(k[1], k[1])), lambda k: (tuple(p) + tuple(k[0]), k[1]),
          lambda k: spec_rescope(p, bs, (tuple(k[0]), k[1]))]
    res = []
    for f in fs:
        if c[0] == 'sym':
            res.append(('sym', c[1], [f(k) for k in c[2]]))
        else:
            res.append((c[0], f(c[1])) + tuple(c[2:]))
    return res


def norm_cond(c):
    if c[0] == 'sym':
        return ('sym', c[1], [(tuple(k[0]), k[1]) for k in c[2]])
    return (c[0], (tuple(c[1][0]), c[1][1])) + tuple(c[2:])


F13B_SIG = 'F13b:SympyCondition:sequential-key-substitution:path-prefix-or-rescope'


def cond_defect_signature(c, got, want, which=None):
    """Classify a condition whose remapping changed more than the key."""
    if c[0] == 'sym' and which in ('path_prefix', 'rescope'):
        return (F13B_SIG, 'SympyCondition._with_key_path_prefix_ / _with_rescoped_keys_ rewrite the keys of the expression one after the '
                'other, so when the new name of one key is the old name of another key of the same expression (same name at two '
                'path depths) the two keys are merged')
    if c[0] == 'key':
        return 'F2:KeyCondition.replace_key:index-dropped', 'KeyCondition.replace_key drops `index`'
    if c[0] == 'mask':
        return ('F2:BitMaskKeyCondition.replace_key:fields-dropped',
                'BitMaskKeyCondition.replace_key drops index/target_value/equal_target/bitmask')
    return ('F13:SympyCondition:sequential-key-substitution',
            'Condition._with_measurement_key_mapping_ substitutes the keys of a SympyCondition one after the other, so a map whose images collide with other keys of the expression (swap, chain) merges distinct keys')


def spec_cond(ctx, V, c, p, m, bind, outs):
    """Property-level oracle on the real code: a remapping changes only the key(s) of a condition."""
    want = spec_cond_images(c, p, m, bind)
    for which, got, w in zip(['key_map', 'path_prefix', 'rescope'], outs, want):
        if norm_cond(got) != norm_cond(w):
            sig, what = cond_defect_signature(c, got, w, which)
            ctx.violation(sig, f'{what}: {c} under {which} (path={list(p)}, map={m}) became {got}, expected {w}',
                          dict(kind='cond', cond=c, path=p, key_map=m, bindable=bind, which=which))


def explain_cond(ctx, V, c, p, m, bind, outs):
    """A model/implementation disagreement on a condition is explained iff it is the recorded sympy defect
    (the model substitutes simultaneously)."""
    if c[0] != 'sym':
        return False
    want = spec_cond_images(c, p, m, bind)
    return any(norm_cond(g) != norm_cond(w) for g, w in zip(outs, want))


# ----------------------------------------------------------------------------------------------------------------
# stream 2: generated nestings, compared structurally with the model
def s_qubits(o):
    if o['t'] == 'leaf':
        return list(o['qs'])
    body = sorted({q for m in o['c'] for x in m for q in s_qubits(x)})
    qm = dict(o['qm'])
    return [qm.get(q, q) for q in body]


def s_names(o):
    if o['t'] == 'leaf':
        return [k[1] for k in o['mk']] + [k[1] for c in o['cs'] for k in spec_keys_of(c)]
    km = dict(o['km'])
    unt = [k[1] for k in spec_keys_of(o['until'])] if o.get('until') is not None else []
    return ([km.get(n, n) for n in [n for m in o['c'] for x in m for n in s_names(x)] + unt]
            + [k[1] for c in o.get('cs', []) for k in spec_keys_of(c)])      # controls ON the sub-circuit: enclosing namespace


def s_mnames(o):
    if o['t'] == 'leaf':
        return [k[1] for k in o['mk']]
    km = dict(o['km'])
    return [km.get(n, n) for m in o['c'] for x in m for n in s_mnames(x)]


def s_pnames(o):
    if o['t'] == 'leaf':
        return [p[1] for p in o['ps'] if p[0] == 'sym']
    pm = dict(o['pm'])
    out = [o['reps'][2]] if isinstance(o['reps'], tuple) else []
    for m in o['c']:
        for x in m:
            for n in s_pnames(x):
                v = pm.get(n, ('sym', n))
                if v[0] == 'sym':
                    out.append(v[1])
    return out


def s_depth(o):
    return 0 if o['t'] == 'leaf' else 1 + max([s_depth(x) for m in o['c'] for x in m], default=0)


class Gen:
    """Structured generator of nested CircuitOperation records (all keys written at user level: empty paths)."""

    def __init__(self, rng, sim=False, classical=False, param_leaves=None, loops=0.0, ctl=0.0, ifp=0.0):
        self.rng = rng
        self.ifp = ifp          # probability that a classical control is written with cirq.If: a controlled sub-circuit as
                                # cirq.If(conds, CircuitOperation) / cirq.If(conds, op1, op2, ...), a controlled gate (half as
                                # often) as cirq.If(conds, gate)
        self.ctl = ctl          # probability that a nested sub-circuit is measurement-free (but may hold classically controlled
                                # gates) and is itself put under a classical control reading keys of the enclosing scopes
        self.loops = loops      # probability that a measuring sub-circuit becomes a repeat_until loop (at any nesting level)
        self.sim = sim          # simulation-friendly: every control key bound, no parameters left, no symbolic reps
        self.classical = classical      # only X / CNOT leaves: records are fully determined
        self.param_leaves = (not sim) if param_leaves is None else param_leaves

    def leaf(self, free_q, measured, pure, outer_names):
        rng = self.rng
        r = rng.random()
        if pure is True or r < 0.45:      # pure: True = no measurement and no control; 'nomeas' = no measurement (controls allowed)
            kind = 'p' if (rng.random() < 0.25 and self.param_leaves) else 'u'
        elif r < 0.72:
            kind = 'c' if pure == 'nomeas' else 'm'
        else:
            kind = 'c'
        two = len(free_q) >= 2 and rng.random() < 0.3 and kind != 'm'
        if kind == 'm':
            qs = rng.sample(free_q, rng.choice([1, 1, 2]) if len(free_q) >= 2 else 1)
            name = rng.choice(NAMES)
            return dict(t='leaf', uid=Vocab.MEAS, sgn=False, qs=qs, mk=[((), name)], cs=[], ps=[])
        qs = rng.sample(free_q, 2 if two else 1)
        if kind == 'p':
            uid = 21 if two else 20
            ps = [('sym', rng.choice(['t', 's', 'u']))]
        else:
            uid = (6 if two else 5) if self.classical else (rng.choice([3, 4]) if two else rng.choice([0, 1]))
            ps = []
        cs = []
        if kind == 'c':
            pool = list(measured) if (measured and (self.sim or rng.random() < 0.75)) else (list(outer_names) or NAMES)
            if self.sim:
                pool = list(measured) + list(outer_names)
            if pool:
                for _ in range(rng.choice([1, 1, 2])):
                    c = rcond(rng, lambda: ((), rng.choice(pool)), len(set(pool)))
                    cs.append(c)
        l = dict(t='leaf', uid=uid, sgn=rng.random() < 0.3, qs=qs, mk=[], cs=cs, ps=ps)
        if cs and self.ifp and rng.random() < self.ifp / 2:
            l['via'] = 'if'
        return l

    def circuit(self, depth, nq, pure, outer_names, exact_depth=False):
        """moments over qubits 0..nq-1; returns (moments, names measured at the end)."""
        rng = self.rng
        moments, measured = [], []
        want_sub = depth > 0
        for mi in range(rng.randint(1, 4)):
            free = list(range(nq))
            rng.shuffle(free)
            m, touched = [], set()
            for _ in range(rng.choice([1, 1, 2])):
                if not free:
                    break
                if depth > 0 and (rng.random() < 0.45 or (want_sub and mi >= 1)):
                    d2 = depth - 1 if (exact_depth and want_sub) else rng.randint(0, depth - 1)
                    scope = list(measured) + list(outer_names)
                    ctl = bool(self.ctl and scope and pure is not True and rng.random() < self.ctl)
                    o = self.sub(d2, len(free), 'nomeas' if ctl else pure, scope, free, exact_depth)
                    if ctl and o is not None and not s_mnames(o) and o['reps'] != 0:
                        o['cs'] = [rcond(rng, lambda: ((), rng.choice(scope)), len(set(scope))) for _ in range(rng.choice([1, 1, 2]))]
                        if self.ifp and rng.random() < self.ifp:
                            o['via'] = rng.choice(['if', 'if', 'ifops', 'ifnest', 'ifcco'])
                else:
                    o = self.leaf(free, measured, pure, outer_names)
                if o is None:
                    continue
                names, qs = set(s_names(o)), s_qubits(o)
                if names & touched or not set(qs) <= set(free):
                    continue
                if o['t'] == 'sub':
                    want_sub = False
                touched |= names
                free = [q for q in free if q not in qs]
                m.append(o)
            if m:
                moments.append(m)
                for o in m:
                    measured += s_mnames(o)
        return moments, measured

    def sub(self, depth, nq, pure, outer_names, targets=None, exact_depth=False):
        """A CircuitOperation record whose mapped qubits lie in `targets` (default 0..nq-1)."""
        rng = self.rng
        targets = list(targets) if targets is not None else list(range(nq))
        nb = min(len(targets), rng.choice([1, 2, 2, 3]))
        r = rng.random()
        reps = rng.choice([1, 1, 2, 2, 3, 0]) if r < 0.8 else rng.choice([-1, -2])
        if reps < 0:
            pure = True
        body, measured = self.circuit(depth, nb, pure, outer_names, exact_depth)
        if not body:
            return None
        o = dict(t='sub', c=body, reps=reps, ids=None, use=False, qm=[], km=[], pm=[], pp=[], ext=[], until=None)
        bq = s_qubits(o)
        if self.loops and measured and reps > 0 and rng.random() < self.loops:
            # a repeat_until loop.  Its condition is written in the namespace of the body and uses a key measured by the body
            # (the constructor demands one) and, most of the time, also a key the body does NOT measure: one visible in the
            # enclosing scopes (measured earlier in an enclosing sub-circuit, or at top level)
            o['reps'] = reps = 1
            direct = sorted({k[1] for m in body for x in m if x['t'] == 'leaf' for k in x['mk']})
            own = direct or sorted(set(measured))
            extp = sorted(set(outer_names) - set(measured))
            if extp and rng.random() < 0.7:
                ks = [((), rng.choice(own)), ((), rng.choice(extp))]
                if rng.random() < 0.5:
                    ks.reverse()
                o['until'] = ('sym', rng.choice([2, 4, 5, 5]), ks)
            else:
                c = rcond(rng, lambda: ((), rng.choice(own)), len(own))
                o['until'] = ('key', c[1], -1) if (c[0] != 'sym' and rng.random() < 0.5) else c
        elif not self.sim and reps > 0 and rng.random() < 0.06:
            o['reps'] = ('rsym', False, 'n')
        elif reps != 0:
            r = rng.random()
            if r < 0.25:
                o['use'] = True
            elif r < 0.45:
                o['ids'] = rng.sample(['x', 'y', 'w', 'v'], abs(reps))
                o['use'] = True
        # qubit map: injective from the body qubits into the targets
        img = rng.sample(targets, len(bq))
        if rng.random() < 0.35 and set(bq) <= set(targets):
            img = bq
        o['qm'] = sorted((a, b) for a, b in zip(bq, img) if a != b)
        names = sorted(set(s_names(o)))
        if names and rng.random() < 0.5:
            pool = NAMES + ['y', 'z']
            im = rng.sample(pool, len(names))
            keep = [rng.random() < 0.7 for _ in names]
            cand = {a: (b if k else a) for a, b, k in zip(names, im, keep)}
            if len(set(cand.values())) == len(names):
                o['km'] = sorted((a, b) for a, b in cand.items() if a != b)
        pn = sorted(set(s_pnames(o)) - ({o['reps'][2]} if isinstance(o['reps'], tuple) else set()))
        if pn and (self.sim or rng.random() < 0.5):
            for n in pn:
                if n == 'n':       # the symbol used for repetitions: integers only
                    if rng.random() < 0.6:
                        o['pm'].append((n, ('val', 8 * rng.choice([0, 1, 2, 2]))))
                elif self.sim or rng.random() < 0.7:
                    o['pm'].append((n, ('val', rng.choice([1, 2, 3, 4, 6, -2])) if (self.sim or rng.random() < 0.6)
                                    else ('sym', rng.choice(['t', 's', 'u', 'w']))))
        if rng.random() < 0.4:
            o['pp'] = rng.choice([['p'], ['p'], ['r'], ['p', 'r']])
        return o


def mkeyset(keys):
    return sorted({(tuple(k.path), k.name) for k in keys})


def observe(cirq, V, op):
    """Everything the implementation reports about one CircuitOperation."""
    d = {}
    d['shallow'] = attempt(lambda: V.dcirc(op.mapped_circuit(deep=False)))
    d['deep'] = attempt(lambda: V.dcirc(op.mapped_circuit(deep=True)))
    d['mkeys'] = attempt(lambda: mkeyset(cirq.measurement_key_objs(op)))
    d['ckeys'] = attempt(lambda: mkeyset(cirq.control_keys(op)))
    d['pnames'] = attempt(lambda: sorted(cirq.parameter_names(op)))
    d['qubits'] = [int(q.x) for q in op.qubits]
    d['is_meas'] = bool(cirq.is_measurement(op))
    d['names'] = attempt(lambda: sorted({k.name for k in cirq.measurement_keys_touched(op)}))
    # control keys of every operation of the shallow unrolling (nested operations, in particular repeat_until loops, as
    # rescoped by this operation: the keys their conditions are bound to in the enclosing scope)
    d['sck'] = attempt(lambda: [mkeyset(cirq.control_keys(o)) for o in op.mapped_circuit(deep=False).all_operations()])
    return d


def struct_row_text(r):
    pairs = lambda l, fa, fb: gL(l, lambda p: f'({fa(p[0])}, {fb(p[1])})')
    o, t = r['obs'], r['tr']
    return '(' + ', '.join([
        gOp(r['rec']),
        '(' + ', '.join([gRes(o['shallow'], gCirc), gRes(o['deep'], gCirc), gRes(o['mkeys'], lambda l: gL(l, gK)),
                         gRes(o['ckeys'], lambda l: gL(l, gK)), gRes(o['pnames'], lambda l: gL(l, gS)),
                         gL(o['qubits'], Z), gB(o['is_meas']), gRes(o['names'], lambda l: gL(l, gS)),
                         gRes(o['sck'], lambda ll: gL(ll, lambda l: gL(l, gK)))]) + ')',
        '(' + ', '.join([pairs(r['g'], Z, Z), pairs(r['m2'], gS, gS), pairs(r['pm2'], gS, gP), gL(r['path'], gS),
                         gL(r['bind'], gK)]) + ')',
        '(' + ', '.join([gRes(t['qmap'], gOp), gRes(t['kmap'], gOp), gRes(t['resolve'], gOp), gRes(t['rescope'], gOp),
                         gRes(t['inv'], gOp)]) + ')']) + ')'


def transforms(cirq, V, op, g, m2, pm2, path, bind):
    tr = {}
    tr['qmap'] = attempt(lambda: V.dop(op.transform_qubits(lambda q: V.q(g.get(q.x, q.x)))))
    tr['kmap'] = attempt(lambda: V.dop(cirq.with_measurement_key_mapping(op, m2)))
    tr['resolve'] = attempt(lambda: V.dop(cirq.resolve_parameters(
        op, {V.sympy.Symbol(k): V.pval(v) for k, v in pm2.items()}, recursive=False)))
    tr['rescope'] = attempt(lambda: V.dop(cirq.with_rescoped_keys(op, tuple(path), frozenset(V.key(b) for b in bind))))
    tr['inv'] = attempt(lambda: V.dop(op ** -1))
    return tr


def struct_row(cirq, V, op, D, obs, g, m2, pm2, path, bind):
    return struct_row_text(dict(rec=D, obs=obs, g=sorted(g.items()), m2=sorted(m2.items()), pm2=sorted(pm2.items()), path=path,
                                bind=bind, tr=transforms(cirq, V, op, g, m2, pm2, path, bind)))


def struct_stream(ctx, cirq, V, n, unroll_n=60, gen=None, tag='struct'):
    rng = ctx.rng
    gen = gen or Gen(rng)
    rows = []
    tries = 0
    while len(rows) < n and tries < 20 * n and not over_time(ctx):
        tries += 1
        depth = rng.choice([0, 1, 1, 2, 2, 3])
        rec = gen.sub(depth, 4, rng.random() < 0.2, NAMES, exact_depth=True)
        if rec is None:
            continue
        built = attempt(lambda: V.sub(rec))
        if built[0] != 'ok':
            ctx.count(f'{tag}:rejected', ('rej', len(rows), tries), False)
            continue
        op = built[1]
        D = V.dsub(op)
        obs = observe(cirq, V, op)
        # one further remapping of each kind (constructor compositions)
        bq = sorted(set(obs['qubits']))
        img = rng.sample(range(-1, 7), len(bq))
        g = dict(zip(bq, img))
        names = obs['names'][1] if obs['names'][0] == 'ok' else []
        pool = NAMES + ['y', 'z', 'k']
        m2 = dict(zip(names, rng.sample(pool, len(names)))) if names else {}
        m2 = {a: b for a, b in m2.items() if rng.random() < 0.7}
        if len({m2.get(x, x) for x in names}) != len(names):
            m2 = {}
        pn = obs['pnames'][1] if obs['pnames'][0] == 'ok' else []
        pm2 = {x: (('val', 8 * rng.choice([0, 1, 2])) if x == 'n' else ('val', rng.choice([1, 2, 3, 5])) if rng.random() < 0.6
                   else ('sym', rng.choice(['t', 'w', 'v']))) for x in pn if rng.random() < 0.7}
        path = list(rpath(rng, 2))
        bind = [rkey(rng, 2) for _ in range(rng.randint(0, 3))]
        for x in names[:2]:
            if rng.random() < 0.6:
                j = rng.randint(0, len(path))
                bind.append((tuple(path[:j]), x))
        tr = transforms(cirq, V, op, g, m2, pm2, path, bind)
        rows.append(dict(rec=D, obs=obs, g=sorted(g.items()), m2=sorted(m2.items()), pm2=sorted(pm2.items()), path=path,
                         bind=bind, tr=tr))
        dd = s_depth(D)
        nontriv = dd >= 2 or bool(D['qm'] or D['km'] or D['pp'] or D['ids']) or D['reps'] not in (1,)
        ctx.count(f'{tag}:depth{dd - 1}', D, nontriv,
                  sample=dict(op=repr(op)[:600], measurement_keys=obs['mkeys'], control_keys=obs['ckeys'],
                              deep_moments=(len(obs['deep'][1]) if obs['deep'][0] == 'ok' else obs['deep'][1])))
        for feat in struct_features(D):
            ctx.streams['feature:' + feat] += 1
        spec_struct(ctx, cirq, V, op, D, obs, do_unroll=(len(rows) <= (unroll_n if ctx.tier == 'quick' else 10 * unroll_n)))
        spec_repeat(ctx, cirq, V, op, D, rng)
        spec_commute(ctx, cirq, V, op, D, g, m2, pm2, path, bind)
    # ---- the model, evaluated on the same records
    lines = [struct_row_text(r) for r in rows]
    CH = 60
    bad_all = {}
    for ci in range(0, len(lines), CH):
        defs = STRUCT_DEFS + 'Definition rows_0 : list row_t := [\n' + ';\n'.join(lines[ci:ci + CH]) + '].\n'
        for j in range(1, len(STRUCT_PREDS)):
            defs += f'Definition rows_{j} := rows_0.\n'
        evals = [(name, None, pred) for name, pred in STRUCT_PREDS]
        bad = run_coq(ctx, f'{tag}{ci // CH}', defs, evals)
        for name, idxs in bad.items():
            bad_all.setdefault(name, []).extend(ci + i for i in idxs)
    for name, idxs in bad_all.items():
        for idx in idxs:
            r = rows[idx]
            got = r['obs'].get(name, r['tr'].get(name))
            if sym_collision(r['rec'], [dict(r['m2'])] if name == 'kmap' else []) and confirm_f13(ctx, cirq, V):
                ctx.streams['explained:F13'] += 1
                continue
            if f20_pattern(r['rec'], [dict(r['m2'])] if name == 'kmap' else []) and confirm_f20(ctx, cirq, V):
                ctx.streams['explained:F20'] += 1      # the model renames the outside key of a loop condition (the specification)
                continue
            ctx.mark_broken(f'correspondence:struct:{name}', f'case {idx}: {r["rec"]} -> implementation {got}')
            ctx.violation(f'correspondence:struct:{name}',
                          f'model and implementation disagree on `{name}` of {V.sub(r["rec"])!r}'[:1500] + f' implementation: {got}'[:600],
                          dict(kind='struct', rec=r['rec'], which=name, g=r['g'], m2=r['m2'], pm2=r['pm2'], path=r['path'],
                               bind=r['bind']), found_input=False)
    return rows


STRUCT_DEFS = """
Definition mc (deep : bool) (o : op) : res circ :=
  match o with OSub c f => mapped_circuit kK kM 8 deep c f | OLeaf _ => ErrValue end.
Definition strset_eqb (a b : list string) : bool := set_eqb String.eqb a b.
Definition zfun (g : list (Z * Z)) (q : Z) : Z := zlookup g q.
Definition obs_t := (res circ * res circ * res (list mkey) * res (list mkey) * res (list string) * list Z * bool * res (list string) * res (list (list mkey)))%type.
Definition par_t := (list (Z * Z) * kmap * pmap * list string * list mkey)%type.
Definition tr_t := (res op * res op * res op * res op * res op)%type.
Definition row_t := (op * obs_t * par_t * tr_t)%type.
Definition o_sh (r : row_t) := match r with (_, (a, _, _, _, _, _, _, _, _), _, _) => a end.
Definition o_dp (r : row_t) := match r with (_, (_, a, _, _, _, _, _, _, _), _, _) => a end.
Definition o_mk (r : row_t) := match r with (_, (_, _, a, _, _, _, _, _, _), _, _) => a end.
Definition o_ck (r : row_t) := match r with (_, (_, _, _, a, _, _, _, _, _), _, _) => a end.
Definition o_pn (r : row_t) := match r with (_, (_, _, _, _, a, _, _, _, _), _, _) => a end.
Definition o_qs (r : row_t) := match r with (_, (_, _, _, _, _, a, _, _, _), _, _) => a end.
Definition o_im (r : row_t) := match r with (_, (_, _, _, _, _, _, a, _, _), _, _) => a end.
Definition o_nm (r : row_t) := match r with (_, (_, _, _, _, _, _, _, a, _), _, _) => a end.
Definition o_sc (r : row_t) := match r with (_, (_, _, _, _, _, _, _, _, a), _, _) => a end.
Definition r_op (r : row_t) := match r with (o, _, _, _) => o end.
Definition p_g (r : row_t) := match r with (_, _, (a, _, _, _, _), _) => a end.
Definition p_m (r : row_t) := match r with (_, _, (_, a, _, _, _), _) => a end.
Definition p_p (r : row_t) := match r with (_, _, (_, _, a, _, _), _) => a end.
Definition p_path (r : row_t) := match r with (_, _, (_, _, _, a, _), _) => a end.
Definition p_b (r : row_t) := match r with (_, _, (_, _, _, _, a), _) => a end.
Definition t_q (r : row_t) := match r with (_, _, _, (a, _, _, _, _)) => a end.
Definition t_k (r : row_t) := match r with (_, _, _, (_, a, _, _, _)) => a end.
Definition t_r (r : row_t) := match r with (_, _, _, (_, _, a, _, _)) => a end.
Definition t_s (r : row_t) := match r with (_, _, _, (_, _, _, a, _)) => a end.
Definition t_i (r : row_t) := match r with (_, _, _, (_, _, _, _, a)) => a end.
Definition kmap_top (m : kmap) (o : op) : op := if isnil (op_names o) then o else t_kmap kK kM m o.
Definition sck (o : op) : res (list (list mkey)) := do c <- mc false o; mapM (op_ckeys kK kM 8) (List.concat c).
"""

STRUCT_PREDS = [
    ('shallow', 'fun r : row_t => res_eqb circ_eqb (mc false (r_op r)) (o_sh r)'),
    ('deep', 'fun r : row_t => res_eqb circ_eqb (mc true (r_op r)) (o_dp r)'),
    ('mkeys', 'fun r : row_t => res_eqb keyset_eqb (Ok (op_mkeys (r_op r))) (o_mk r)'),
    ('ckeys', 'fun r : row_t => res_eqb keyset_eqb (op_ckeys kK kM 8 (r_op r)) (o_ck r)'),
    ('pnames', 'fun r : row_t => res_eqb strset_eqb (Ok (op_pnames (r_op r))) (o_pn r)'),
    ('qubits', 'fun r : row_t => list_eqb Z.eqb (op_qubits (r_op r)) (o_qs r)'),
    ('is_meas', 'fun r : row_t => Bool.eqb (op_is_meas (r_op r)) (o_im r)'),
    ('names', 'fun r : row_t => res_eqb strset_eqb (Ok (op_names (r_op r))) (o_nm r)'),
    ('qmap', 'fun r : row_t => res_eqb op_eqb (Ok (t_qmap (zfun (p_g r)) (r_op r))) (t_q r)'),
    ('kmap', 'fun r : row_t => res_eqb op_eqb (Ok (kmap_top (p_m r) (r_op r))) (t_k r)'),
    ('resolve', 'fun r : row_t => res_eqb op_eqb (Ok (if isnil (p_p r) then r_op r else t_resolve (p_p r) (r_op r))) (t_r r)'),
    ('rescope', 'fun r : row_t => res_eqb op_eqb (Ok (t_rescope kK kM (p_path r) (p_b r) (r_op r))) (t_s r)'),
    ('inv', 'fun r : row_t => res_eqb op_eqb (t_inv (r_op r)) (t_i r)'),
    ('sck', 'fun r : row_t => res_eqb (list_eqb\' keyset_eqb) (sck (r_op r)) (o_sc r)'),
]


def struct_features(D):
    f = set()

    def walk(o):
        if o['t'] == 'leaf':
            for c in o['cs']:
                f.add('cond:' + c[0])
            return
        r = o['reps']
        f.add('reps:' + ('sym' if isinstance(r, tuple) else 'neg' if r < 0 else str(r) if r < 2 else 'n'))
        if o['ids'] is not None:
            f.add('ids')
        for k in ('qm', 'km', 'pm', 'pp'):
            if o[k]:
                f.add(k)
        for m in o['c']:
            for x in m:
                walk(x)
    walk(D)
    return f


def trace_sig(cirq, ops):
    """Per-resource subsequences: equal signatures = trace-equivalent sequences.  Resources are qubits and keys; on a
    key, measurements are ordered with everything, controls only with measurements (two controls never conflict)."""
    sig = {}
    for o in ops:
        r = repr(o)
        for q in o.qubits:
            sig.setdefault(('q', repr(q)), []).append(r)
        for k in cirq.measurement_key_objs(o):
            sig.setdefault(('k', str(k)), []).append(('M', r))
        for k in cirq.control_keys(o):
            seq = sig.setdefault(('k', str(k)), [])
            if seq and seq[-1][0] == 'C':
                seq[-1] = ('C', tuple(sorted(seq[-1][1] + (r,))))
            else:
                seq.append(('C', (r,)))
    return sig


def qubit_order_sig(cirq, ops):
    """Per-qubit subsequences of the operations with every measurement / control KEY erased: two sequences with equal
    signatures apply the same gates in the same order on every qubit (they may still differ in how operations on
    different qubits are ordered through a shared key, or in which key a control reads)."""
    sig = {}
    for o in ops:
        base = o.without_classical_controls()
        ctl = 'C|' if isinstance(o, cirq.ClassicallyControlledOperation) else ''
        if isinstance(base.gate, cirq.MeasurementGate):
            base = base.gate.with_key('_').on(*base.qubits)
        r = ctl + repr(base)
        for q in o.qubits:
            sig.setdefault(repr(q), []).append(r)
    return sig


def key_order_sig(cirq, ops):
    """Per-key subsequences of the operations that write or read the key (full operation text)."""
    sig = {}
    for o in ops:
        for k in sorted({str(x) for x in cirq.measurement_key_objs(o)} | {str(x) for x in cirq.control_keys(o)}):
            sig.setdefault(k, []).append(repr(o))
    return sig


def has_zero_reps(cirq, op):
    """Does unrolling meet a CircuitOperation whose (resolved) repetition count is 0?"""
    if not isinstance(op, cirq.CircuitOperation):
        return False
    if isinstance(op.repetitions, (int, np.integer)) and op.repetitions == 0:
        return True
    try:
        inner = list(op._mapped_any_loop.all_operations())
    except Exception:
        return False
    return any(has_zero_reps(cirq, x) for x in inner)


def strip_payload(c):
    """A decoded circuit with the non-key fields of key conditions erased (what F2 loses)."""
    def so(o):
        if o['t'] == 'leaf':
            return dict(o, cs=[(('key', x[1], -1) if x[0] in ('key', 'mask') else x) for x in o['cs']])
        return dict(o, c=strip_payload(o['c']))
    return [[so(o) for o in m] for m in c]


F2_SIGS = {'key': 'F2:KeyCondition.replace_key:index-dropped', 'mask': 'F2:BitMaskKeyCondition.replace_key:fields-dropped'}


def confirm_f2(ctx, cirq, V):
    hit = False
    for c in (('key', ((), 'a'), 0), ('mask', ((), 'a'), -1, 2, True, 2)):
        got = V.dcond(cirq.with_measurement_key_mapping(V.cond(c), {'a': 'b'}))
        want = (c[0], ((), 'b')) + c[2:]
        if norm_cond(got) != norm_cond(want):
            sig, what = cond_defect_signature(c, got, want)
            ctx.violation(sig, f'{what}: {c} under {{a: b}} became {got}', dict(kind='cond', cond=c, path=(), key_map=[('a', 'b')],
                                                                              bindable=[], which='key_map'))
            hit = True
    return hit


def sym_collision(D, extra_maps=()):
    """Is there a sympy condition with >= 2 keys under a key map sending one of its keys onto another of its keys?
    (the situation in which the sequential substitution of the implementation differs from the specification)"""
    def walk(o, maps):
        if o['t'] == 'leaf':
            for c in o['cs']:
                if c[0] == 'sym' and len(c[2]) >= 2:
                    names = [k[1] for k in c[2]]
                    cur = list(names)
                    for m in maps:      # innermost map first; the enclosing maps reach the condition composed into one dict
                        new = [m.get(x, x) for x in cur]
                        if any(new[i] != cur[i] and new[i] in cur for i in range(len(cur))):
                            return True
                        if any(new[i] != names[i] and new[i] in names for i in range(len(names))):
                            return True
                        cur = new
            return False
        maps2 = ([dict(o['km'])] if o['km'] else []) + maps
        return any(walk(x, maps2) for m in o['c'] for x in m)
    return walk(D, [dict(m) for m in extra_maps if m])


def f13_explains(ctx, cirq, V, D, results, extra_maps=()):
    """An injective key map rejected with "Collision in measurement key map composition" while a sympy condition with
    colliding images is present: the recorded defect F13."""
    if any(r[0] == 'err' and 'Collision in measurement key map' in str(r[2:]) for r in results) and sym_collision(D, extra_maps):
        return confirm_f13(ctx, cirq, V)
    return False


def confirm_f13(ctx, cirq, V):
    """The minimal failing input of F13, evaluated on the real code."""
    import sympy
    a, b = sympy.symbols('a b')
    c = cirq.SympyCondition(sympy.And(sympy.Eq(a, 1), sympy.Eq(b, 0)))
    got = cirq.with_measurement_key_mapping(c, {'a': 'b', 'b': 'a'})
    want = cirq.SympyCondition(sympy.And(sympy.Eq(b, 1), sympy.Eq(a, 0)))
    if got != want:
        sig, what = cond_defect_signature(('sym',), None, None)
        ctx.violation(sig, f'{what}: {c} under {{a: b, b: a}} became {got}, expected {want}',
                      dict(kind='cond', cond=('sym', 2, [((), 'a'), ((), 'b')]), path=(), key_map=[('a', 'b'), ('b', 'a')],
                           bindable=[], which='key_map'))
        return True
    return False


# ----------------------------------------------------------------------------------------------------------------
# minimisation of failing records
def _variants(o):
    """Smaller / simpler versions of a record (one change each)."""
    import copy
    if o['t'] == 'leaf':
        if o['cs']:
            for i in range(len(o['cs'])):
                x = copy.deepcopy(o)
                del x['cs'][i]
                yield x
            for i, c in enumerate(o['cs']):
                if c[0] != 'key' or c[2] != -1:
                    x = copy.deepcopy(o)
                    x['cs'][i] = ('key', c[1] if c[0] != 'sym' else c[2][0], -1)
                    yield x
        if o['sgn']:
            x = copy.deepcopy(o)
            x['sgn'] = False
            yield x
        if o.get('via'):
            x = copy.deepcopy(o)
            del x['via']
            yield x
        return
    # a sub: drop moments, drop operations, reset fields, then recurse
    for i in range(len(o['c'])):
        if len(o['c']) > 1:
            x = copy.deepcopy(o)
            del x['c'][i]
            yield x
    for i, m in enumerate(o['c']):
        for j in range(len(m)):
            if len(m) > 1:
                x = copy.deepcopy(o)
                del x['c'][i][j]
                yield x
    if o.get('cs') and len(o['cs']) > 1:
        for i in range(len(o['cs'])):
            x = copy.deepcopy(o)
            del x['cs'][i]
            yield x
    for c in o.get('cs', []):
        if c[0] != 'key' or c[2] != -1:
            x = copy.deepcopy(o)
            x['cs'] = [('key', c[1] if c[0] != 'sym' else c[2][0], -1)]
            yield x
    if o.get('via'):        # written as a ClassicallyControlledOperation instead of cirq.If
        x = copy.deepcopy(o)
        del x['via']
        yield x
    for k, v in (('qm', []), ('km', []), ('pm', []), ('pp', []), ('until', None)):
        if o[k]:
            x = copy.deepcopy(o)
            x[k] = v
            yield x
    if o['ids'] is not None or o['use']:
        x = copy.deepcopy(o)
        x['ids'], x['use'] = None, False
        yield x
    if o['reps'] != 1:
        for r in ([1, 2] if (isinstance(o['reps'], tuple) or abs(o['reps']) > 2) else [1]):
            x = copy.deepcopy(o)
            x['reps'] = r
            if x['ids'] is not None:
                x['ids'] = x['ids'][:r] if len(x['ids']) >= r else None
            yield x
    for i, m in enumerate(o['c']):
        for j, y in enumerate(m):
            if y['t'] == 'sub':      # replace a nested operation by its body's first leaf, or hoist
                for z in [u for mm in y['c'] for u in mm][:2]:
                    x = copy.deepcopy(o)
                    x['c'][i][j] = copy.deepcopy(z)
                    yield x
            for z in _variants(y):
                x = copy.deepcopy(o)
                x['c'][i][j] = z
                yield x


SHRINK = dict(spent=0.0, limit=45.0)


def seen(ctx, sig):
    """Is a violation with this signature already recorded (or a known finding)?  Then there is nothing to minimise."""
    return any(k['signature'] == sig for k in ctx.known) or any(v['signature'] == sig for v in ctx.violations)


def over_time(ctx):
    lim = 150 if ctx.tier == 'quick' else 1500
    if time.time() - SHRINK.get('t0', ctx.t0) > lim:     # measured from the start of the streams (builds may wait for the lock)
        ctx.streams['truncated:time-limit'] += 1
        return True
    return False


def shrink(rec, fails, budget=400):
    """Greedy minimisation: keep applying the first simplification under which `fails` still holds."""
    cur = rec
    n = 0
    progress = True
    t0 = time.time()
    while progress and n < budget and SHRINK['spent'] + (time.time() - t0) < SHRINK['limit']:
        progress = False
        for cand in _variants(cur):
            n += 1
            if n >= budget or SHRINK['spent'] + (time.time() - t0) >= SHRINK['limit']:
                break
            try:
                if fails(cand):
                    cur = cand
                    progress = True
                    break
            except Exception:
                pass
    SHRINK['spent'] += time.time() - t0
    return cur


F18_SIG = 'F18:loop-carried-key:binding-depends-on-key-path'
F18_WHAT = ('F18 in a loop without repetition ids whose body reads a key before measuring it (loop-carried classical '
            'dependency), CircuitOperation rescopes ONE loop body and repeats it, so from the second iteration on the control '
            'binds to the previous iteration\'s measurement only when the loop has no key path: giving the same loop a '
            'parent_path / nesting it under repetition ids makes the control read the enclosing measurement instead; '
            'unroll_circuit_op(deep=True) (inner loops first) and mapped_circuit(deep=True) then produce inequivalent circuits')


F7_SIG = 'F7:zero-repetitions:keys-of-empty-unrolling'
F7_WHAT = ('F7 a CircuitOperation with repetitions=0 still reports the measurement keys / control keys / is_measurement of '
           'its body, while its unrolled form (mapped_circuit, decompose, simulation) is empty')


def unroll_defect(cirq, V, name, D, inner_first=False):
    """'' if the transformer agrees with mapped_circuit(deep=True) up to trace equivalence, else what goes wrong.
    inner_first: compare with unroll_circuit_op(deep=True) instead (used for the greedy variants when a loop-carried
    key makes the two reference unrollings differ, F18)."""
    op = V.sub(D)
    flat = op.mapped_circuit(deep=True)
    if inner_first:
        base = attempt(lambda: cirq.unroll_circuit_op(cirq.Circuit(op), deep=True, tags_to_check=None))
        flat = base[1] if base[0] == 'ok' else flat
    r = attempt(lambda: getattr(cirq, name)(cirq.Circuit(op), deep=True, tags_to_check=None))
    if r[0] != 'ok':
        return 'raises-' + r[1]
    a, b = trace_sig(cirq, r[1].all_operations()), trace_sig(cirq, flat.all_operations())
    if a == b:
        return ''
    # which resource does the exchanged pair share?  Only a different gate order on some qubit is a qubit reorder; when every
    # qubit sees the same gates in the same order, the difference is in the key dependencies (an operation moved across a
    # measurement / control of a key it shares with an operation on OTHER qubits, possibly changing what a control binds to)
    if qubit_order_sig(cirq, r[1].all_operations()) != qubit_order_sig(cirq, flat.all_operations()):
        return 'reorders-operations-on-a-qubit'
    if key_order_sig(cirq, r[1].all_operations()) == key_order_sig(cirq, flat.all_operations()):
        # every qubit sees the same gates in the same order (keys erased) and every key sees the same operations in the same order:
        # what was exchanged are operations that are identical once their keys are erased and share no key - measurements of the
        # same qubits into different keys, back to back.  They commute (the same projective measurement twice): same meaning.
        return ''
    return 'reorders-operations-on-a-key'


def spec_struct(ctx, cirq, V, op, D, obs, do_unroll=True):
    """Spec-level oracles on the real code: the wrapped operation vs its unrolled circuit."""
    if obs['deep'][0] != 'ok':
        # only nondeterministic loop counts may refuse to unroll
        def nondet(o):
            return o['t'] == 'sub' and (isinstance(o['reps'], tuple) or o['until'] is not None
                                        or any(nondet(x) for m in o['c'] for x in m))
        if f13_explains(ctx, cirq, V, D, [obs['deep']]):
            return
        if not (obs['deep'][1] == 'ValueError' and nondet(D)):
            ctx.violation('unroll:refused', f'mapped_circuit(deep=True) raised {obs["deep"][1:]} for a deterministic loop: {op!r}'[:1500],
                          dict(kind='struct', rec=D, which='deep'))
        return
    flat = op.mapped_circuit(deep=True)
    rep = dict(kind='struct', rec=D, which='spec')
    zero = has_zero_reps(cirq, op)
    # S1: reported keys
    for name, f in (('measurement_key_objs', cirq.measurement_key_objs), ('control_keys', cirq.control_keys),
                    ('is_measurement', cirq.is_measurement)):
        w, u = attempt(lambda: f(op)), attempt(lambda: f(flat))
        if w != u:
            if zero:
                ctx.violation(F7_SIG, F7_WHAT + f' ({name}: wrapped {w[1]}, unrolled {u[1]})', rep)
            else:
                ctx.violation(f'wrapped-vs-unrolled:{name}', f'{name} of the operation is {w}, of its unrolled circuit {u}: {op!r}'[:1800], rep)
    if not set(flat.all_qubits()) <= set(op.qubits) or (not zero and set(flat.all_qubits()) != set(op.qubits)):
        ctx.violation('wrapped-vs-unrolled:qubits', f'qubits {op.qubits} vs unrolled {sorted(flat.all_qubits())}: {op!r}'[:1800], rep)
    # S2: decomposition
    sh = op.mapped_circuit(deep=False)
    if list(cirq.decompose_once(op)) != list(sh.all_operations()):
        ctx.violation('decompose_once-vs-mapped_circuit', f'decompose_once differs from mapped_circuit: {op!r}'[:1800], rep)
    full = cirq.decompose(op, keep=lambda o: not isinstance(o.untagged, cirq.CircuitOperation))
    if trace_sig(cirq, full) != trace_sig(cirq, flat.all_operations()):
        ctx.violation('decompose-vs-unrolled', f'cirq.decompose is not trace-equivalent to mapped_circuit(deep=True): {op!r}'[:1800], rep)
    # S3: the transformer primitives
    if do_unroll:
        for name in ('unroll_circuit_op', 'unroll_circuit_op_greedy_earliest', 'unroll_circuit_op_greedy_frontier'):
            late = late_bound(cirq, flat)
            kind = unroll_defect(cirq, V, name, D, inner_first=(late and name != 'unroll_circuit_op'))
            if kind.startswith('reorders') and zero:
                ctx.violation(F7_SIG, F7_WHAT + f' ({name}(deep=True) drops the zero-repetition operation before scoping, '
                              'mapped_circuit(deep=True) binds controls to its phantom keys)', dict(kind='unroll', rec=D, fn=name, defect=kind))
                continue
            if kind.startswith('reorders') and name == 'unroll_circuit_op' and late:
                ctx.violation(F18_SIG, F18_WHAT + f' (unroll_circuit_op(deep=True) vs mapped_circuit(deep=True) of {op!r})'[:1500],
                              dict(kind='unroll', rec=D, fn=name, defect=kind))
                continue
            if kind:
                fails = lambda x: unroll_defect(cirq, V, name, x, inner_first=(name != 'unroll_circuit_op' and late_bound(
                    cirq, V.sub(x).mapped_circuit(deep=True)))) == kind
                small = D if seen(ctx, f'{name}:{kind}') else shrink(D, fails, budget=150)
                ctx.violation(f'{name}:{kind}', f'{name}(deep=True) {kind} relative to mapped_circuit(deep=True); minimised input: '
                              f'{V.sub(small)!r}'[:1800], dict(kind='unroll', rec=small, fn=name, defect=kind))
    ctx.streams['spec:wrapped-vs-unrolled'] += 1


def spec_commute(ctx, cirq, V, op, D, g, m2, pm2, path, bind):
    """Further remapping / resolution / inversion commutes with unrolling (on the real code)."""
    flat = attempt(lambda: op.mapped_circuit(deep=True))
    if flat[0] != 'ok':
        return
    flat = flat[1]
    rep = dict(kind='struct', rec=D, which='commute', g=sorted(g.items()), m2=sorted(m2.items()), pm2=sorted(pm2.items()),
               path=path, bind=bind)
    gq = lambda q: V.q(g.get(q.x, q.x))
    res = {V.sympy.Symbol(k): V.pval(v) for k, v in pm2.items()}
    B = frozenset(V.key(b) for b in bind)
    zero = has_zero_reps(cirq, op)
    closed = not cirq.control_keys(flat)      # with_key_path_prefix on a flat circuit also prefixes unbound control keys
    cases = [('qubit-map', lambda: op.transform_qubits(gq).mapped_circuit(deep=True), lambda: flat.transform_qubits(gq), True),
             ('key-map', lambda: cirq.with_measurement_key_mapping(op, m2).mapped_circuit(deep=True),
              lambda: cirq.with_measurement_key_mapping(flat, m2), True),
             ('resolve', lambda: cirq.resolve_parameters(op, res, recursive=False).mapped_circuit(deep=True),
              lambda: cirq.resolve_parameters(flat, res, recursive=False), True),
             ('key-path-prefix', lambda: cirq.with_key_path_prefix(op, tuple(path)).mapped_circuit(deep=True),
              lambda: cirq.with_key_path_prefix(flat, tuple(path)), True),
             ('rescope', lambda: cirq.with_rescoped_keys(op, tuple(path), B).mapped_circuit(deep=True),
              lambda: cirq.with_rescoped_keys(flat, tuple(path), B), True),
             ('inverse', lambda: (op ** -1).mapped_circuit(deep=True), lambda: cirq.inverse(flat), False)]
    late = late_bound(cirq, flat)
    for name, lhs, rhs, exact in cases:
        if name == 'key-path-prefix' and not closed:
            continue
        if name == 'rescope' and late:
            a, b = attempt(lhs), attempt(rhs)
            if not (a[0] == b[0] == 'ok' and a[1] == b[1]):
                ctx.violation(F18_SIG, F18_WHAT + f' (rescope-then-unroll vs unroll-then-rescope of {op!r}, path {path}, bindable {bind})'[:1500], rep)
            continue
        a, b = attempt(lhs), attempt(rhs)
        if a[0] != 'ok' and b[0] != 'ok':
            continue
        if name == 'resolve' and a[0] != 'ok' and any(isinstance(x['reps'], tuple) for x in subs_of(D)):
            continue    # symbolic repetitions stay symbolic: no unrolled form to compare with
        same = a[0] == b[0] == 'ok' and ((a[1] == b[1]) if exact else
                                         trace_sig(cirq, a[1].all_operations()) == trace_sig(cirq, b[1].all_operations()))
        if not same:
            if name == 'key-map' and sym_collision(D, [m2]) and confirm_f13(ctx, cirq, V):
                continue
            if name == 'key-map' and f20_pattern(D, [m2]) and confirm_f20(ctx, cirq, V):
                ctx.streams['explained:F20'] += 1
                continue
            if a[0] == b[0] == 'ok' and strip_payload(V.dcirc(a[1])) == strip_payload(V.dcirc(b[1])) and confirm_f2(ctx, cirq, V):
                continue        # the two sides differ only in the fields replace_key drops
            if zero and name in ('rescope', 'key-path-prefix'):
                ctx.violation(F7_SIG, F7_WHAT + f' ({name}: a control key binds to a measurement of a zero-repetition body)', rep)
                continue
            ctx.violation(f'commute:{name}', f'{name} then unroll differs from unroll then {name} '
                          f'({a[1] if a[0] != "ok" else ""} / {b[1] if b[0] != "ok" else ""}) for {op!r}'[:1800] +
                          f' with g={g} m2={m2} pm2={pm2} path={path} bind={bind}', rep)
    ctx.streams['spec:commute'] += 1


def late_bound(cirq, flat):
    """Loop-carried key pattern: a control on key K is followed by a measurement of a key with the same name that it does
    not read (another path, or K itself measured for the first time): scoping one loop body and repeating it (the
    implementation) and scoping the repeated body (inner-first unrolling) may then bind the control differently (F18)."""
    seen, ctl = set(), {}
    for op in flat.all_operations():
        for k in cirq.control_keys(op):
            ctl.setdefault(k.name, set()).add((str(k), str(k) in seen))
        for k in cirq.measurement_key_objs(op):
            for full, bound in ctl.get(k.name, ()):
                if full != str(k) or not bound:
                    return True
            seen.add(str(k))
    return False


def spec_repeat(ctx, cirq, V, op, D, rng):
    """repeat of repeat = one repeat with the product count (and, with ids, the cartesian product of the ids)."""
    if isinstance(D['reps'], tuple) or D['until'] is not None:
        return
    a, b = rng.choice([1, 2, 3, -1]), rng.choice([1, 2, -1, -2])
    rep = dict(kind='struct', rec=D, which='repeat', a=a, b=b)
    if (a < 0 or b < 0) and attempt(lambda: op ** -1)[0] != 'ok':
        return
    with_ids = rng.random() < 0.4 and D['ids'] is None and not D['use']
    if with_ids:
        A, B = [f'i{j}' for j in range(abs(a))], [f'j{j}' for j in range(abs(b))]
        lhs = attempt(lambda: op.repeat(a, A).repeat(b, B))
        rhs = attempt(lambda: op.repeat(a * b, [f'{y}-{x}' for y in B for x in A]))
    else:
        lhs = attempt(lambda: op.repeat(a).repeat(b))
        rhs = attempt(lambda: op.repeat(a * b))
    if lhs[0] != 'ok' or rhs[0] != 'ok':
        if lhs[:2] != rhs[:2]:
            ctx.violation('repeat-of-repeat:raises', f'repeat({a}) then repeat({b}) gives {lhs[1:]}, repeat({a * b}) gives {rhs[1:]} for {op!r}'[:1500], rep)
        return
    if not with_ids and D['use']:
        # default ids of a repeated operation with ids are joined ('0-x'), a single repeat keeps one level: compare the key COUNT only
        ka, kb = attempt(lambda: len(cirq.measurement_key_objs(lhs[1]))), attempt(lambda: len(cirq.measurement_key_objs(rhs[1])))
        if ka != kb:
            ctx.violation('repeat-of-repeat:key-count', f'repeat({a}).repeat({b}) reports {ka} keys, repeat({a * b}) {kb}: {op!r}'[:1500], rep)
        return
    x, y = attempt(lambda: lhs[1].mapped_circuit(deep=True)), attempt(lambda: rhs[1].mapped_circuit(deep=True))
    same = x[0] == y[0] and (x[0] != 'ok' or x[1] == y[1])
    same = same and attempt(lambda: cirq.measurement_key_objs(lhs[1])) == attempt(lambda: cirq.measurement_key_objs(rhs[1]))
    if not same and not f13_explains(ctx, cirq, V, D, [x, y]):
        ctx.violation('repeat-of-repeat', f'repeat({a}) then repeat({b}) differs from repeat({a * b}) (ids={with_ids}): {op!r}'[:1500], rep)
    ctx.streams['spec:repeat-of-repeat'] += 1


def subs_of(D):
    if D['t'] == 'leaf':
        return []
    return [D] + [y for m in D['c'] for x in m for y in subs_of(x)]




# ----------------------------------------------------------------------------------------------------------------
# stream 3: unitary of the wrapped operation vs its unrolled circuit (incl. the single-qubit fast path, F4)
def unitary_stream(ctx, cirq, V, n):
    rng = ctx.rng
    gen = Gen(rng, sim=True, param_leaves=True)
    done = tries = 0
    while done < n and tries < 20 * n and not over_time(ctx):
        tries += 1
        one = rng.random() < 0.4            # single-qubit bodies select CircuitOperation._unitary_'s fast path
        rec = gen.sub(rng.choice([0, 0, 1, 1, 2]), 1 if one else 3, True, [], exact_depth=False)
        if rec is None:
            continue
        built = attempt(lambda: V.sub(rec))
        if built[0] != 'ok':
            continue
        op = built[1]
        D = V.dsub(op)
        done += 1
        ctx.count('unitary:1q' if len(op.qubits) == 1 else 'unitary:nq', D, True,
                  sample=dict(op=repr(op)[:500], has_unitary=bool(cirq.has_unitary(op))))
        check_unitary(ctx, cirq, V, op, D)


def unitary_defect(cirq, V, D):
    op = V.sub(D)
    flat = op.mapped_circuit(deep=True)
    hu_w, hu_f = bool(cirq.has_unitary(op)), bool(cirq.has_unitary(flat))
    if hu_w != hu_f:
        return f'has_unitary-{hu_w}-but-unrolled-{hu_f}'
    if not hu_w:
        return ''
    u = attempt(lambda: cirq.unitary(op))
    if u[0] != 'ok':
        return 'unitary-raises-although-has_unitary'
    want = flat.unitary(qubit_order=list(op.qubits), qubits_that_should_be_present=op.qubits)
    if u[1].shape != want.shape or not np.allclose(u[1], want, atol=1e-8):
        return 'unitary-differs-from-unrolled'
    return ''


def check_unitary(ctx, cirq, V, op, D):
    kind = unitary_defect(cirq, V, D)
    if kind:
        tag0 = '1q-fast-path' if len(op.qubits) == 1 else 'general'
        small = D if seen(ctx, f'F4:unitary:{tag0}:{kind}') else shrink(D, lambda x: unitary_defect(cirq, V, x) == kind, budget=200)
        sop = V.sub(small)
        tag = '1q-fast-path' if len(sop.qubits) == 1 else 'general'
        ctx.violation(f'F4:unitary:{tag}:{kind}', f'cirq.unitary / has_unitary of the wrapped operation vs its unrolled circuit: {kind}; '
                      f'minimised input: {sop!r}'[:1800], dict(kind='unitary', rec=small, defect=kind))


# ----------------------------------------------------------------------------------------------------------------
# stream 4: simulation of wrapped vs unrolled circuits whose records are fully determined (X / CNOT / measure / control)
def records_of(cirq, circuit):
    r = cirq.Simulator().run(circuit, repetitions=1)
    return {k: np.asarray(v).tolist() for k, v in sorted(r.records.items())}


def sim_case(rng, gen):
    """(prep moments as records, names bound before the operation, record of the operation)."""
    nq = 4
    prep = [[dict(t='leaf', uid=5, sgn=False, qs=[q], mk=[], cs=[], ps=[]) for q in range(nq) if rng.random() < 0.5]]
    names = rng.sample(NAMES, 2)
    prep.append([dict(t='leaf', uid=Vocab.MEAS, sgn=False, qs=[q], mk=[((), nm)], cs=[], ps=[])
                 for q, nm in zip(rng.sample(range(nq), 2), names)])
    prep = [m for m in prep if m]
    rec = gen.sub(rng.choice([0, 1, 1, 2, 2]), nq, rng.random() < 0.15, names, exact_depth=True)
    return prep, names, rec


def sim_defect(cirq, V, prep, D, ctl, via='cco'):
    """'' if simulating the wrapped operation and its unrolled circuit(s) gives the same records."""
    op = V.sub(D)
    flat = op.mapped_circuit(deep=True)
    pre = [cirq.Moment(V.op(o) for o in m) for m in prep]
    fin = cirq.Moment(cirq.measure(*[V.q(i) for i in range(4)], key='fin'))
    if ctl is not None:
        cop = cirq.If(V.cond(ctl), op) if via == 'if' else op.with_classical_controls(V.cond(ctl))
        wrapped = cirq.Circuit(pre + [cirq.Moment(cop), fin])
        flat_ms = [cirq.Moment(o.with_classical_controls(V.cond(ctl)) for o in m) for m in flat.moments]
    else:
        wrapped = cirq.Circuit(pre + [cirq.Moment(op), fin])
        flat_ms = list(flat.moments)
    unrolled = cirq.Circuit(pre + flat_ms + [fin])
    a = attempt(lambda: records_of(cirq, wrapped))
    b = attempt(lambda: records_of(cirq, unrolled))
    dec = cirq.Circuit(cirq.decompose(wrapped, keep=lambda o: is_flat_leaf(cirq, o)))
    c = attempt(lambda: records_of(cirq, dec))
    def cat(x):
        # an operation that reads a record that does not exist (a key nobody measured, or an index beyond the records of its key) is
        # refused either way; when a moment holds two such reads, which of the two refusals comes first depends on the order inside the
        # moment, which wrapping and unrolling are free to change: both are the same answer "the circuit reads a missing record"
        if x[0] == 'err' and ((x[1] == 'IndexError' and 'index out of range' in x[2]) or (x[1] == 'ValueError' and 'missing when testing classical control' in x[2])):
            return ('err', 'reads-a-missing-record')
        return x[:2]
    if cat(a) != cat(b):
        return 'records-wrapped-vs-unrolled', a, b
    if cat(a) != cat(c):
        return 'records-wrapped-vs-decomposed', a, c
    return '', a, b


def sim_stream(ctx, cirq, V, n):
    rng = ctx.rng
    gen = Gen(rng, sim=True, classical=True)
    done = tries = 0
    while done < n and tries < 20 * n and not over_time(ctx):
        tries += 1
        prep, names, rec = sim_case(rng, gen)
        if rec is None or attempt(lambda: V.sub(rec))[0] != 'ok':
            continue
        op = V.sub(rec)
        D = V.dsub(op)
        if attempt(lambda: op.mapped_circuit(deep=True))[0] != 'ok':
            continue
        ctl, via = None, 'cco'
        if not cirq.measurement_key_objs(op) and rng.random() < 0.5:
            ctl = rcond(rng, lambda: ((), rng.choice(names)), 2)
            if ctl[0] != 'sym' and ctl[2] > 0:      # the prepared keys have exactly one record
                ctl = ctl[:2] + (0,) + ctl[3:]
            via = rng.choice(['cco', 'if'])         # op.with_classical_controls(ctl) or cirq.If(ctl, op)
        kind, a, b = sim_defect(cirq, V, prep, D, ctl, via)
        done += 1
        ok = a[0] == 'ok'
        ctx.count('sim:records' if ok else 'sim:both-raise', (prep, D, ctl), ok and len(a[1]) > 1,
                  sample=dict(op=repr(op)[:500], control=ctl, records=a[1] if ok else a[1:]))
        if kind and f13_explains(ctx, cirq, V, D, [a, b]):
            continue
        if kind:
            small = D if seen(ctx, f'sim:{kind}') else shrink(D, lambda x: sim_defect(cirq, V, prep, x, ctl, via)[0] == kind, budget=200)
            ctx.violation(f'sim:{kind}', f'{kind}: {a[1:]} vs {b[1:]}; minimised operation: {V.sub(small)!r}'[:1800] +
                          f' after prep {prep} control {ctl}' + (' written as cirq.If(control, operation)' if via == 'if' else ''),
                          dict(kind='sim', prep=prep, rec=small, ctl=ctl, ctl_via=via, defect=kind))


# ----------------------------------------------------------------------------------------------------------------
# stream 5: repeat_until = the least number of iterations after which the condition holds
def cond_value(c, records):
    """Independent evaluation of a condition on simulator records {key string: [instances][bits]}."""
    def val(k, idx=-1):
        bits = records[':'.join(tuple(k[0]) + (k[1],))][0][idx]
        return int(''.join(str(int(x)) for x in bits) or '0', 2), bits
    if c[0] == 'key':
        return val(c[1], c[2])[0] != 0
    if c[0] == 'mask':
        v = val(c[1], c[2])[0]
        if c[5] is not None:
            v &= c[5]
        return (v == c[3]) if c[4] else (v != c[3])
    vs = [val(k) for k in c[2]]
    e = c[1]
    return {0: lambda: vs[0][0] == 1, 1: lambda: vs[0][0] > 1, 2: lambda: vs[0][0] == 1 and vs[1][0] == 0,
            3: lambda: vs[0][1][0] == 1, 4: lambda: vs[0][0] + 2 * vs[1][0] > 1, 5: lambda: vs[0][0] == vs[1][0]}[e]()


class Timeout(Exception):
    pass


def with_timeout(seconds, f):
    import signal

    def handler(signum, frame):
        raise Timeout()
    old = signal.signal(signal.SIGALRM, handler)
    signal.setitimer(signal.ITIMER_REAL, seconds)
    try:
        return f()
    finally:
        signal.setitimer(signal.ITIMER_REAL, 0)
        signal.signal(signal.SIGALRM, old)


def until_defect(cirq, V, prep, D, maxk=6):
    """'' | defect kind.  The loop must stop after the first iteration whose records satisfy the condition."""
    until = D['until']
    pre = [cirq.Moment(V.op(o) for o in m) for m in prep]
    fin = cirq.Moment(cirq.measure(*[V.q(i) for i in range(4)], key='fin'))
    base = dict(D, until=None)
    kstar = None
    for k in range(1, maxk + 1):
        opk = V.sub(dict(base, reps=k))
        rk = attempt(lambda: records_of(cirq, cirq.Circuit(pre + list(opk.mapped_circuit(deep=True).moments) + [fin])))
        if rk[0] != 'ok':
            return 'skip'
        # the condition is written in the namespace of the body; the operation's key map and parent path apply to it
        km = dict(D['km'])
        mapped = spec_cond_images(until, tuple(D['pp']), sorted(km.items()), [])[0]
        mapped = spec_cond_images(mapped, tuple(D['pp']), [], [])[1]
        try:
            holds = cond_value(mapped, rk[1])
        except (IndexError, KeyError):
            return 'skip'
        if holds:
            kstar = k
            want = rk[1]
            break
    if kstar is None:
        return 'skip'
    w = attempt(lambda: with_timeout(2, lambda: records_of(cirq, cirq.Circuit(pre + [cirq.Moment(V.sub(D)), fin]))))
    if w[0] != 'ok':
        return 'until-does-not-stop' if w[1] == 'Timeout' else 'until-raises-' + w[1]
    if w[1] != want:
        return 'until-iteration-count'
    return ''


def until_stream(ctx, cirq, V, n):
    rng = ctx.rng
    gen = Gen(rng, sim=True, classical=True)
    done = tries = 0
    while done < n and tries < 40 * n and not over_time(ctx):
        tries += 1
        prep, names, rec = sim_case(rng, gen)
        if rec is None:
            continue
        rec.update(reps=1, ids=None, use=False)
        inner = sorted(set(x for m in rec['c'] for o in m for x in s_mnames(o)))
        if not inner:
            continue
        rec['until'] = rcond(rng, lambda: ((), rng.choice(inner)), len(inner))
        if rng.random() < 0.6 and rec['until'][0] != 'sym':       # most loops use a plain key condition (not hit by F2)
            rec['until'] = ('key', rec['until'][1], -1)
        built = attempt(lambda: V.sub(rec))
        if built[0] != 'ok':
            continue
        D = V.dsub(built[1])
        kind = until_defect(cirq, V, prep, D)
        if kind == 'skip':
            continue
        done += 1
        ctx.count('sim:repeat_until', (prep, D), True, sample=dict(op=repr(built[1])[:500]))
        if kind:
            if payload(D['until']) not in ((-1,), (-1, 0, False, None)) and D['until'][0] != 'sym' and confirm_f2(ctx, cirq, V):
                ctx.streams['explained:F2'] += 1
                continue
            small = D if seen(ctx, f'sim:{kind}') else shrink(D, lambda x: x['until'] is not None and until_defect(cirq, V, prep, x) == kind, budget=60)
            ctx.violation(f'sim:{kind}', f'repeat_until loop: {kind}; minimised operation {V.sub(small)!r}'[:1800] + f' after prep {prep}',
                          dict(kind='until', prep=prep, rec=small, defect=kind))


# ----------------------------------------------------------------------------------------------------------------
# stream 6: scoping templates whose outcome is known independently of any rescoping code
#   T1 shadowing: an inner measurement of `a` hides the outer `a` for the controls that follow it in the sub-circuit
#   T2 no capture of later keys: a control that precedes the inner measurement of `a` reads the enclosing `a`
def scope_desc(rng):
    kind = rng.choice(['T1', 'T2'])
    k = rng.choice([1, 2, 3])
    ids = rng.random() < 0.5
    opts = {}
    if ids:
        opts['repetition_ids'] = rng.sample(['x', 'y', 'w'], k) if rng.random() < 0.5 else None
        opts['use_repetition_ids'] = True
    if rng.random() < 0.4:
        opts['parent_path'] = rng.choice([['p'], ['p', 'r']])
    inner = {}
    if rng.random() < 0.4:
        inner = rng.choice([dict(repetition_ids=['z']), dict(parent_path=['s']), dict(use_repetition_ids=True, repetitions=1)])
    wrap = rng.choice([None, None, {}, dict(parent_path=['w']), dict(repetition_ids=['u'])])   # enclose everything in one more operation
    return dict(kind=kind, v0=rng.random() < 0.5, v1=rng.random() < 0.5, k=k, ids=ids, opts=opts, nest=rng.random() < 0.5, inner=inner,
                wrap=wrap)


def scope_build(cirq, d):
    q0, q1, q2 = cirq.LineQubit.range(3)
    fixo = lambda o: {k_: (tuple(v) if k_ == 'parent_path' else v) for k_, v in o.items()}
    kind, v0, v1, k, ids = d['kind'], d['v0'], d['v1'], d['k'], d['ids']
    ctl = cirq.X(q2).with_classical_controls('a')
    if d['nest']:
        ctl = cirq.CircuitOperation(cirq.FrozenCircuit(ctl), **fixo(d['inner']))
    prep = [cirq.X(q1)] if v1 else []
    if kind == 'T1':
        body = [cirq.Moment(prep), cirq.Moment(cirq.measure(q1, key='a')), cirq.Moment(ctl)]
    else:
        body = [cirq.Moment(ctl), cirq.Moment(prep), cirq.Moment(cirq.measure(q1, key='a'))]
    sub = cirq.CircuitOperation(cirq.FrozenCircuit(body), repetitions=k, **fixo(d['opts']))
    head = ([cirq.Moment(cirq.X(q0))] if v0 else []) + [cirq.Moment(cirq.measure(q0, key='a')), cirq.Moment(sub)]
    if d.get('wrap') is not None:
        sub = cirq.CircuitOperation(cirq.FrozenCircuit(head), **fixo(d['wrap']))
        head = [cirq.Moment(sub)]
    circuit = cirq.Circuit(head + [cirq.Moment(cirq.measure(q2, key='out'))])
    # expected value of `out`, from the meaning of the circuit
    b1 = b2 = 0
    last = int(v0)
    same_key = not ids     # without repetition ids every iteration measures the same key: a later iteration reads the previous one
    for _ in range(k):
        if kind == 'T1':
            b1 ^= int(v1)
            b2 ^= b1
        else:
            b2 ^= (last if same_key else int(v0))
            b1 ^= int(v1)
            if same_key:
                last = b1
    return circuit, sub, b2


def scope_unrolled(cirq, circuit, sub):
    return cirq.Circuit(m for mo in circuit for m in (sub.mapped_circuit(deep=True).moments if sub in mo.operations else [mo]))


def scope_stream(ctx, cirq, V, n):
    rng = ctx.rng
    for _ in range(n):
        if over_time(ctx):
            break
        desc = scope_desc(rng)
        kind = desc['kind']
        circuit, sub, want = scope_build(cirq, desc)
        got = {}
        for name, c in (('wrapped', circuit), ('unrolled', scope_unrolled(cirq, circuit, sub))):
            r = attempt(lambda: int(cirq.Simulator().run(c, repetitions=1).records['out'][0][-1][0]))
            got[name] = r[1] if r[0] == 'ok' else r[1:]
        ctx.count('sim:scoping:' + kind, desc, True, sample=dict(case=desc, expected_out=want, got=got))
        for name, g in got.items():
            if g != want and kind == 'T2' and not desc['ids'] and desc['k'] >= 2 and (desc['opts'].get('parent_path') or desc['nest']
                                                                                      or desc['wrap']):
                ctx.violation(F18_SIG, F18_WHAT + f' (template {desc}: `out` is {g}, expected {want})', dict(kind='scope', desc=desc, expected=want))
            elif g != want:
                ctx.violation(f'scoping:{kind}:{name}', f'scoping template {kind} {desc}: measurement `out` is {g} in the {name} circuit, '
                              f'the control must read {"the inner" if kind == "T1" else "the enclosing"} measurement of a: expected {want}\n{circuit}',
                              dict(kind='scope', desc=desc, expected=want))


# ----------------------------------------------------------------------------------------------------------------
# stream 7: exact outcome distribution of wrapped vs unrolled circuits with superpositions: a scripted object passed
# as `seed` answers every measurement draw from a branch script; DFS over the scripts enumerates all branches with the
# probabilities the simulator itself supplied (DESIGN A.3)
class NeedBranch(Exception):
    def __init__(self, probs):
        self.probs = probs


class ScriptedSeed:
    def __init__(self, script):
        self.script, self.pos, self.p = list(script), 0, 1.0

    def _draw(self, p):
        if self.pos >= len(self.script):
            raise NeedBranch([float(x) for x in p])
        k = self.script[self.pos]
        self.pos += 1
        self.p *= float(p[k])
        return k

    def choice(self, a, size=None, p=None, replace=True):
        n = a if isinstance(a, (int, np.integer)) else len(a)
        if p is None:
            p = [1.0 / n] * n
        if size is None:
            k = self._draw(p)
            return k if isinstance(a, (int, np.integer)) else a[k]
        cnt = int(np.prod(size))
        ks = [self._draw(p) for _ in range(cnt)]
        return np.array(ks if isinstance(a, (int, np.integer)) else [a[k] for k in ks]).reshape(size)

    def randint(self, low, high=None, size=None):
        lo, hi = (0, low) if high is None else (low, high)
        return lo + self.choice(hi - lo, size=size)

    def random(self, size=None):
        raise NotImplementedError('channels are not used in C12 circuits')


def exact_distribution(cirq, circuit, max_branches=600):
    """{canonical records: probability}, or None if the circuit has more branches than max_branches."""
    dist, stack, n = {}, [[]], 0
    while stack:
        script = stack.pop()
        seed = ScriptedSeed(script)
        try:
            r = cirq.Simulator(seed=seed, dtype=np.complex128).run(circuit, repetitions=1)
        except NeedBranch as e:
            for k, pk in enumerate(e.probs):
                if pk > 1e-12:
                    stack.append(script + [k])
            continue
        n += 1
        if n > max_branches:
            return None
        key = runner.canon({k: np.asarray(v).tolist() for k, v in sorted(r.records.items())})
        dist[key] = dist.get(key, 0.0) + seed.p
    return dist


def dist_defect(cirq, V, D):
    op = V.sub(D)
    flat = op.mapped_circuit(deep=True)
    fin = cirq.Moment(cirq.measure(*sorted(op.qubits), key='fin')) if op.qubits else cirq.Moment()
    a = attempt(lambda: exact_distribution(cirq, cirq.Circuit([cirq.Moment(op), fin])))
    b = attempt(lambda: exact_distribution(cirq, cirq.Circuit(list(flat.moments) + [fin])))
    if a[0] != 'ok' or b[0] != 'ok':
        return ('' if a[:2] == b[:2] else 'distribution-raises-differently'), a, b
    if a[1] is None or b[1] is None:
        return 'skip', a, b
    if set(a[1]) != set(b[1]) or any(abs(a[1][k] - b[1][k]) > 1e-8 for k in a[1]):
        return 'distribution-wrapped-vs-unrolled', a, b
    if abs(sum(a[1].values()) - 1) > 1e-8:
        return 'distribution-mass-not-one', a, b
    return '', a, b


def n_meas_bits(D):
    if D['t'] == 'leaf':
        return len(D['qs']) if D['mk'] else 0
    r = D['reps'] if isinstance(D['reps'], int) else 1
    return abs(r) * sum(n_meas_bits(x) for m in D['c'] for x in m)


def dist_stream(ctx, cirq, V, n):
    rng = ctx.rng
    gen = Gen(rng, sim=True, param_leaves=True)
    done = tries = 0
    while done < n and tries < 40 * n and not over_time(ctx):
        tries += 1
        rec = gen.sub(rng.choice([0, 1, 1, 2]), 3, False, [], exact_depth=True)
        if rec is None or not (1 <= n_meas_bits(rec) <= 5) or attempt(lambda: V.sub(rec))[0] != 'ok':
            continue
        op = V.sub(rec)
        D = V.dsub(op)
        if attempt(lambda: op.mapped_circuit(deep=True))[0] != 'ok':
            continue
        kind, a, b = dist_defect(cirq, V, D)
        if kind == 'skip':
            continue
        done += 1
        ok = a[0] == 'ok'
        ctx.count('sim:distribution' if ok else 'sim:distribution-both-raise', D, ok and len(a[1]) >= 2,
                  sample=dict(op=repr(op)[:400], branches=len(a[1]) if ok else None,
                              distribution=({k[:80]: round(v, 6) for k, v in list(a[1].items())[:4]} if ok else a[1:])))
        if kind and f13_explains(ctx, cirq, V, D, [a, b]):
            continue
        if kind:
            small = D if seen(ctx, f'sim:{kind}') else shrink(D, lambda x: dist_defect(cirq, V, x)[0] == kind, budget=100)
            ctx.violation(f'sim:{kind}', f'{kind}: {str(a[1])[:400]} vs {str(b[1])[:400]}; minimised operation: {V.sub(small)!r}'[:1800],
                          dict(kind='dist', rec=small, defect=kind))


# ----------------------------------------------------------------------------------------------------------------
# stream 8: repeat_until loops at ANY nesting level, judged against a flat reference.
#   Reference: every loop L = CircuitOperation(body, repeat_until=c) of the nest is replaced by the plain repetition
#   CircuitOperation(body + probe, repetitions=k_L), where the probe is a classically controlled X on a fresh ancilla with
#   the SAME condition c, placed in a new last moment of the body (then measured into a fresh key and reset).  A
#   classical control at the end of the body is in the scope the loop condition is in (it sees the keys of the body and,
#   through the enclosing rescoping, the keys of the enclosing sub-circuits), and its scoping is what the key theorems and
#   the struct correspondence are about.  The reference nest has no loops, so mapped_circuit(deep=True) flattens it; the
#   probe records say after which pass the condition held.  A count assignment (k_L) is the do-while semantics of the
#   nest iff in every executed instance the probe reads false after passes 1..k-1 and true after pass k.  Then
#     - simulating the nest with its loops (and its partial unrolling that keeps the loops) must give the reference records,
#     - every loop instance of the partial unrolling must report the control keys the probe reads (minus its own keys),
#     - the circuit must report the unbound control keys of the reference.
PROBE_Q0 = 4
KMAX = 4
F20_SIG = 'F20:repeat_until:enclosing-key-map-skips-condition-key-not-touched-by-the-body'
F20_WHAT = ('F20 CircuitOperation.with_measurement_key_mapping composes the new map only over the keys the wrapped circuit touches '
            '(measurement_keys_touched(self.circuit)), so a repeat_until key that the loop body does not touch (a key measured in '
            'an enclosing scope) is NOT renamed: under an enclosing measurement_key_map (or a direct with_measurement_key_mapping) '
            'the loop condition keeps reading the old name while a classical control with the same condition in the same place '
            'reads the renamed key; for the same reason an entry of the loop\'s own measurement_key_map for such a key is dropped by '
            'any further with_measurement_key_mapping call (also one with an unrelated or empty map)')


def loops_of(D, path=()):
    """Index paths of the repeat_until loops of a nest record, outermost first."""
    if D['t'] == 'leaf':
        return []
    out = [path] if D['until'] is not None else []
    for i, m in enumerate(D['c']):
        for j, x in enumerate(m):
            out += loops_of(x, path + ((i, j),))
    return out


def sub_at(D, path):
    for i, j in path:
        D = D['c'][i][j]
    return D


def probe_moments(idx, until):
    anc, nm = PROBE_Q0 + idx, f'u{idx}'
    X = lambda cs: dict(t='leaf', uid=5, sgn=False, qs=[anc], mk=[], cs=cs, ps=[])
    return [[X([until])], [dict(t='leaf', uid=Vocab.MEAS, sgn=False, qs=[anc], mk=[((), nm)], cs=[], ps=[])],
            [X([('key', ((), nm), -1)])]]


def loops_replaced(D, ks, probe=True):
    """The loop-free reference nest: loop number idx (at path) becomes `ks[path] = (idx, k)` plain repetitions of body+probe."""
    def go(o, path):
        if o['t'] == 'leaf':
            return o
        o2 = dict(o, c=[[go(x, path + ((i, j),)) for j, x in enumerate(m)] for i, m in enumerate(o['c'])])
        if path in ks:
            idx, k = ks[path]
            o2 = dict(o2, c=o2['c'] + (probe_moments(idx, o['until']) if probe else []), until=None, reps=k)
        return o2
    return go(D, ())


def is_probe_key(k):
    nm = k.split(':')[-1]
    return len(nm) >= 2 and nm[0] == 'u' and nm[1:].isdigit()


def loop_reference(cirq, V, prep, D, loops):
    """(counts, reference records without the probe keys, flat reference circuit) or None when no uniform count assignment
    with k <= KMAX per loop realises the do-while semantics (a loop that needs different counts in different instances,
    more passes, or reads an unbound key)."""
    pre = [cirq.Moment(V.op(o) for o in m) for m in prep]
    fin = cirq.Moment(cirq.measure(*[V.q(i) for i in range(4)], key='fin'))
    for ks in sorted(itertools.product(range(1, KMAX + 1), repeat=len(loops)), key=lambda t: (sum(t), t)):
        Dp = loops_replaced(D, {p: (i, k) for i, (p, k) in enumerate(zip(loops, ks))})
        r = attempt(lambda: V.sub(Dp).mapped_circuit(deep=True))
        if r[0] != 'ok':
            return None
        circuit = cirq.Circuit(pre + list(r[1].moments) + [fin])
        rec = attempt(lambda: records_of(cirq, circuit))
        if rec[0] != 'ok':
            return None
        good = True
        for i, k in enumerate(ks):
            for key, v in rec[1].items():
                if key.split(':')[-1] == f'u{i}':
                    vals = [int(inst[0]) for inst in v[0]]
                    if len(vals) % k or any(vals[j:j + k] != [0] * (k - 1) + [1] for j in range(0, len(vals), k)):
                        good = False
        if good:
            return ks, {k_: v for k_, v in rec[1].items() if not is_probe_key(k_)}, circuit
    return None


def expand_keep_loops(cirq, op):
    """The unrolling of `op` in which repeat_until loops stay operations (with the scope the unrolling gives them)."""
    if op.repeat_until is not None:
        return cirq.Circuit(op)
    return op.mapped_circuit(deep=False).map_operations(
        lambda o: expand_keep_loops(cirq, o) if isinstance(o, cirq.CircuitOperation) else o)


def kset(keys):
    return sorted(str(k) for k in keys)


def nested_until_defect(cirq, V, prep, D):
    """('' | 'skip' | kind, detail)."""
    loops = loops_of(D)
    if not loops or len(loops) > 2:
        return 'skip', ''
    ref = loop_reference(cirq, V, prep, D, loops)
    if ref is None:
        return 'skip', ''
    ks, want, refc = ref
    pre = [cirq.Moment(V.op(o) for o in m) for m in prep]
    fin = cirq.Moment(cirq.measure(*[V.q(i) for i in range(4)], key='fin'))
    op = V.sub(D)
    wrapped = cirq.Circuit(pre + [cirq.Moment(op), fin])
    # (a) the partial unrolling: loop instances and the keys their conditions are bound to
    part = attempt(lambda: expand_keep_loops(cirq, op))
    if part[0] != 'ok':
        return 'partial-unrolling-raises-' + part[1], str(part[2:])

    def keys_issue():
        canon = [runner.canon(sub_at(D, p)['c']) for p in loops]
        top = [p for p in loops if not any(p[:n] in loops for n in range(len(p)))]       # loops not inside another loop
        if len(set(canon)) == len(canon):
            flat_ops = list(refc.all_operations())
            for p in top:
                i = loops.index(p)
                k = ks[i]
                probes = [o for o in flat_ops if isinstance(o, cirq.ClassicallyControlledOperation) and o.qubits == (V.q(PROBE_Q0 + i),)
                          and not any(is_probe_key(str(c_)) for c_ in cirq.control_keys(o))][::k]
                insts = [o for o in part[1].all_operations() if isinstance(o, cirq.CircuitOperation)
                         and runner.canon(V.dcirc(o.circuit)) == canon[i]]
                if len(insts) != len(probes):
                    return 'loop-instances', f'{len(insts)} instances of loop {i} in the unrolling, {len(probes)} in the reference'
                for n, (inst, pr) in enumerate(zip(insts, probes)):
                    own = cirq.measurement_key_objs(inst)
                    body_only = inst.replace(repeat_until=None)
                    want_ck = kset((set(cirq.control_keys(pr)) - set(own)) | set(cirq.control_keys(body_only)))
                    got_ck = kset(cirq.control_keys(inst))
                    if got_ck != want_ck:
                        return 'control-keys-of-loop', (f'instance {n} of the loop with condition {inst.repeat_until} (parent_path='
                                                        f'{inst.parent_path}) reports control keys {got_ck}; a classical control with the '
                                                        f'same condition at the end of the loop body reads {kset(cirq.control_keys(pr))}, so '
                                                        f'the loop must report {want_ck}')
        gc = attempt(lambda: kset(cirq.control_keys(wrapped)))
        if gc[0] != 'ok':
            return 'control-keys-of-circuit:raises-' + gc[1], str(gc[2:])
        got_c, want_c = gc[1], kset(cirq.control_keys(refc))
        if got_c != want_c:
            return 'control-keys-of-circuit', f'the circuit reports unbound control keys {got_c}, its flat reference {want_c}'
        return None

    # (b) simulation
    def sim_issue():
        for name, c in (('wrapped', wrapped), ('partially-unrolled', cirq.Circuit(pre + list(part[1].moments) + [fin]))):
            w = attempt(lambda: with_timeout(1.5, lambda: records_of(cirq, c)))
            if w[0] != 'ok':
                return ((f'simulation-{name}:does-not-stop' if w[1] == 'Timeout' else f'simulation-{name}:raises-{w[1]}'),
                        f'{str(w[2:])[:200]}; flat reference (passes per loop {ks}): {want}')
            if w[1] != want:
                return f'simulation-{name}:records', f'records {w[1]}, flat reference (passes per loop {ks}) {want}'
        return None

    a = attempt(keys_issue)
    if a[0] != 'ok':
        return 'control-keys:raises-' + a[1], str(a[2:])
    b = sim_issue()
    if a[1] is not None:
        return a[1][0], a[1][1] + (f'; simulation: {b[0]}: {b[1]}' if b else '; simulation agrees with the reference')
    return b if b else ('', '')


def f20_pattern(D, extra_maps=()):
    """Does some loop condition use a key name its body does not touch, which an ENCLOSING key map (or a further
    with_measurement_key_mapping, `extra_maps`) renames?"""
    def body_names(o):
        return {n for m in o['c'] for x in m for n in s_names(x)}

    def walk(o, maps):
        if o['t'] == 'leaf':
            return False
        if o['until'] is not None:
            km = dict(o['km'])
            for k in spec_keys_of(o['until']):
                if k[1] not in body_names(o):
                    if maps and k[1] in km:         # any with_measurement_key_mapping call rebuilds the dict over the body's names:
                        return True                 # the operation's own entry for the outside key is lost
                    n = km.get(k[1], k[1])
                    for m in maps:          # innermost enclosing map first
                        if n in m:
                            return True
                        n = m.get(n, n)
        maps2 = ([dict(o['km'])] if o['km'] else []) + maps
        return any(walk(x, maps2) for m in o['c'] for x in m)
    return walk(D, [dict(m) for m in extra_maps])


def confirm_f20(ctx, cirq, V):
    """The minimal failing input of F20 on the real code."""
    loop = dict(t='sub', c=[[dict(t='leaf', uid=5, sgn=False, qs=[2], mk=[], cs=[], ps=[])],
                            [dict(t='leaf', uid=Vocab.MEAS, sgn=False, qs=[2], mk=[((), 'b')], cs=[], ps=[])]],
                reps=1, ids=None, use=False, qm=[], km=[], pm=[], pp=[], ext=[], until=('sym', 5, [((), 'a'), ((), 'b')]))
    op = V.sub(loop)
    got = kset(cirq.control_keys(cirq.with_measurement_key_mapping(op, {'a': 'z'})))
    ctl = V.cond(loop['until'])
    want = kset(set(cirq.with_measurement_key_mapping(ctl, {'a': 'z'}).keys) - set(cirq.measurement_key_objs(op)))
    if got != want:
        ctx.violation(F20_SIG, F20_WHAT + f': CircuitOperation([X(q2); M(q2, key=b)], repeat_until=Eq(a, b)) under {{a: z}} reports control '
                      f'keys {got}, expected {want}', dict(kind='nested-until', prep=[], rec=dict(
                          t='sub', c=[[loop]], reps=1, ids=None, use=False, qm=[], km=[('a', 'z')], pm=[], pp=[], ext=[], until=None)))
        return True
    return False


def struct_loops_stream(ctx, cirq, V, n):
    """The struct correspondence on nests in which measuring sub-circuits are repeat_until loops at any level (their keys,
    control keys - also of every operation of the shallow unrolling -, names and the further remappings vs the model)."""
    return struct_stream(ctx, cirq, V, n, unroll_n=0, gen=Gen(ctx.rng, loops=0.5), tag='structloops')


def until_grid():
    """Fixed cases (every seed): a loop whose condition compares a key of its body with a key measured OUTSIDE the loop,
    inside an enclosing sub-circuit that rescopes keys (repetition ids, parent path, both, one more enclosing level), with
    and without an unrelated top-level measurement of the same name."""
    X = lambda q: dict(t='leaf', uid=5, sgn=False, qs=[q], mk=[], cs=[], ps=[])
    M = lambda q, n: dict(t='leaf', uid=Vocab.MEAS, sgn=False, qs=[q], mk=[((), n)], cs=[], ps=[])
    S = lambda c, **kw: dict(dict(t='sub', c=c, reps=1, ids=None, use=False, qm=[], km=[], pm=[], pp=[], ext=[], until=None), **kw)
    cases = []
    encl = [dict(reps=2, use=True), dict(reps=2, use=True, ids=['x', 'y']), dict(pp=['p']), dict(reps=2, use=True, pp=['p']),
            dict(reps=2, pp=['p', 'r']), dict()]
    wraps = [None, dict(pp=['w']), dict(reps=1, use=True, ids=['u'])]
    conds = [('sym', 5, [((), 'a'), ((), 'b')]), ('sym', 5, [((), 'b'), ((), 'a')]), ('sym', 2, [((), 'b'), ((), 'a')]),
             ('sym', 2, [((), 'a'), ((), 'b')]), ('sym', 4, [((), 'a'), ((), 'b')]), ('sym', 4, [((), 'b'), ((), 'a')])]
    for ci, cnd in enumerate(conds):
        for ei, e in enumerate(encl):
            for wi, w in enumerate(wraps):
                for top in (None, 0, 1):            # an unrelated top-level measurement `a` with this value (on another qubit)
                    for amode in ('const0', 'const1', 'alternating'):       # the values the enclosing sub-circuit measures into ITS `a`
                        for lk in ([], [('b', 'c')])[:2 if (ci + ei + wi) % 3 == 0 else 1]:     # key map on the loop itself
                            loop = S([[X(2)], [M(2, 'b')]], until=cnd, km=lk)
                            body = ([[X(1)]] if amode == 'alternating' else []) + [[M(1, 'a')], [loop]]
                            nest = S(body, **e)
                            if w is not None:
                                nest = S([[nest]], **w)
                            prep = [[X(1)]] if amode == 'const1' else []
                            if top is not None:
                                prep = prep + ([[X(0)]] if top else []) + [[M(0, 'a')]]
                            cases.append((dict(cond=ci, encl=ei, wrap=wi, top=top, a=amode, lk=len(lk)), prep, nest))
    return cases


def report_nested(ctx, cirq, V, prep, D, kind, detail, desc=None):
    if f20_pattern(D) and confirm_f20(ctx, cirq, V):
        ctx.streams['explained:F20'] += 1
        return
    if (kind.startswith('control-keys') or kind == 'loop-instances') and has_zero_reps(cirq, V.sub(D)):
        ctx.violation(F7_SIG, F7_WHAT + f' (a repeat_until loop under zero repetitions: {kind}: {detail})'[:600], dict(
            kind='nested-until', prep=prep, rec=D, defect=kind))
        return
    sig = 'until-nested:' + kind
    fails = lambda x: bool(loops_of(x)) and nested_until_defect(cirq, V, prep, x)[0] == kind
    small = D if seen(ctx, sig) else shrink(D, fails, budget=60)
    kd, detail2 = nested_until_defect(cirq, V, prep, small) if small is not D else (kind, detail)
    ctx.violation(sig, (f'repeat_until loop inside sub-circuits vs its flat reference (loop -> plain repetitions of body + a classical '
                        f'control with the loop condition): {kind}: {detail2 or detail}'[:900] + f'; minimised operation {V.sub(small)!r}'[:1500]
                        + f' after prep {prep}' + (f' [grid case {desc}]' if desc else '')),
                  dict(kind='nested-until', prep=prep, rec=small, defect=kind))


def nested_until_stream(ctx, cirq, V, n):
    rng = ctx.rng
    quick = ctx.tier == 'quick'
    grid = until_grid()
    # quick tier: a fixed third of the grid (the same for every seed) plus a seed-dependent sample of the rest
    fixed = [g for i, g in enumerate(grid) if i % 7 == 0] if quick else grid
    rest = [g for i, g in enumerate(grid) if i % 7 != 0] if quick else []
    extra = rng.sample(rest, min(len(rest), 60)) if rest else []
    for desc, prep, nest in fixed + extra:
        if over_time(ctx):
            break
        built = attempt(lambda: V.sub(nest))
        if built[0] != 'ok':
            ctx.violation('until-nested:rejected', f'grid case {desc} is rejected by the constructor: {built[1:]}',
                          dict(kind='nested-until', prep=prep, rec=nest, defect='rejected'))
            continue
        D = V.dsub(built[1])
        kind, detail = nested_until_defect(cirq, V, prep, D)
        if kind == 'skip':
            ctx.streams['until-nested:grid-skipped(no uniform count <= %d)' % KMAX] += 1
            continue
        ctx.count('sim:until-nested:grid', (prep, D), True, sample=dict(case=desc, op=repr(built[1])[:500]))
        if kind:
            report_nested(ctx, cirq, V, prep, D, kind, detail, desc)
    # F20 is exercised on every run (a key map of an enclosing operation that renames the outside key of the condition)
    confirm_f20(ctx, cirq, V)
    gen = Gen(rng, sim=True, classical=True, loops=0.6)
    done = tries = 0
    while done < n and tries < 60 * n and not over_time(ctx):
        tries += 1
        prep, names, rec = sim_case(rng, gen)
        if rec is None or not loops_of(rec) or rec['until'] is not None and rng.random() < 0.7:
            continue
        built = attempt(lambda: V.sub(rec))
        if built[0] != 'ok':
            continue
        D = V.dsub(built[1])
        kind, detail = nested_until_defect(cirq, V, prep, D)
        if kind == 'skip':
            continue
        done += 1
        ext = any(k[1] not in {x for m in L['c'] for o in m for x in s_mnames(o)} for L in [sub_at(D, p) for p in loops_of(D)]
                  for k in spec_keys_of(L['until']))
        ctx.count('sim:until-nested:outside-key' if ext else 'sim:until-nested:own-keys', (prep, D), True, sample=dict(op=repr(built[1])[:500]))
        if kind:
            report_nested(ctx, cirq, V, prep, D, kind, detail)


# ----------------------------------------------------------------------------------------------------------------
# stream 9: classically controlled SUB-CIRCUITS (ClassicallyControlledOperation whose sub-operation is a CircuitOperation
# that may itself hold classically controlled gates), alone and nested in enclosing sub-circuits that measure the keys
# the inner conditions read and rescope them (repetition ids, parent paths, further levels), judged against a reference
# without controlled sub-circuits.
#   Reference: a controlled sub-circuit CCO(S, cs) can hold no measurement (the constructor refuses), so it acts like
#   the operations of the unrolled S, each one carrying its own conditions AND cs, written directly into the enclosing
#   body (Circ/CtlSub.v: ctl_flat; the theorems C12_ctl_* say how that flat form behaves under rescoping / key maps /
#   prefixing and that the piecewise transformation of (cs, S) followed by unrolling gives the same).  inline_ctl does this
#   bottom-up on the case record; the unrolling of S alone never meets a controlled sub-circuit, and the resulting nest
#   is an ordinary one (leaves and CircuitOperations), which the other streams compare with the model.
def has_ctl_sub(D):
    return D['t'] == 'sub' and (bool(D.get('cs')) or any(has_ctl_sub(x) for m in D['c'] for x in m))


def rec_has_zero(D):
    return D['t'] == 'sub' and (D['reps'] == 0 or any(rec_has_zero(x) for m in D['c'] for x in m))


def plain_leaf(l):
    return {k: v for k, v in l.items() if k != 'via'}


def has_if(D):
    """Is some control of the nest written with cirq.If?"""
    return bool(D.get('via')) or (D['t'] == 'sub' and any(has_if(x) for m in D['c'] for x in m))


def has_if_block_with_inner_control(D):
    """Does the nest hold a cirq.If over a sub-circuit whose body has classical controls of its own?"""
    if D['t'] == 'leaf':
        return False
    inner = lambda o: bool(o.get('cs')) or (o['t'] == 'sub' and any(inner(x) for m in o['c'] for x in m))
    if D.get('via') and any(inner(x) for m in D['c'] for x in m):
        return True
    return any(has_if_block_with_inner_control(x) for m in D['c'] for x in m)


def inline_ctl(V, D):
    if D['t'] == 'leaf':
        return plain_leaf(D)      # the reference writes every controlled gate as a ClassicallyControlledOperation
    body = []
    for m in D['c']:
        keep, tail = [], []
        for x in m:
            y = inline_ctl(V, x)
            if y['t'] == 'sub' and y.get('cs'):
                cs = list(y['cs'])
                bare = {k: v for k, v in y.items() if k not in ('cs', 'via')}
                for fm in V.dcirc(V.sub(bare).mapped_circuit(deep=True)):
                    tail.append([dict(l, cs=cs + list(l['cs'])) for l in fm])
            else:
                keep.append(y)
        if keep:
            body.append(keep)
        body += tail
    out = dict(D, c=body)
    return out


def canon_leaf(cirq, o):
    """An operation up to the order of its classical controls."""
    return (repr(o.without_classical_controls()), tuple(sorted(repr(c) for c in o.classical_controls)))


def ctrace_sig(cirq, ops):
    """trace_sig with operations compared up to the order of their conditions."""
    sig = {}
    for o in ops:
        r = canon_leaf(cirq, o)
        for q in o.qubits:
            sig.setdefault(('q', repr(q)), []).append(r)
        for k in cirq.measurement_key_objs(o):
            sig.setdefault(('k', str(k)), []).append(('M', r))
        for k in cirq.control_keys(o):
            seq = sig.setdefault(('k', str(k)), [])
            if seq and seq[-1][0] == 'C':
                seq[-1] = ('C', tuple(sorted(seq[-1][1] + (r,))))
            else:
                seq.append(('C', (r,)))
    return sig


def is_flat_leaf(cirq, o):
    """A gate, a measurement or a ClassicallyControlledOperation over a gate.  A cirq.If is never one: it decomposes into
    its sub-operation with the conditions attached."""
    return not isinstance(o, cirq.If) and not isinstance(o.untagged, cirq.CircuitOperation) and not (
        isinstance(o, cirq.ClassicallyControlledOperation) and not is_flat_leaf(cirq, o._sub_operation))


def flatten_all(cirq, tree):
    """cirq.decompose down to gates, measurements and classically controlled gates (no sub-circuit left)."""
    return list(cirq.decompose(tree, keep=lambda o: is_flat_leaf(cirq, o)))


def ctl_summary(cirq, ops):
    """The controlled operations of a flat sequence with the keys they read (for messages)."""
    return [f'{o.without_classical_controls()} if {sorted(str(c) for c in o.classical_controls)}' for o in ops
            if isinstance(o, cirq.ClassicallyControlledOperation)][:8]


ZERO_SKIPS = dict(n=0)


def ctl_nest_defect(cirq, V, prep, D, m2=None, path=(), bind=()):
    """('' | 'skip' | kind, detail): the nest D (with controlled sub-circuits) vs its reference nest without them."""
    R = inline_ctl(V, D)
    op, ref = V.sub(D), V.sub(R)
    fr = attempt(lambda: ref.mapped_circuit(deep=True))
    if fr[0] != 'ok':
        return 'skip', ''
    flat = fr[1]
    pre = [cirq.Moment(V.op(o) for o in m) for m in prep]
    fin = cirq.Moment(cirq.measure(*[V.q(i) for i in range(4)], key='fin'))
    wrapped = cirq.Circuit(pre + [cirq.Moment(op), fin])
    flatc = cirq.Circuit(pre + list(flat.moments) + [fin])
    # (a) keys the operation / the circuit reports
    # (with a zero-repetition operation in the nest the unrolled form loses operations - and with them the controls of an
    # enclosing controlled sub-circuit - that the wrapped form still reports: F7, judged by the struct stream)
    for name, f in (('measurement_key_objs', cirq.measurement_key_objs), ('control_keys', cirq.control_keys))[:0 if rec_has_zero(D) else 2]:
        for what, x, y in (('operation', op, flat), ('circuit', wrapped, flatc)):
            g, w = attempt(lambda: kset(f(x))), attempt(lambda: kset(f(y)))
            if g != w:
                return f'{name}-of-{what}', f'{name} of the {what}: {g[1:]}, of the flat reference: {w[1:]}'
    # (b) decomposition / unrolling down to gates
    for name, f in (('decompose', lambda: flatten_all(cirq, op)),
                    ('mapped_circuit-then-decompose', lambda: flatten_all(cirq, op.mapped_circuit(deep=True)))):
        g = attempt(f)
        if g[0] != 'ok':
            return f'{name}:raises-{g[1]}', str(g[2:])[:300]
        if ctrace_sig(cirq, g[1]) != ctrace_sig(cirq, flat.all_operations()):
            return f'{name}-vs-flat-reference', (f'{name} gives controlled operations {ctl_summary(cirq, g[1])}, the flat reference '
                                                 f'has {ctl_summary(cirq, flat.all_operations())}')
    # (c) simulation (X / CNOT / measure / control: records are determined)
    want = attempt(lambda: records_of(cirq, flatc))
    # (a reference that reads a key nobody measures - a key map onto an unmeasured name - has no outcome to compare with)
    # `program-order`: the circuit built from the same operation SEQUENCE with the default insertion strategy (every operation
    # slides to the earliest moment its qubits and the keys it reports allow) instead of explicit moments
    program = lambda: cirq.Circuit([o for m in pre for o in m.operations] + [op] + list(fin.operations))
    for name, c in (('wrapped', lambda: wrapped), ('decomposed', lambda: cirq.Circuit(pre + [flatten_all(cirq, op), fin])),
                    ('program-order', program))[:3 if want[0] == 'ok' else 0]:
        g = attempt(lambda: records_of(cirq, c()))
        if g[0] != 'ok' and 'missing' in str(g[2:]) and rec_has_zero(D):
            # a control on an operation whose unrolled form is EMPTY (zero repetitions) is still evaluated by the wrapped form;
            # when its key is one nobody measures (a key map onto an unmeasured name) the flat reference, which has lost the
            # control together with the operations, has nothing to say: as for the key sets, left to F7
            ZERO_SKIPS['n'] += 1
            continue
        if g[:2] != want[:2]:
            return f'simulation-{name}', (f'{name} circuit: {g[1:]}, flat reference: {want[1:]}' + (
                f'; the operation reports control keys {kset(cirq.control_keys(op))}, its flat reference reads '
                f'{kset(cirq.control_keys(flat))}, and was placed in\n{c()}'[:900] if name == 'program-order' else ''))
    # (d) one further remapping of each kind, applied to the nest and to its reference nest
    B = frozenset(V.key(b) for b in bind)
    for name, t in (('key-map', lambda o: cirq.with_measurement_key_mapping(o, dict(m2 or {}))),
                    ('key-path-prefix', lambda o: cirq.with_key_path_prefix(o, tuple(path))),
                    ('rescope', lambda o: cirq.with_rescoped_keys(o, tuple(path), B))):
        g, w = attempt(lambda: flatten_all(cirq, t(op))), attempt(lambda: list(t(ref).mapped_circuit(deep=True).all_operations()))
        if g[0] != 'ok' or w[0] != 'ok':
            if g[:2] != w[:2]:
                return f'{name}:raises', f'{name} of the nest: {g[1:]}, of its reference nest: {w[1:]}'
            continue
        if ctrace_sig(cirq, g[1]) != ctrace_sig(cirq, w[1]):
            return f'{name}-then-unroll', (f'after {name} (map={m2} path={list(path)} bindable={list(bind)}) the nest unrolls to controlled '
                                           f'operations {ctl_summary(cirq, g[1])}, its reference nest to {ctl_summary(cirq, w[1])}')
    return '', ''


def spec_leaf_images(l, p, m, bind):
    """[key-mapped, rescoped] images of a leaf record by the positional definitions (spec_cond_images)."""
    outs = []
    for which in (0, 2):
        outs.append(dict(l, mk=[(tuple(k[0]), dict(m).get(k[1], k[1])) if which == 0 else (tuple(p) + tuple(k[0]), k[1]) for k in l['mk']],
                         cs=[spec_cond_images(norm_cond(c), p, m, bind)[which] for c in l['cs']]))
    return outs


VIAS = ('cco', 'if', 'ifops', 'ifnest', 'ifcco')
VIA_TEXT = dict(cco='CircuitOperation.with_classical_controls(conds)', **{'if': 'cirq.If(conds, CircuitOperation)'},
                ifops='cirq.If(conds, op1, op2, ...)', ifnest='cirq.If(cond1, cirq.If(other conds, CircuitOperation))',
                ifcco='cirq.If(cond1, CircuitOperation.with_classical_controls(other conds))')


def ctl_parts(cirq, y):
    """(conditions, controlled CircuitOperation) of a controlled sub-circuit in either form."""
    if isinstance(y, cirq.If):
        cs, sub = y.conditions, y.sub_operation
    elif isinstance(y, cirq.ClassicallyControlledOperation):
        cs, sub = y._conditions, y._sub_operation
    else:
        raise TypeError(f'not a controlled sub-circuit: {y!r}'[:200])
    if not isinstance(sub, cirq.CircuitOperation):
        raise TypeError(f'not a controlled sub-circuit: {y!r}'[:200])
    return cs, sub


def ctl_top_defect(cirq, V, I, cs, m, path, bind, via='cco'):
    """A controlled sub-circuit X = CCO(S, cs) / cirq.If(cs, S) (the form `via`) taken alone: X decomposed, and X after a key
    map / after rescoping and then decomposed, against the flat form (the unrolled S with cs on every operation) transformed
    condition by condition with the positional definitions; the control keys X reports vs the keys the flat form reads."""
    IR = inline_ctl(V, I)
    fr = attempt(lambda: V.dcirc(V.sub(IR).mapped_circuit(deep=True)))
    if fr[0] != 'ok':
        return 'skip', ''
    leaves = [dict(l, cs=list(cs) + list(l['cs'])) for mo in fr[1] for l in mo]
    X = V.ctl(I, cs=cs, via=via)
    B = frozenset(V.key(b) for b in bind)
    want_ck = sorted({norm_key(k) for l in leaves for c in l['cs'] for k in spec_keys_of(c)})
    got_ck = attempt(lambda: mkeyset(cirq.control_keys(X)))
    if got_ck != ('ok', want_ck) and not rec_has_zero(I):
        return 'control_keys', f'control keys {got_ck[1:]}, flat form reads {want_ck}'
    cases = [('decompose', lambda: X, leaves),
             ('key-map', lambda: cirq.with_measurement_key_mapping(X, dict(m)), [spec_leaf_images(l, path, m, bind)[0] for l in leaves]),
             ('rescope', lambda: cirq.with_rescoped_keys(X, tuple(path), B), [spec_leaf_images(l, path, m, bind)[1] for l in leaves])]
    for name, f, want in cases:
        g = attempt(lambda: flatten_all(cirq, f()))
        if g[0] != 'ok':
            return f'{name}:raises-{g[1]}', str(g[2:])[:300]
        w = [V.leaf(l) for l in want]
        if ctrace_sig(cirq, g[1]) != ctrace_sig(cirq, w):
            return f'{name}-vs-flat-form', (f'{name} (map={m} path={list(path)} bindable={list(bind)}) then decompose gives '
                                            f'{ctl_summary(cirq, g[1])}, the flat form transformed condition by condition {ctl_summary(cirq, w)}')
        if name != 'decompose':
            gk, wk = attempt(lambda: mkeyset(cirq.control_keys(f()))), sorted({norm_key(k) for l in want for c in l['cs'] for k in spec_keys_of(c)})
            if gk != ('ok', wk) and not rec_has_zero(I):
                return f'{name}:control_keys', f'after {name} (map={m} path={list(path)} bindable={list(bind)}) control keys {gk[1:]}, flat form reads {wk}'
    return '', ''


def ctl_grid():
    """Fixed cases (every seed): a sub-circuit holding gates controlled by `m`, itself under a classical control on `c`
    (measured outside), inside an enclosing sub-circuit that measures `m` first and rescopes keys; with / without an
    unrelated top-level measurement `m`."""
    X = lambda q, cs=(): dict(t='leaf', uid=5, sgn=False, qs=[q], mk=[], cs=list(cs), ps=[])
    CX = lambda a, b, cs=(): dict(t='leaf', uid=6, sgn=False, qs=[a, b], mk=[], cs=list(cs), ps=[])
    M = lambda q, n: dict(t='leaf', uid=Vocab.MEAS, sgn=False, qs=[q], mk=[((), n)], cs=[], ps=[])
    S = lambda c, **kw: dict(dict(t='sub', c=c, reps=1, ids=None, use=False, qm=[], km=[], pm=[], pp=[], ext=[], until=None), **kw)
    K = lambda n: ('key', ((), n), -1)
    encl = [dict(reps=2, use=True), dict(reps=2, use=True, ids=['x', 'y']), dict(pp=['p']), dict(reps=2, use=True, pp=['p']),
            dict(reps=2), dict(), dict(km=[('m', 'd')]), dict(reps=2, use=True, km=[('m', 'd')])]
    wraps = [None, dict(pp=['w']), dict(reps=2, use=True, ids=['u', 'v'])]
    inner_opts = [dict(), dict(pp=['s']), dict(reps=2), dict(km=[('b', 'm')], _read='b'), dict(qm=[(1, 3)])]
    outer_cs = [[K('c')], [('sym', 2, [((), 'c'), ((), 'm')])], [K('m')], [('mask', ((), 'c'), -1, 1, True, 1), K('m')]]
    cases = []
    for ei, e in enumerate(encl):
        for wi, w in enumerate(wraps):
            for ii, io in enumerate(inner_opts):
                for oi, ocs in enumerate(outer_cs):
                    for top in (None, 0):
                        for mval in (1, 0)[:2 if (ei + wi + ii + oi) % 2 == 0 else 1]:
                            for deep in (False, True)[:2 if (ei + ii) % 3 == 0 else 1]:
                                io2 = dict(io)
                                rd = io2.pop('_read', 'm')      # the name the inner gate uses (mapped onto m by the inner key map)
                                tgt = X(1, [K(rd)])
                                if deep:        # the controlled gate one level further down
                                    tgt = S([[tgt]])
                                inner = S([[tgt]], cs=ocs, **io2)
                                body = ([[X(0)]] if mval else []) + [[M(0, 'm')], [inner], [M(1 if not io.get('qm') else 3, 'out')]]
                                nest = S(body, **e)
                                if w is not None:
                                    nest = S([[nest]], **w)
                                prep = [[X(2)], [M(2, 'c')]]
                                if top is not None:
                                    prep = prep + [[M(3 if not io.get('qm') else 1, 'm')]]
                                cases.append((dict(encl=ei, wrap=wi, inner=ii, ctl=oi, top=top, m=mval, deep=deep), prep, nest))
    return cases


def ctl_top_grid():
    X = lambda q, cs=(): dict(t='leaf', uid=5, sgn=False, qs=[q], mk=[], cs=list(cs), ps=[])
    S = lambda c, **kw: dict(dict(t='sub', c=c, reps=1, ids=None, use=False, qm=[], km=[], pm=[], pp=[], ext=[], until=None), **kw)
    K = lambda n: ('key', ((), n), -1)
    cases = []
    for io in (dict(), dict(pp=['s']), dict(reps=2), dict(km=[('b', 'm')]), dict(reps=2, use=True)):
        for deep in (False, True):
            for cs in ([K('c')], [('sym', 2, [((), 'c'), ((), 'm')])], [K('m')], [('mask', ((), 'c'), -1, 1, True, 1), K('d')]):
                for path, bind in ((['0'], [(('0',), 'm')]), (['0'], [(('0',), 'm'), ((), 'm'), ((), 'c')]), (['p', '1'], [(('p',), 'm'), ((), 'c')]),
                                   (['x', '0'], [(('x', '0'), 'm'), (('x',), 'c')]), ([], [((), 'm')]), (['0'], [])):
                    for m in ([('m', 'z')], [('c', 'm'), ('m', 'c')], [('b', 'y')]):
                        tgt = X(1, [K('b' if io.get('km') else 'm')])
                        if deep:
                            tgt = S([[tgt]])
                        cases.append((S([[X(0)], [tgt]], **io), cs, m, path, bind))
    return cases


def block_grid():
    """Fixed cases (every seed): a conditional BLOCK - several operations under one control, written as
    cirq.If(conds, op1, op2, ...), cirq.If(conds, CircuitOperation) or CircuitOperation.with_classical_controls(conds) - whose
    body holds gates with classical controls of their own on keys that are NOT among the conditions of the block: a key
    measured earlier in the enclosing sub-circuit (`m`), a key measured outside the nest (`e`), or both; the block sits in an
    enclosing sub-circuit that rescopes / renames keys, directly or one level further down."""
    X = lambda q, cs=(), via=None: dict(dict(t='leaf', uid=5, sgn=False, qs=[q], mk=[], cs=list(cs), ps=[]), **({'via': via} if via else {}))
    CX = lambda a, b, cs=(): dict(t='leaf', uid=6, sgn=False, qs=[a, b], mk=[], cs=list(cs), ps=[])
    M = lambda q, n: dict(t='leaf', uid=Vocab.MEAS, sgn=False, qs=[q], mk=[((), n)], cs=[], ps=[])
    S = lambda c, **kw: dict(dict(t='sub', c=c, reps=1, ids=None, use=False, qm=[], km=[], pm=[], pp=[], ext=[], until=None), **kw)
    K = lambda n: ('key', ((), n), -1)
    encl = [dict(), dict(reps=2, use=True), dict(pp=['p']), dict(km=[('m', 'd')]), dict(km=[('e', 'g')]), dict(reps=2, use=True, ids=['x', 'y'], pp=['p'])]
    wraps = [None, dict(pp=['w']), dict(reps=2, use=True)]
    reads = [('m',), ('e',), ('m', 'e'), ('e', 'm')]
    outer_cs = [[K('c')], [K('m')], [K('c'), ('sym', 0, [((), 'e')])]]
    cases = []
    for vi, via in enumerate(('ifops', 'if', 'cco', 'ifnest')):
        for ei, e in enumerate(encl):
            for wi, w in enumerate(wraps):
                for ri, rd in enumerate(reads):
                    for oi, ocs in enumerate(outer_cs):
                        # the gates of the block: the first carries its own control (on alternate cases written as an If itself)
                        body = [[X(1, [K(rd[0])], via='if' if (ei + ri) % 2 else None)]]
                        if len(rd) > 1:
                            body.append([CX(1, 3, [K(rd[1])])])
                        body.append([X(1)] if len(rd) > 1 else [CX(1, 3)])
                        block = S(body, cs=ocs, via=via)
                        if (vi + wi) % 2:       # the block one level further down
                            block = S([[block]])
                        top = (ei + oi) % 2     # an unrelated top-level measurement `m` (value 0), the enclosing one measures 1
                        nest = S([[X(0)], [M(0, 'm')], [block], [M(1, 'out')]], **e)
                        if w is not None:
                            nest = S([[nest]], **w)
                        # c = 1, then e = 1 measured LATE on the same qubit (after two more gates): an operation that does not
                        # report reading `e` can be placed before that measurement
                        # (g = 0 is what the enclosing key map e -> g makes the body read instead)
                        prep = [[M(3, 'g')], [X(2)], [M(2, 'c')], [X(2)], [X(2)], [M(2, 'e')]]
                        if top:
                            prep = prep + [[M(3, 'm')]]
                        cases.append((dict(form=via, encl=ei, wrap=wi, reads=rd, ctl=oi, top=top, k=vi + ei + wi + ri + oi), prep, nest))
    return cases


def report_ctl(ctx, cirq, V, prep, D, kind, detail, extra, desc=None):
    sig = 'ctl-sub:' + kind
    fails = lambda x: has_ctl_sub(x) and ctl_nest_defect(cirq, V, prep, x, **extra)[0] == kind
    small = D if seen(ctx, sig) else shrink(D, fails, budget=80)
    kd, detail2 = ctl_nest_defect(cirq, V, prep, small, **extra) if small is not D else (kind, detail)
    ctx.violation(sig, (f'classically controlled sub-circuit inside sub-circuits vs the reference nest in which it is written out as its '
                        f'unrolled operations carrying the controls: {kind}: {detail2 or detail}'[:1100]
                        + f'; minimised operation {V.sub(small)!r}'[:1500] + f' after prep {prep}' + (f' [grid case {desc}]' if desc else '')),
                  dict(kind='ctl-nest', prep=prep, rec=small, defect=kind, **extra))


def ctl_stream(ctx, cirq, V, n):
    rng = ctx.rng
    quick = ctx.tier == 'quick'
    grid = ctl_grid()
    fixed = [g for i, g in enumerate(grid) if i % 11 == 0] if quick else grid
    rest = [g for i, g in enumerate(grid) if i % 11 != 0] if quick else []
    extra_cases = rng.sample(rest, min(len(rest), 30)) if rest else []
    for desc, prep, nest in fixed + extra_cases:
        if over_time(ctx):
            break
        built = attempt(lambda: V.sub(nest))
        if built[0] != 'ok':
            ctx.violation('ctl-sub:rejected', f'grid case {desc} is rejected by the constructor: {built[1:]}',
                          dict(kind='ctl-nest', prep=prep, rec=nest, defect='rejected'))
            continue
        D = V.dsub(built[1])
        extra = dict(m2=[('m', 'z'), ('c', 'y')], path=['q'], bind=[((), 'c'), (('q',), 'm')])
        kind, detail = ctl_nest_defect(cirq, V, prep, D, **extra)
        if kind == 'skip':
            ctx.streams['ctl-sub:grid-skipped'] += 1
            continue
        ctx.count('sim:ctl-sub:grid', (prep, D), True, sample=dict(case=desc, op=repr(built[1])[:500]))
        if kind:
            report_ctl(ctx, cirq, V, prep, D, kind, detail, extra, desc)
    # conditional blocks whose body reads keys that are not among the block's conditions (cirq.If forms and the plain one)
    blocks = block_grid()
    pick = lambda d: d['k'] % 5 == 0        # quick tier: a fixed fifth (every form x every body x every enclosing option occurs)
    bfixed = [g for g in blocks if pick(g[0])] if quick else blocks
    brest = [g for g in blocks if not pick(g[0])] if quick else []
    for desc, prep, nest in bfixed + (rng.sample(brest, min(len(brest), 20)) if brest else []):
        if over_time(ctx):
            break
        built = attempt(lambda: V.sub(nest))
        if built[0] != 'ok':
            ctx.violation('ctl-sub:rejected', f'block grid case {desc} is rejected by the constructor: {built[1:]}',
                          dict(kind='ctl-nest', prep=prep, rec=nest, defect='rejected'))
            continue
        D = V.dsub(built[1])
        extra = dict(m2=[('m', 'z'), ('e', 'y')], path=['q'], bind=[((), 'e'), (('q',), 'm')])
        kind, detail = ctl_nest_defect(cirq, V, prep, D, **extra)
        if kind == 'skip':
            ctx.streams['ctl-sub:grid-skipped'] += 1
            continue
        ctx.count('sim:ctl-sub:block-grid', (prep, D), True, sample=dict(case=desc, op=repr(built[1])[:600]))
        ctx.streams['ctl-sub:block-grid:form:' + desc['form']] += 1
        if kind:
            report_ctl(ctx, cirq, V, prep, D, kind, detail, extra, desc)
    # the controlled sub-circuit alone: decompose, key map, rescoping vs the flat form; every fixed case in the plain form and
    # in one of the cirq.If forms (cycling), the seed-dependent ones in a random form
    tops = ctl_top_grid()
    tfixed = [g for i, g in enumerate(tops) if i % 5 == 0] if quick else tops
    trest = [g for i, g in enumerate(tops) if i % 5 != 0] if quick else []
    rows = []
    for i, (I, cs, m, path, bind) in enumerate(tfixed):
        if over_time(ctx):
            break
        for via in sorted({eff_via(V, I, cs, v) for v in (('cco', VIAS[1 + i % 4]) if quick else VIAS)}):
            ctl_top_case(ctx, cirq, V, I, cs, m, path, bind, rows, via)
    for I, cs, m, path, bind in (rng.sample(trest, min(len(trest), 30)) if trest else []):
        if over_time(ctx):
            break
        ctl_top_case(ctx, cirq, V, I, cs, m, path, bind, rows, rng.choice(VIAS))
    # generated nests (a control is written with cirq.If half of the time)
    gen = Gen(rng, sim=True, classical=True, ctl=0.7, ifp=0.5)
    done = tries = 0
    while done < n and tries < 60 * n and not over_time(ctx):
        tries += 1
        prep, names, rec = sim_case(rng, gen)
        if rec is None or not has_ctl_sub(rec):
            continue
        built = attempt(lambda: V.sub(rec))
        if built[0] != 'ok':
            continue
        D = V.dsub(built[1])
        if not has_ctl_sub(D):
            continue
        onames = sorted(set(s_names(D)))
        m2 = sorted((a, b) for a, b in zip(onames, rng.sample(NAMES + ['y', 'z', 'k'], len(onames))) if rng.random() < 0.7)
        if len({dict(m2).get(x, x) for x in onames}) != len(onames):
            m2 = []
        path = list(rpath(rng, 2))
        bind = [rkey(rng, 2) for _ in range(rng.randint(0, 2))] + [(tuple(path[:rng.randint(0, len(path))]), x) for x in onames if rng.random() < 0.6]
        extra = dict(m2=m2, path=path, bind=bind)
        kind, detail = ctl_nest_defect(cirq, V, prep, D, **extra)
        if kind == 'skip':
            continue
        done += 1
        ctx.count(f'sim:ctl-sub:depth{s_depth(D) - 1}', (prep, D), True, sample=dict(op=repr(built[1])[:500]))
        if has_if(D):
            ctx.streams['ctl-sub:nest-with-cirq.If'] += 1
        if has_if_block_with_inner_control(D):
            ctx.streams['ctl-sub:nest-with-cirq.If-block-holding-controls'] += 1
        if kind and f13_explains_ctl(ctx, cirq, V, D, m2):
            continue
        if kind:
            report_ctl(ctx, cirq, V, prep, D, kind, detail, extra)
        # its controlled sub-circuits, each taken alone (in the namespace it is written in)
        for I in ctl_subs_of(D)[:2]:
            inames = sorted(set(s_names(I)))
            p2 = list(rpath(rng, 2))
            b2 = [(tuple(p2[:rng.randint(0, len(p2))]), x) for x in inames if rng.random() < 0.7]
            mm = sorted((a, b) for a, b in zip(inames, rng.sample(NAMES + ['y', 'z', 'k'], len(inames))) if rng.random() < 0.7)
            if len({dict(mm).get(x, x) for x in inames}) != len(inames):
                mm = []
            ctl_top_case(ctx, cirq, V, {k: v for k, v in I.items() if k not in ('cs', 'via')}, I['cs'], mm, p2, b2, rows, I.get('via') or 'cco')
    ctl_model_rows(ctx, cirq, V, rows)
    if ZERO_SKIPS['n']:
        ctx.streams['ctl-sub:simulation-skipped(empty controlled block reads an unmeasured key)'] += ZERO_SKIPS['n']
        ZERO_SKIPS['n'] = 0


CTL_HEADER = 'From VF Require Import Circ.CtlSub.\n'
CTL_DEFS = """
Definition ctl_eqb (x y : ctlop) : bool := list_eqb' cond_eqb (fst x) (fst y) && op_eqb (snd x) (snd y).
Definition crow_t := ((list cond * op * kmap * list string * list mkey)
                      * (res ctlop * res ctlop * res ctlop * res (list leaf) * res (list mkey)))%type.
Definition c_x (r : crow_t) : ctlop := match r with ((cs, o, _, _, _), _) => (cs, o) end.
Definition c_m (r : crow_t) := match r with ((_, _, m, _, _), _) => m end.
Definition c_p (r : crow_t) := match r with ((_, _, _, p, _), _) => p end.
Definition c_b (r : crow_t) := match r with ((_, _, _, _, b), _) => b end.
Definition c_o1 (r : crow_t) := match r with (_, (a, _, _, _, _)) => a end.
Definition c_o2 (r : crow_t) := match r with (_, (_, a, _, _, _)) => a end.
Definition c_o3 (r : crow_t) := match r with (_, (_, _, a, _, _)) => a end.
Definition c_o4 (r : crow_t) := match r with (_, (_, _, _, a, _)) => a end.
Definition c_o5 (r : crow_t) := match r with (_, (_, _, _, _, a)) => a end.
"""
CTL_PREDS = [
    ('rescope', 'fun r : crow_t => res_eqb ctl_eqb (Ok (ctl_rescope kK kM (c_p r) (c_b r) (c_x r))) (c_o1 r)'),
    ('key_map', 'fun r : crow_t => res_eqb ctl_eqb (Ok (ctl_kmap kK kM (c_m r) (c_x r))) (c_o2 r)'),
    ('prefix', 'fun r : crow_t => res_eqb ctl_eqb (Ok (ctl_prefix kK kM (c_p r) (c_x r))) (c_o3 r)'),
    ('flat', 'fun r : crow_t => res_eqb leaves_same (do ms <- ctl_flat kK kM 8 (c_x r); Ok (circ_leaves ms)) (c_o4 r)'),
    ('ckeys', 'fun r : crow_t => res_eqb keyset_eqb (ctl_ckeys kK kM 8 (c_x r)) (c_o5 r)'),
]


def gLeaf(o):
    return (f'(Leaf {Z(o["uid"])} {gB(o["sgn"])} {gL(o["qs"], Z)} {gL(o["mk"], gK)} {gL(o["cs"], gC)} {gL(o["ps"], gP)})')


def ctl_observe(cirq, V, I, cs, m, path, bind, via='cco'):
    """What the implementation does with the controlled sub-circuit X = ClassicallyControlledOperation(S, cs) / cirq.If(cs, S)."""
    X = V.ctl(I, cs=cs, via=via)
    B = frozenset(V.key(b) for b in bind)

    def pair(y):
        ycs, ysub = ctl_parts(cirq, y)
        return [V.dcond(c) for c in ycs], V.dsub(ysub)
    return [attempt(lambda: pair(cirq.with_rescoped_keys(X, tuple(path), B))),
            attempt(lambda: pair(cirq.with_measurement_key_mapping(X, dict(m)))),
            attempt(lambda: pair(cirq.with_key_path_prefix(X, tuple(path)))),
            attempt(lambda: [V.dleaf(o) for o in flatten_all(cirq, X)]),
            attempt(lambda: mkeyset(cirq.control_keys(X)))]


def ctl_model_rows(ctx, cirq, V, rows):
    """The model of Circ/CtlSub.v against the implementation on the controlled sub-circuits taken alone: the piecewise
    transformations (conditions and controlled operation), the flat form and the control keys."""
    rows = [r for r in rows if not has_ctl_sub(r[0])][:300 if ctx.tier == 'quick' else 3000]
    gpair = lambda x: f'({gL(x[0], gC)}, {gOp(x[1])})'
    obs, lines = [], []
    for I, cs, m, path, bind, via in rows:
        o = ctl_observe(cirq, V, I, cs, m, path, bind, via)
        obs.append(o)
        ctx.streams['ctl-sub:model:' + ('cirq.If' if via != 'cco' else 'ClassicallyControlledOperation')] += 1
        lines.append(f'(({gL(cs, gC)}, {gOp(I)}, {gL(m, lambda x: f"({gS(x[0])}, {gS(x[1])})")}, {gL(path, gS)}, {gL(bind, gK)}), '
                     f'({gRes(o[0], gpair)}, {gRes(o[1], gpair)}, {gRes(o[2], gpair)}, {gRes(o[3], lambda l: gL(l, gLeaf))}, '
                     f'{gRes(o[4], lambda l: gL(l, gK))}))')
        ctx.count('ctl-sub:model', (I, cs, m, path, bind), True)
    CH = 75
    for ci in range(0, len(lines), CH):
        defs = CTL_HEADER + CTL_DEFS + 'Definition rows_0 : list crow_t := [\n' + ';\n'.join(lines[ci:ci + CH]) + '].\n'
        for j in range(1, len(CTL_PREDS)):
            defs += f'Definition rows_{j} := rows_0.\n'
        bad = run_coq(ctx, f'ctl{ci // CH}', defs, [(name, None, pred) for name, pred in CTL_PREDS])
        for (name, _), k in zip(CTL_PREDS, range(len(CTL_PREDS))):
            for idx in bad[name]:
                I, cs, m, path, bind, via = rows[ci + idx]
                got = obs[ci + idx][k]
                ctx.mark_broken(f'correspondence:ctl:{name}', f'case {ci + idx}: controls {cs} on {I} written as {VIA_TEXT[via]}, map={m} '
                                f'path={path} bindable={bind} -> implementation {got}')
                ctx.violation(f'correspondence:ctl:{name}',
                              (f'model (Circ/CtlSub.v) and implementation disagree on `{name}` of the controlled sub-circuit '
                               f'{V.sub(I)!r}'[:1200] + f' with controls {cs} written as {VIA_TEXT[via]}, map={m} path={path} bindable={bind}; '
                               f'implementation: {got}'[:700]),
                              dict(kind='ctl-top', rec=I, cs=cs, m=m, path=path, bind=bind, via=via, defect='model:' + name), found_input=False)


def ctl_subs_of(D):
    if D['t'] == 'leaf':
        return []
    return ([D] if D.get('cs') else []) + [y for m in D['c'] for x in m for y in ctl_subs_of(x)]


def f13_explains_ctl(ctx, cirq, V, D, m2):
    return sym_collision(inline_ctl(V, D), [dict(m2)] if m2 else []) and confirm_f13(ctx, cirq, V)


def eff_via(V, I, cs, via):
    """The form actually written: the layered forms need two conditions, the operation-list form a plain sub-circuit."""
    if via in ('ifnest', 'ifcco') and len(cs) < 2 or via == 'ifops' and any(I[k] != v for k, v in V.PLAIN.items()):
        return 'if'
    return via


def ctl_top_case(ctx, cirq, V, I, cs, m, path, bind, rows, via='cco'):
    built = attempt(lambda: V.sub(I))
    if built[0] != 'ok':
        return
    I = V.dsub(built[1])        # the record as the constructor normalises it (default repetition ids ...)
    via = eff_via(V, I, cs, via)
    kind, detail = ctl_top_defect(cirq, V, I, cs, m, path, bind, via)
    if kind == 'skip':
        return
    ctx.count('ctl-sub:alone' + (':cirq.If' if via != 'cco' else ''), (I, cs, m, path, bind, via), True,
              sample=dict(sub=repr(V.sub(I))[:300], controls=cs, written_as=VIA_TEXT[via], key_map=m, path=path, bindable=bind))
    if via != 'cco':
        ctx.streams['ctl-sub:alone:form:' + via] += 1
    if via == 'ifops':      # the model is evaluated on the sub-circuit the constructor has made of the operations (its moments)
        rows.append((V.dsub(ctl_parts(cirq, V.ctl(I, cs=cs, via=via))[1]), cs, m, path, bind, 'if'))
    else:
        rows.append((I, cs, m, path, bind, via))
    if kind:
        holder = dict(t='sub', c=[[inline_ctl(V, I)], [dict(t='leaf', uid=5, sgn=False, qs=[9], mk=[], cs=list(cs), ps=[])]], km=[])
        if sym_collision(holder, [dict(m)]) and confirm_f13(ctx, cirq, V):
            return
        sig = 'ctl-sub-alone:' + kind
        fails = lambda x: ctl_top_defect(cirq, V, x, cs, m, path, bind, via)[0] == kind
        small = I if seen(ctx, sig) else shrink(I, fails, budget=60)
        kd, d2 = ctl_top_defect(cirq, V, small, cs, m, path, bind, via) if small is not I else (kind, detail)
        ctx.violation(sig, (f'classically controlled sub-circuit (written as {VIA_TEXT[via]}) vs its flat form (the unrolled sub-circuit '
                            f'with the controls on every operation): {kind}: {d2 or detail}'[:1100]
                            + f'; the operation: {V.ctl(small, cs=cs, via=via)!r}'[:1300]),
                      dict(kind='ctl-top', rec=small, cs=cs, m=m, path=path, bind=bind, via=via, defect=kind))


# ----------------------------------------------------------------------------------------------------------------
def run(ctx):
    cirq = env.import_cirq()
    V = Vocab(cirq)
    ctx.rule = ('keys/conditions: random (path, name) keys, prefixes, key maps, bindable sets (a binding planted in 70% of cases), conditions '
                'of all three kinds with index/bitmask/target; struct: generated CircuitOperation nests of depth 0-3 (exact depth drawn from '
                '{0,1,1,2,2,3}), repetitions from {0,1,2,3,-1,-2,symbolic}, default/custom repetition ids, injective qubit and key maps '
                '(swaps and chains included), parameter maps to numbers or symbols, parent paths, controls on inner and outer keys, one '
                'further remapping of each kind per case; unitary: pure nests incl. single-qubit bodies; sim: X/CNOT/measure/control nests '
                'with all control keys bound, optionally under a classical control; distribution: nests with <= 5 measured bits, all '
                'branches enumerated; until: loops whose condition holds within 6 passes; scoping: two template families with known '
                'outcome; cond grid: sympy conditions over two keys with the same name at two path depths under prefix / rescoping '
                '(fixed, every seed); struct_loops: the struct stream with measuring sub-circuits turned into repeat_until loops (p=0.5) '
                'at any level, condition over an own key and (70%) a key of the enclosing scopes; until_nested: fixed grid (6 conditions '
                'x 6 enclosing rescopings x 3 outer wrappers x top-level same-named key absent/0/1 x 3 value patterns; quick tier: every '
                '7th case + 60 seed-dependent ones) and generated X/CNOT nests with <= 2 loops, each judged against the loop-free flat '
                'reference; ctl_sub: fixed grid (8 enclosing rescopings x 3 outer wrappers x 5 inner sub-circuit options x 4 control '
                'conditions x top-level same-named key absent/present x measured value x the controlled gate one level further down; '
                'quick tier: every 11th case + 30 seed-dependent ones), fixed grid of controlled sub-circuits taken alone (5 options x 2 '
                'depths x 3 controls x 6 (path, bindable) x 3 key maps; quick: every 5th + 30) and generated X/CNOT nests in which a nested '
                'sub-circuit is measurement-free and under a classical control with p=0.7, each with a random further key map / path / '
                'bindable set; every fixed case alone also in one of the four cirq.If forms (cycling; thorough: all), generated nests write a control '
                'with cirq.If with p=0.5 (a controlled gate with p=0.25); block grid: 4 forms x 6 enclosing options x 3 wrappers x 4 bodies '
                '(reads m / e / m,e / e,m) x 3 block conditions, block directly or one level down (quick: the fixed fifth with '
                '(form+encl+wrap+body+cond) % 5 = 0, + 20 seed-dependent); up to 300 (3000) of the controlled sub-circuits taken alone go through the Coq model.  non-trivial = nesting depth >= 2 or any map / ids / path / repetitions != 1 (struct), >= 2 records (sim), '
                '>= 2 branches (distribution); distinct by canonical record')
    ctx.assumptions += ['vf/checks/c12.py: construction of Cirq objects from case records and decoding back',
                        'key equality modelled componentwise (no ":" inside path components)',
                        'sympy conditions restricted to five expression templates, modelled by simultaneous substitution',
                        'collision checks of with_qubit_mapping / with_measurement_key_mapping not modelled (generated maps injective)',
                        'theorems about the unrolled circuit assume non-zero integer repetition counts and len(repetition_ids) = |repetitions|']
    err = tables.regenerate(['CondTables'])
    if err['CondTables']:
        ctx.mark_broken('table:CondTables', err['CondTables'])
    ctx.set_obligations(coq.compile_props('C12'))
    quick = ctx.tier == 'quick'
    timing = {'build_and_props_s': round(time.time() - ctx.t0, 1)}
    SHRINK.update(t0=time.time(), spent=0.0)
    for name, f, nq, nt in (('keys', key_stream, 300, 3000), ('struct', struct_stream, 240, 2400), ('unitary', unitary_stream, 100, 1500),
                            ('sim', sim_stream, 120, 1500), ('until', until_stream, 40, 400), ('scoping', scope_stream, 60, 600),
                            ('distribution', dist_stream, 60, 600), ('struct_loops', struct_loops_stream, 60, 900),
                            ('until_nested', nested_until_stream, 50, 800), ('ctl_sub', ctl_stream, 70, 1000)):
        t = time.time()
        f(ctx, cirq, V, nq if quick else nt)
        timing[name + '_s'] = round(time.time() - t, 1)
    ctx.cov['timing'] = timing


def norm_key(k):
    return (tuple(k[0]), k[1])


def norm_c(c):
    if c[0] == 'sym':
        return ('sym', c[1], [norm_key(k) for k in c[2]])
    return (c[0], norm_key(c[1])) + tuple(c[2:])


def norm_rec(o):
    """A record read back from JSON (lists) in the tuple form the builders expect."""
    o = dict(o)
    if o['t'] == 'leaf':
        o['mk'] = [norm_key(k) for k in o['mk']]
        o['cs'] = [norm_c(c) for c in o['cs']]
        o['ps'] = [tuple(p) for p in o['ps']]
        return o
    o['c'] = [[norm_rec(x) for x in m] for m in o['c']]
    o['qm'] = [tuple(p) for p in o['qm']]
    o['km'] = [tuple(p) for p in o['km']]
    o['pm'] = [(p[0], tuple(p[1])) for p in o['pm']]
    o['ext'] = [norm_key(k) for k in o['ext']]
    if isinstance(o['reps'], list):
        o['reps'] = tuple(o['reps'])
    if o['until'] is not None:
        o['until'] = norm_c(o['until'])
    if o.get('cs'):
        o['cs'] = [norm_c(c) for c in o['cs']]
    return o


def replay(ctx, data):
    cirq = env.import_cirq()
    V = Vocab(cirq)
    k = data.get('kind')
    SHRINK.update(t0=time.time(), spent=SHRINK['limit'])       # no minimisation during replay
    if k == 'key':
        key, p, m = norm_key(data['key']), tuple(data['path']), [tuple(x) for x in data['key_map']]
        K = V.key(key)
        a = V.dkey(cirq.with_key_path_prefix(K, p))
        b = V.dkey(cirq.with_measurement_key_mapping(K, dict(m)))
        print('prefix ->', a, ' map ->', b)
        return a == (p + key[0], key[1]) and b == (key[0], dict(m).get(key[1], key[1]))
    if k == 'cond':
        c = norm_c(data['cond'])
        p, m = tuple(data['path']), [tuple(x) for x in data['key_map']]
        bind = [norm_key(b) for b in data['bindable']]
        C = V.cond(c)
        outs = [V.dcond(cirq.with_measurement_key_mapping(C, dict(m))), V.dcond(cirq.with_key_path_prefix(C, p)),
                V.dcond(cirq.with_rescoped_keys(C, p, frozenset(V.key(b) for b in bind)))]
        want = spec_cond_images(c, p, m, bind)
        for g, w in zip(outs, want):
            print('got', g, 'expected', w)
        return all(norm_cond(g) == norm_cond(w) for g, w in zip(outs, want))
    if k == 'broken':
        print('no input: the listed obligations / correspondences did not check:', [b['name'] for b in data['broken']])
        return False
    if k == 'scope':
        circuit, sub, want = scope_build(cirq, data['desc'])
        print(circuit)
        ok = True
        for name, c in (('wrapped', circuit), ('unrolled', scope_unrolled(cirq, circuit, sub))):
            r = attempt(lambda: int(cirq.Simulator().run(c, repetitions=1).records['out'][0][-1][0]))
            print(name, 'out =', r[1:], 'expected', want)
            ok = ok and r[0] == 'ok' and r[1] == want
        return ok
    D = norm_rec(data['rec'])
    op = V.sub(D)
    print(repr(op))
    if k == 'unroll':
        d = unroll_defect(cirq, V, data['fn'], D)
        print(data['fn'], '->', d or 'trace-equivalent to mapped_circuit(deep=True)')
        return d == ''
    if k == 'unitary':
        d = unitary_defect(cirq, V, D)
        print('unitary:', d or 'equal to the unrolled circuit')
        return d == ''
    if k == 'dist':
        d, a, b = dist_defect(cirq, V, D)
        print('distribution:', d or 'wrapped and unrolled agree', str(a[1])[:600])
        return d in ('', 'skip')
    if k == 'nested-until':
        prep = [[norm_rec(o) for o in m] for m in data['prep']]
        d, detail = nested_until_defect(cirq, V, prep, D)
        print('repeat_until loops vs flat reference:', (d + ': ' + detail) if d else 'agree')
        return d in ('', 'skip')
    if k == 'ctl-nest':
        prep = [[norm_rec(o) for o in m] for m in data['prep']]
        extra = dict(m2=[tuple(x) for x in data.get('m2') or []], path=list(data.get('path') or []),
                     bind=[norm_key(b) for b in data.get('bind') or []])
        d, detail = ctl_nest_defect(cirq, V, prep, D, **extra)
        print('controlled sub-circuits vs the reference nest:', (d + ': ' + detail) if d else 'agree')
        return d in ('', 'skip')
    if k == 'ctl-top':
        d, detail = ctl_top_defect(cirq, V, D, [norm_c(c) for c in data['cs']], [tuple(x) for x in data['m']], list(data['path']),
                                   [norm_key(b) for b in data['bind']], data.get('via') or 'cco')
        print('controlled sub-circuit vs its flat form:', (d + ': ' + detail) if d else 'agree')
        return d in ('', 'skip')
    if k in ('sim', 'until'):
        prep = [[norm_rec(o) for o in m] for m in data['prep']]
        if k == 'sim':
            d, a, b = sim_defect(cirq, V, prep, D, None if data.get('ctl') is None else norm_c(data['ctl']), data.get('ctl_via') or 'cco')
            print('records:', a[1:], 'vs', b[1:])
        else:
            d = until_defect(cirq, V, prep, D)
            print('repeat_until:', d or 'stops after the least number of passes')
        return d in ('', 'skip')
    if k == 'struct':
        which = data.get('which')
        g = dict(tuple(x) for x in data.get('g', []))
        m2 = dict(tuple(x) for x in data.get('m2', []))
        pm2 = {x[0]: tuple(x[1]) for x in data.get('pm2', [])}
        path, bind = list(data.get('path', [])), [norm_key(b) for b in data.get('bind', [])]
        sub = runner.Ctx(ctx.prop, ctx.tier, ctx.seed, ctx.level)
        sub.known = []
        obs = observe(cirq, V, op)
        if which in ('spec', 'deep') or which not in dict(STRUCT_PREDS):
            spec_struct(sub, cirq, V, op, D, obs, do_unroll=False)
            spec_commute(sub, cirq, V, op, D, g, m2, pm2, path, bind)
            for v in sub.violations:
                print('FAILS:', v['signature'], '-', v['what'][:400])
            if which not in dict(STRUCT_PREDS):
                return not sub.violations
        # model vs implementation on this record
        row = struct_row(cirq, V, op, D, obs, g, m2, pm2, path, bind)
        defs = STRUCT_DEFS + 'Definition rows_0 : list row_t := [\n' + row + '].\n'
        preds = [(n, p) for n, p in STRUCT_PREDS if which in (n, 'spec', 'deep')] or STRUCT_PREDS
        for j in range(1, len(preds)):
            defs += f'Definition rows_{j} := rows_0.\n'
        bad = run_coq(ctx, 'replay', defs, [(n, None, p) for n, p in preds])
        bad = {n: v for n, v in bad.items() if v}
        print('model vs implementation:', 'agree' if not bad else f'differ on {sorted(bad)}')
        return not bad and not sub.violations
    print('nothing to replay for kind', k)
    return False
