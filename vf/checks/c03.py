"""C03 — every library gate has the matrix its documentation defines (DESIGN 5/C03)."""
import math
import numpy as np
from .. import env, coq, runner, gates, tables, gates_more

LEVEL = 'proof'
META = dict(
    text='Coq theorems, for every exponent and global shift at once (generic commutative ring with i, 1/2, 1/sqrt2 and unit parameters, hence valid over C with r = exp(i pi t/2)): the eigen-decomposition tables regenerated from /repo on every run, summed the way EigenGate._unitary_ sums them, equal the documented closed-form matrix for each of the 53 EigenGate families; a correspondence run compares cirq.unitary of generated gate instances (special and generic parameters, named constants) with the model evaluated inside Coq. Second batch (Gates/MoreSpecs.v, MoreProofs.v), sizes universally quantified: diagonal gates of any length are unitary for unit entries, compose by multiplying phases and commute; BooleanHamiltonianGate is diag(u^(number of true clauses)) and is additive in the angle and in the clause list; ParallelGate(U, n) is the n-fold Kronecker power with (U x n)(V x n) = (UV) x n and adjoint = power of the adjoint, for any n and any sub-gate dimension; ArithmeticGate is the basis permutation x -> apply(x) on big-endian registers (constants, qudits, documented padding/wrapping), an isometry iff apply is injective on the register range, and compositions compose; each of the 24 single-qubit Cliffords conjugates X and Z to its stated images (generic ring, and exactly in Q(zeta_8)); DensePauliString product rule for strings of any length; UniformSuperposition column norm; StatePreparation / Reset(d) / Measurement / RandomGate Kraus families are trace preserving in any dimension. The same models are compared with cirq.unitary / cirq.kraus / cirq.mixture on generated instances. Every comparison is repeated for gate objects that were first used read-only by every protocol with every handed-out array overwritten by the caller (the object must still mean the same).',
    note='Trusted: Coq kernel; the transcription of the docstring formulas in coq/Gates/GateSpecs.v; vf/tables_gates.py (exact recognition of table entries, fail closed); the float instantiation (PrimFloat, tolerance 1e-9) used only for the comparison; the Python adapters computing cos/sin of the parameters. Non-eigen families are compared with their closed form only (no table to prove against). Second batch: the transcription in coq/Gates/MoreSpecs.v; vf/gates_more.py (the ArithmeticGate subclasses mirror aop_apply; boolean expressions are sent to Cirq as text and to the model as the tree they were printed from); numpy for the unitarity oracle of UniformSuperpositionGate (only its first column is documented).',
    technique='Rocq/Coq proof over regenerated eigen-decomposition tables + vm_compute correspondence against cirq.unitary',
)

TOL = '0x1p-30'   # ~ 9.3e-10


def named_constants(cirq, mods):
    cg = mods['cirq_google']
    G = gates.G
    E = lambda fam, e, s=0.0, shape=None: G(fam, dict(e=e, s=s), shape or gates.EIG_SHAPE.get(fam, (2, 2)))
    return [
        ('X', cirq.X, E('XPow', 1.0)), ('Y', cirq.Y, E('YPow', 1.0)), ('Z', cirq.Z, E('ZPow', 1.0)), ('H', cirq.H, E('HPow', 1.0)),
        ('S', cirq.S, E('ZPow', 0.5)), ('T', cirq.T, E('ZPow', 0.25)),
        ('CZ', cirq.CZ, E('CZPow', 1.0)), ('CNOT', cirq.CNOT, E('CXPow', 1.0)), ('CX', cirq.CX, E('CXPow', 1.0)),
        ('SWAP', cirq.SWAP, E('SwapPow', 1.0)), ('ISWAP', cirq.ISWAP, E('ISwapPow', 1.0)),
        ('SQRT_ISWAP', cirq.SQRT_ISWAP, E('ISwapPow', 0.5)), ('SQRT_ISWAP_INV', cirq.SQRT_ISWAP_INV, E('ISwapPow', -0.5)),
        ('ISWAP_INV', cirq.ISWAP_INV, E('ISwapPow', -1.0)),
        ('XX', cirq.XX, E('XXPow', 1.0)), ('YY', cirq.YY, E('YYPow', 1.0)), ('ZZ', cirq.ZZ, E('ZZPow', 1.0)),
        ('CCZ', cirq.CCZ, E('CCZPow', 1.0)), ('CCX', cirq.CCX, E('CCXPow', 1.0)), ('TOFFOLI', cirq.TOFFOLI, E('CCXPow', 1.0)),
        ('CCNOT', cirq.CCNOT, E('CCXPow', 1.0)), ('CSWAP', cirq.CSWAP, G('CSwap', {}, (2, 2, 2))), ('FREDKIN', cirq.FREDKIN, G('CSwap', {}, (2, 2, 2))),
        ('SYC', cg.SYC, G('FSim', dict(theta=math.pi / 2, phi=math.pi / 6), (2, 2))),
        ('CY', cirq.CY, E('CYPow', 1.0)),
    ]


def run(ctx):
    mods = env.import_cirq(('cirq_google', 'cirq_ionq'))
    cirq = mods['cirq']
    ctx.rule = ('per gate family: parameters drawn from special values (0, +-1/4, +-1/2, 1, 2, outside one period) and generic '
                'values; cirq.unitary compared entrywise (tol 1e-9) with gate_model (regenerated eigen tables) and gate_spec '
                '(docstring closed form) evaluated by vm_compute; non-trivial = non-identity matrix; distinct by (family, parameters)')
    ctx.assumptions += ['docstring transcription in coq/Gates/GateSpecs.v', 'float instance tolerance 1e-9',
                        'vf/gates.py computes the unit parameters cos/sin from the same parameter record handed to Cirq']
    err = tables.regenerate(['EigenTables'])
    if err['EigenTables']:
        ctx.mark_broken('table:EigenTables', err['EigenTables'])
    ctx.set_obligations(coq.compile_props('C03'))
    per = 14 if ctx.tier == 'quick' else 150
    rows = []
    fams = gates.CORE_FAMILIES + gates.QUDIT_FAMILIES + gates.VENDOR_FAMILIES
    for fam in fams:
        for _ in range(per if fam not in ('CSwap', 'Sycamore') else 1):
            g = gates.draw(ctx.rng, fam)
            rows.append((fam, g, None))
    for fam in fams:
        if fam not in ('Ctrl', 'Matrix', 'Diagonal'):
            rows += [(fam, g, None) for g in gates.special_grid(ctx.rng, fam) + gates.pair_grid(ctx.rng, fam)]
    for name, obj, g in named_constants(cirq, mods):
        rows.append(('named:' + name, g, obj))
    gate_stream(ctx, cirq, mods, rows)
    gate_stream(ctx, cirq, mods, used_gate_rows(ctx, cirq, mods, rows), label='used')
    # channels of the library: Kraus / mixture / superoperator vs the documented Kraus operators (shared with C09)
    from . import c09
    checks = []
    c09.channel_stream(ctx, cirq, checks, 1 if ctx.tier == 'quick' else 8)
    c09.evaluate(ctx, checks)
    # second batch of families (coq/Gates/MoreSpecs.v; vocabulary in vf/gates_more.py)
    more_stream(ctx, cirq, mods)


def exercise(cirq, gate, other):
    """Read-only use of a gate object: every protocol that looks at it, with every array it hands out overwritten in place (what a
    caller is free to do with a result).  None of this may change what the object means."""
    def scribble(x):
        if isinstance(x, np.ndarray):
            if x.flags.writeable and x.size:
                x[...] = 7
        elif isinstance(x, (list, tuple)):
            for y in x:
                scribble(y)
    q = cirq.LineQid.for_gate(gate)
    shape = cirq.qid_shape(gate)
    battery = [
        lambda: cirq.unitary(gate, None), lambda: cirq.kraus(gate, None), lambda: cirq.mixture(gate, None), lambda: cirq.unitary(gate.on(*q), None),
        lambda: cirq.equal_up_to_global_phase(gate, other), lambda: cirq.equal_up_to_global_phase(other, gate), lambda: cirq.equal_up_to_global_phase(gate, gate),
        lambda: cirq.approx_eq(gate, other), lambda: gate == other, lambda: hash(gate), lambda: repr(gate), lambda: str(gate),
        lambda: gate in cirq.GateFamily(other), lambda: gate in cirq.GateFamily(type(other)), lambda: gate.on(*q) in cirq.Gateset(other, type(gate)),
        lambda: cirq.Gateset(type(gate)).validate(cirq.Circuit(gate.on(*q))), lambda: cirq.has_unitary(gate), lambda: cirq.trace_distance_bound(gate),
        lambda: cirq.decompose(gate.on(*q)), lambda: cirq.decompose_once(gate.on(*q), None), lambda: cirq.pauli_expansion(gate, default=None),
        lambda: cirq.is_parameterized(gate), lambda: cirq.resolve_parameters(gate, {}), lambda: cirq.circuit_diagram_info(gate, default=None),
        lambda: cirq.commutes(gate, gate, default=None), lambda: cirq.has_stabilizer_effect(gate), lambda: gate**1, lambda: gate**-1, lambda: cirq.inverse(gate, None),
        lambda: cirq.apply_unitary(gate, cirq.ApplyUnitaryArgs.for_unitary(qid_shape=shape), None), lambda: cirq.Circuit(gate.on(*q)).unitary(),
        lambda: cirq.phase_by(gate, 0.25, 0, default=None), lambda: cirq.to_json(gate), lambda: cirq.qasm(gate.on(*q), default=None),
        lambda: cirq.Simulator().simulate(cirq.Circuit(gate.on(*q))).final_state_vector,
    ]
    for f in battery:
        try:
            scribble(f())
        except Exception:
            pass


def used_gate_rows(ctx, cirq, mods, rows):
    """The same comparison with the model for gate objects that have been USED (queried by every read-only protocol, results overwritten
    by the caller): every named constant of the library (process-wide singletons) and a few instances of every family."""
    out = []
    seen = {}
    for fam, g, obj in rows:
        k = seen.get(fam, 0)
        if not fam.startswith('named:') and k >= (3 if ctx.tier == 'quick' else 12):
            continue
        seen[fam] = k + 1
        try:
            gate = obj if obj is not None else g.cirq_gate(cirq, mods)
            other = gates.draw(ctx.rng, g.fam).cirq_gate(cirq, mods) if g.fam not in ('Ctrl',) else gate
            if cirq.qid_shape(other) != cirq.qid_shape(gate):
                other = gate
            exercise(cirq, gate, other)
        except Exception:
            continue
        out.append((fam + ':after-use', g, gate))
    return out


def impl_unitary(cirq, mods, g, obj):
    gate = obj if obj is not None else g.cirq_gate(cirq, mods)
    u = cirq.unitary(gate)
    shape = tuple(cirq.qid_shape(gate))
    return gate, np.asarray(u, dtype=complex), shape


def gate_stream(ctx, cirq, mods, rows, label='gates'):
    lines, kept = [], []
    for fam, g, obj in rows:
        try:
            gate, u, shape = impl_unitary(cirq, mods, g, obj)
        except Exception as e:   # a gate of the library that no longer builds / has no unitary
            ctx.violation(f'gate:{fam}:raises', f'{fam} {g.p}: cirq.unitary raised {type(e).__name__}: {e}',
                          dict(kind='gate', fam=g.fam, params=g.key()[1], shape=list(g.shape), named=fam))
            continue
        if shape != g.shape:
            ctx.violation(f'gate:{fam}:shape', f'{fam}: qid_shape {shape} but documented {g.shape}',
                          dict(kind='gate', fam=g.fam, params=g.key()[1], shape=list(g.shape), named=fam))
            continue
        nontrivial = not np.allclose(u, np.eye(len(u)))
        ctx.count(fam.split(':')[0] if fam.startswith('named') else 'family:' + fam, [fam] + g.key(), nontrivial,
                  sample=dict(family=fam, params=g.key()[1], unitary_row0=[str(complex(x)) for x in u[0]]))
        lines.append(f'({g.coq()}, {gates.fmat(u)})')
        kept.append((fam, g, obj, u))
    text = gates.COQ_HEADER + 'Definition rows : list (gate (K:=FC) * matrix (K:=FC)) := [\n' + ';\n'.join(lines) + '].\n'
    text += f'Eval vm_compute in failing (fun c => fcll_close {TOL} (gate_model FOps (fst c)) (snd c)) rows.\n'
    text += f'Eval vm_compute in failing (fun c => fcll_close {TOL} (gate_spec FOps (fst c)) (snd c)) rows.\n'
    vals = coq.parse_evals(coq.coq_eval(f'c03_{label}_{ctx.seed}', text))
    bad_model, bad_spec = coq.parse_nat_list(vals[0]), coq.parse_nat_list(vals[1])
    for idx in sorted(set(bad_model) | set(bad_spec)):
        fam, g, obj, u = kept[idx]
        which = ('model' if idx in bad_model else '') + ('+spec' if idx in bad_spec else '')
        ctx.mark_broken(f'correspondence:{fam}', f'cirq.unitary differs from {which} at {g.p}')
        if idx in bad_spec:
            # the documented closed form itself disagrees with the code: a failing input for the property
            ctx.violation(f'gate:{fam}', f'cirq.unitary({fam} {g.p}) differs from the documented matrix (tol 1e-9)',
                          dict(kind='gate', fam=g.fam, params=g.key()[1], shape=list(g.shape), named=fam,
                               got=[[str(complex(x)) for x in r] for r in u]))


def more_stream(ctx, cirq, mods):
    """Diagonal (2-/3-qubit and general), BooleanHamiltonian, Parallel, Wait, Arithmetic, single-qubit Cliffords, DensePauliString,
    UniformSuperposition, StatePreparation / Reset(d) / Measurement / RandomGate / Kraus / MixedUnitary channels, named constants:
    every row carries boolean Gallina expressions that evaluate the model of Gates/MoreSpecs.v (float instance) against the literal
    Cirq reported; Coq prints the indices of the expressions that are false."""
    gm = gates_more
    per = 12 if ctx.tier == 'quick' else 120
    ctx.rule += ('; second batch (streams more:*): per family the special angles 0, +-pi, +-pi/2, pi/4, 2pi, 3pi, 7.5, -9.25, 1e-3 and generic draws; '
                 'diagonals of length 1..16, 1-4 variable boolean expressions (random ~ & | ^ trees, 1-3 clauses, sorted and unsorted names), 1-3 copies of '
                 'qubit and qudit sub gates, arithmetic gates over qubit/qudit/constant registers (8 apply functions, incl. the docstring adder and a '
                 'constant-changing one), all 24 Cliffords and the named ones, dense Pauli strings of length 0-4, uniform superpositions up to 5 qubits, '
                 'channel descriptions; compared by vm_compute with the models of Gates/MoreSpecs.v (tol 1e-9; Cliffords and CliffordGate constants up to global phase)')
    ctx.assumptions += ['docstring transcription in coq/Gates/MoreSpecs.v',
                        'vf/gates_more.py: the ArithmeticGate subclasses (apply methods) are the ones named by aop_apply; '
                        'boolean expressions are handed to Cirq as text and to the model as syntax trees built from the same tree']
    rows = []
    gens = [('Diagonal', lambda: gm.diagonal_rows(cirq, ctx.rng, per)), ('BooleanHamiltonian', lambda: gm.boolham_rows(cirq, ctx.rng, 2 * per)),
            ('ParallelGate', lambda: gm.parallel_rows(cirq, mods, ctx.rng, per)), ('WaitGate', lambda: gm.wait_rows(cirq, mods, ctx.rng, per)),
            ('ArithmeticGate', lambda: gm.arith_rows(cirq, ctx.rng, per)), ('Clifford', lambda: gm.clifford_rows(cirq, ctx.rng)),
            ('DensePauliString', lambda: gm.dense_rows(cirq, ctx.rng, per)), ('UniformSuperposition', lambda: gm.uniform_rows(cirq, ctx.rng, per)),
            ('channels', lambda: gm.channel_rows(cirq, ctx.rng, per)), ('named', lambda: gm.named_rows(cirq, mods))]

    def after_use(rows_fn):
        # the library's Clifford objects and named constants once more, after every one of them was used read-only (see exercise)
        objs = list(cirq.SingleQubitCliffordGate.all_single_qubit_cliffords) + [getattr(cirq.CliffordGate, n) for n in ('I', 'X', 'Y', 'Z', 'H', 'S', 'CNOT', 'CZ', 'SWAP') if hasattr(cirq.CliffordGate, n)]
        for o in objs:
            exercise(cirq, o, o)
        out = rows_fn()
        for r in out:
            r['key'] = list(r['key']) + ['after-use']
            r['what'] = r['what'] + ' (after the objects were used read-only, results overwritten by the caller)'
        return out
    gens += [('Clifford after use', lambda: after_use(lambda: gm.clifford_rows(cirq, ctx.rng))), ('named after use', lambda: after_use(lambda: gm.named_rows(cirq, mods)))]
    for name, gen in gens:
        try:
            rows += gen()
        except Exception as e:      # a library gate that no longer builds / has no description
            import traceback
            ctx.violation(f'more:{name}:raises', f'{name}: building the gate or asking Cirq for its description raised {type(e).__name__}: {e}',
                          dict(kind='more', family=name, trace=traceback.format_exc()[-1500:]))
    flat = []
    for ri, r in enumerate(rows):
        ctx.count(r['stream'], r['key'], r['nontrivial'], sample=r['sample'])
        for tag, expr in r['checks']:
            flat.append((ri, tag, expr))
    shard = 150
    items = []
    for k in range(0, len(flat), shard):
        part = flat[k:k + shard]
        text = gm.HEADER + 'Definition checks : list bool := [\n' + ';\n'.join(e for _, _, e in part) + '].\n'
        text += 'Eval vm_compute in failing (fun b : bool => b) checks.\n'
        items.append((f'c03_more_{ctx.seed}_{k // shard}', text))
    outs = coq.coq_eval_many(items)
    failed = {}
    for k, out in enumerate(outs):
        for idx in coq.parse_nat_list(coq.parse_evals(out)[0]):
            ri, tag, _ = flat[k * shard + idx]
            failed.setdefault(ri, []).append(tag)
    for ri, tags in sorted(failed.items()):
        r = rows[ri]
        replay = dict(kind='more', stream=r['stream'], key=r['key'], failed=tags)
        if r.get('kind') == 'parallel' and tags == ['shape'] and r['dim'] != 2:
            # the matrix is the documented tensor power (dimension d^n) but the reported qid_shape is that of qubits
            ctx.violation('gate:ParallelGate:qid_shape-of-qudit-sub-gate',
                          f'{r["what"]}: the unitary is the tensor power (dimension {r["dim"]}^n) but cirq.qid_shape is {r["got_shape"]}', replay)
            continue
        ctx.mark_broken('correspondence:' + r['stream'], f'{r["what"]} [failed: {", ".join(tags)}]')
        fam = r['stream'].split(':', 1)[1]
        sig = 'gate:' + (f'named:{r["key"][0]}' if fam == 'named' else fam)
        ctx.violation(sig, f'{r["what"]} [failed checks: {", ".join(tags)}] (tol 1e-9)', replay)


def replay(ctx, data):
    if data.get('kind') == 'more':
        import sys
        return runner.replay_by_rerun(sys.modules[__name__], ctx, data)
    mods = env.import_cirq(('cirq_google', 'cirq_ionq'))
    cirq = mods['cirq']
    p = data['params']
    if 'm' in p:
        p['m'] = np.array(p['m'], dtype=complex)
    g = gates.G(data['fam'], p, data['shape'])
    obj = None
    if str(data.get('named', '')).startswith('named:'):
        obj = {n: o for n, o, _ in named_constants(cirq, mods)}[data['named'][6:]]
    gate, u, shape = impl_unitary(cirq, mods, g, obj)
    text = gates.COQ_HEADER + f'Eval vm_compute in fcll_close {TOL} (gate_spec FOps {g.coq()}) {gates.fmat(u)}.\n'
    out = coq.parse_evals(coq.coq_eval('c03_replay', text))
    print('unitary:', u)
    return out[0].strip() == 'true' and shape == g.shape
