"""C17 — vendor job payloads mean the same as the circuit they were built from (DESIGN 5/C17)."""
import cmath, itertools, json, math
import numpy as np
from .. import env, coq, runner, gates, tables

LEVEL = 'proof'
META = dict(
    text='Coq theorems over a generic commutative ring with unit parameters, hence for every exponent at once: for each of the 18 dispatch branches of the IonQ serializer (x v vi rx y ry z s si t ti rz xx yy zz cnot swap h) the vendor meaning of the emitted gate equals the Cirq gate matrix (regenerated eigen tables) up to an explicit unit factor, for every exponent of the branch class and for all exponents in the rotation branches; the dispatch table regenerated from the working tree (945 rows: special exponents, just inside/outside the 1e-8 window, generic) equals the model decision function; native gpi/gpi2/ms/zz pass their parameters through; pauliexp term strings are little-endian for strings of any length; the measurement-metadata codec round-trips for every key/target list without separators and every chunk size; bit reversal is an involution and both result paths give qubit targets[i] bit targets[i] of the little-endian outcome; the AQT operation list is translated operation by operation into the v1 payload with matrices equal to the Cirq gates up to phase. On every run the REAL payloads of cirq_ionq.Serializer (single, batch, QIS, native) and AQTSampler (_generate_json, v1) for generated circuits are interpreted by the vendor semantics inside Coq and compared up to global phase with the reference unitary; metadata and result conversion are compared exactly with the codec model; unsupported content must raise; Service / Sampler / AQT samplers are run end to end against a stand-in vendor; the Pasqal request body must read back as the resolved circuit. HISTORIES of calls on one sampler / service object (Vendor/History.v: a sampler that keeps nothing, or keeps VALUES, posts at every call the circuit as it is then; one that keeps the caller\'s mutable object does not — refuted with the witness submit / insert in place / submit again — and only in-place mutation can expose it): on every run PasqalSampler, AQTSampler, AQTSamplerLocalSimulator and cirq_ionq.Service / its Sampler (QIS and native) are driven through histories in which the same mutable cirq.Circuit is submitted, edited in place (insert / append / del / setitem / slice assignment / batch_insert / batch_insert_into / batch_replace / batch_remove / clear_operations_touching), submitted again with an equal or another resolver, as a sweep, in a batch, as an equal copy or frozen; every recorded request body is decoded by the vendor gate definitions and must mean the circuit at the time of its call (unitary up to phase, measurement layout, register), and the decoded bodies must equal the history model evaluated in Coq. MEASUREMENTS of AQT circuits (Vendor/AQTMeas.v: a job can say one thing about measuring — all qubits, at the end, in index order, under m; the sampler refuses every circuit holding a measurement operation, whatever it accepts comes back with the meaning of the circuit, the terminal readout of all qubits under m is the only measurement whose circuit means the job of its gates, and posting the gates alone is refuted by seven witnesses: a measurement followed by a gate, another key, a subset, another order, an invert mask, two keys, a middle measurement plus terminal readout): on every run circuits with measurement operations in the middle / first / last, under m or other keys, on subsets, permuted, with invert masks and confusion maps, basis-state and superposition flavours on 1-3 qubits, plus random ones, go through AQTSampler._generate_json + _parse_legacy_circuit_json, AQTSampler.run_sweep (stand-in vendor answering every basis outcome) and AQTSamplerLocalSimulator.run_sweep; each must be refused or return results whose exact joint distribution (keys, columns, probabilities; 600 samples within total variation 0.18 for the local simulator) is that of the circuit\'s own measurement records, branching over the outcomes of measurements in the middle; basis-state cases are compared with the model inside Coq. The EDGE of the IonQ vocabulary (Vendor/IonQ.v reads `control` / `controls` on any qis gate as |0><0| (x) 1 + |1><1| (x) U; proved: controlled x is cnot, controls nest, controlled z / s / si / t / ti are CZPowGate at the exponent classes 1, 1/2, -1/2, 1/4, -1/4 exactly, controlled rz(pi e) is CZ**e times Z**(-e/2) on the control and a scalar multiple of CZ**e only if exp(i pi e/2) = 1 - refuted at e = 1/2): on every run CZ / CY / iSWAP / CCZ / CCX / CCY powers, H / CNOT / SWAP powers on both sides of their accepted class, and controlled versions (sub.controlled() and cirq.ControlledGate, one and two controls) of X / Y / Z / H powers, rx / ry / rz, XX / YY / ZZ / CNOT / SWAP powers, over a fixed grid of exponents (special values, window boundaries, generic) and wire layouts, plus random ones, must be refused or, if accepted, the payload read inside Coq must be the unitary of the circuit. BATCH results (Vendor/IonQBatch.v: the answer to a batch job holds one histogram per child circuit in submission order, each under an opaque child id; proved: position k of the result is histogram k read with metadata entry k, the ids do not matter, reading the answer in the order of the ids agrees only when the ids ascend - refuted with two circuits named b, a): on every run batches whose children differ in outcome, width, keys, target order or only in the weights are answered under ascending / descending / counter (9, 10, 11) / rotated / uuid4 / same-millisecond uuid7 child ids on QPU and simulator targets, through Job.results + to_cirq_result (compared with the model inside Coq) and through Service.run_batch against the stand-in vendor; every position must come back with the outcomes of the circuit submitted at that position.',
    note='Trusted: Coq kernel; the transcription of the IonQ / AQT gate definitions and of the little-endian conventions (headers of coq/Vendor/IonQ.v, AQT.v); the Python adapters that copy JSON fields and turn angles into unit complex numbers; the float instance (PrimFloat, tolerance 1e-9, 5e-7 when an exponent lies inside the serializer window); the stand-in vendors used for the end-to-end streams follow the same trusted text. Vendor services are not contacted. Field NAMES of the vendor JSON (e.g. `phase` vs `angle` for native zz) are taken as the serializer writes them; only their meaning is checked. Known findings: invert_mask / confusion_map / repeated measurement keys are accepted and altered by the IonQ serializer; AQTSampler does not validate qubit type / index.',
    technique='Rocq/Coq proof over generic-ring gate semantics and list codecs + vm_compute interpretation of real vendor payloads against the reference unitary',
)

TOL = '0x1p-30'     # ~ 9.3e-10
TOLW = '0x1p-21'    # ~ 4.8e-7: an exponent inside the serializer's 1e-8 window is rounded to the special gate
PRE = (gates.COQ_HEADER + 'From Coq Require Import String.\nFrom VF Require Import Sim.Ref Vendor.IonQ Vendor.AQT.\n'
       'Open Scope string_scope.\n')
PRE_D = ('From Coq Require Import List ZArith NArith Bool.\nFrom VF Require Import Base.Harness Codec.MetaChunks Vendor.IonQBatch.\n'
         'Import ListNotations.\nOpen Scope Z_scope.\n')
SPECIALS = [1.0, 0.5, -0.5, 0.25, -0.25]
ATOL = 1e-8


def _disagree(ctx, name, detail, signature, what, replay):
    """ctx.disagree, but a correspondence stream is entered into the broken list once, not once per failing case."""
    if ctx.violation(signature, what, replay) != 'known' and not any(b[0] == name for b in ctx.broken):
        ctx.mark_broken(name, detail)


class Unrecognised(Exception):
    """A payload shape the model does not know: reported as a broken correspondence, never guessed."""


def unit(theta):
    return complex(math.cos(theta), math.sin(theta))


def uu(theta):
    u = unit(theta)
    return f'{gates.fc(u)}; {gates.fc(u.conjugate())}'


def coq_str(s):
    if any(ord(c) < 32 or ord(c) > 126 or c == '"' for c in s):
        raise Unrecognised(f'mnemonic {s!r}')
    return '"' + s + '"'


# ---------------------------------------------------------------------------------------------------
# generated circuits over IonQ's accepted vocabulary (cases are plain JSON so that they replay)
# ---------------------------------------------------------------------------------------------------
def draw_exp(rng, only_one=False):
    """(exponent, inside_window): special values, values just inside / outside the atol window, generic values."""
    base = (1.0 if only_one else rng.choice(SPECIALS)) + 2 * rng.choice([0, 0, 0, 1, -1, 2])
    r = rng.random()
    if r < 0.4 or (only_one and r < 0.7):
        return base, False
    if r < 0.55 or only_one:
        return base + rng.choice([-1, 1]) * rng.choice([0.3e-8, 0.9e-8]), True
    if r < 0.7:
        return base + rng.choice([-1, 1]) * rng.choice([1.1e-8, 2e-8, 1e-6]), False
    if r < 0.8:
        return rng.choice([0.0, 2.0, -2.0, 0.75, 1.5, -0.75, 1.25, 4.0]), False
    return round(rng.uniform(-4, 4), 4), False


ONE_Q = ['XPow', 'YPow', 'ZPow', 'HPow', 'Rx', 'Ry', 'Rz']
TWO_Q = ['XXPow', 'YYPow', 'ZZPow', 'CXPow', 'SwapPow', 'MS']


def draw_qis_op(rng, wires):
    """One operation on a subset of `wires` (list of LineQubit indices)."""
    r = rng.random()
    if r < 0.12 and len(wires) >= 1:
        k = rng.randint(1, min(3, len(wires)))
        w = rng.sample(wires, k)
        codes = [rng.randrange(4) for _ in range(k)]
        neg = rng.random() < 0.25
        lo, hi = sorted([rng.choice([0.0, 0.25, -0.5, 1.0, round(rng.uniform(-1, 1), 3)]) for _ in range(2)])
        if rng.random() < 0.1:
            hi = lo
        # evolution time pi (exponent_neg - exponent_pos)/2 must not be negative after Cirq folds the sign in
        ep, en = (lo, hi) if not neg else (hi, lo)
        return dict(k='psp', codes=codes, neg=neg, ep=ep, en=en, w=w), False
    if len(wires) >= 2 and r < 0.5:
        fam = rng.choice(TWO_Q)
        w = rng.sample(wires, 2)
        if fam == 'MS':
            return dict(k='rot', fam='MS', rads=gates.draw_angle(rng), w=w), False
        e, win = draw_exp(rng, only_one=fam in ('CXPow', 'SwapPow'))
        return dict(k='eig', fam=fam, e=e, s=gates.draw_shift(rng) if rng.random() < 0.4 else 0.0, w=w), win
    fam = rng.choice(ONE_Q)
    w = [rng.choice(wires)]
    if fam in ('Rx', 'Ry', 'Rz'):
        rads = gates.draw_angle(rng) if rng.random() < 0.7 else rng.choice(SPECIALS) * math.pi
        return dict(k='rot', fam=fam, rads=rads, w=w), False
    e, win = draw_exp(rng, only_one=fam == 'HPow')
    return dict(k='eig', fam=fam, e=e, s=gates.draw_shift(rng) if rng.random() < 0.4 else 0.0, w=w), win


KEY_ALPHABET = 'abcXYZ019 _-,.;=+/()[]{}<>!?@#$%^&*|~\'"\\' + 'éλ中\U0001F600'


def draw_key(rng, long=False):
    r = rng.random()
    if long:
        n = rng.choice([38, 39, 40, 41, 42, 79, 80, 81, 120])
    elif r < 0.5:
        n = rng.randint(1, 4)
    elif r < 0.55:
        n = 0
    else:
        n = rng.randint(5, 25)
    return ''.join(rng.choice(KEY_ALPHABET) for _ in range(n))


def draw_meas(rng, wires, long=False):
    """Terminal measurements on disjoint wire sets under distinct keys; [] = no measurement."""
    if rng.random() < 0.15:
        return []
    pool = list(wires)
    rng.shuffle(pool)
    out, keys = [], set()
    while pool and (not out or rng.random() < 0.6):
        k = rng.randint(1, len(pool))
        w, pool = pool[:k], pool[k:]
        key = draw_key(rng, long and not out)
        if key in keys:
            continue
        keys.add(key)
        out.append(dict(key=key, w=w))
    return out


def gen_qis_case(rng, max_q=4, max_ops=9, long=False):
    top = rng.randint(1, max_q)
    # any subset of LineQubit(0..top-1) that contains the highest index (so the payload has `top` qubits)
    wires = sorted(set([top - 1] + [w for w in range(top - 1) if rng.random() < 0.7]))
    ops, win = [], False
    for _ in range(rng.randint(1, max_ops)):
        o, w = draw_qis_op(rng, wires)
        ops.append(o)
        win = win or w
    strat = ['N' if rng.random() < 0.2 else 'E' for _ in ops]
    used = sorted({w for o in ops for w in o['w']})
    meas = draw_meas(rng, used if rng.random() < 0.7 else wires, long)
    return dict(vendor='ionq', gateset='qis', ops=ops, strat=strat, meas=meas, window=win)


def cirq_gate(cirq, mods, o):
    k = o['k']
    if k == 'eig':
        return gates.EIG[o['fam']][1](cirq)(exponent=o['e'], global_shift=o['s'])
    if k == 'rot':
        return {'Rx': cirq.rx, 'Ry': cirq.ry, 'Rz': cirq.rz, 'MS': cirq.ms}[o['fam']](o['rads'])
    if k == 'psp':
        dps = cirq.DensePauliString(o['codes'], coefficient=-1 if o['neg'] else 1)
        return cirq.PauliStringPhasorGate(dps, exponent_neg=o['en'], exponent_pos=o['ep'])
    if k == 'ctl':
        # a controlled gate, built the way a caller would: sub.controlled() (Cirq may return CZPowGate / CXPowGate ...) or
        # cirq.ControlledGate(sub); either way Cirq documents it as identity on control 0 and sub on control 1
        sub = cirq_gate(cirq, mods, o['sub'])
        return sub.controlled(o['nc']) if o['how'] == 'method' else cirq.ControlledGate(sub, num_controls=o['nc'])
    if k == 'native':
        ci = mods['cirq_ionq']
        f, p = o['fam'], o['p']
        if f == 'GPI':
            return ci.GPIGate(phi=p['phi'])
        if f == 'GPI2':
            return ci.GPI2Gate(phi=p['phi'])
        if f == 'IonqMS':
            return ci.MSGate(phi0=p['phi0'], phi1=p['phi1'], theta=p['theta'])
        if f == 'IonqZZ':
            return ci.ZZGate(theta=p['theta'])
    raise KeyError(k)


def build_circuit(cirq, mods, case):
    c = cirq.Circuit()
    q = cirq.LineQubit
    for o, s in zip(case['ops'], case['strat']):
        c.append(cirq_gate(cirq, mods, o).on(*[q(w) for w in o['w']]),
                 strategy=cirq.InsertStrategy.NEW if s == 'N' else cirq.InsertStrategy.EARLIEST)
    for m in case['meas']:
        kw = {}
        if m.get('invert'):
            kw['invert_mask'] = tuple(bool(b) for b in m['invert'])
        if m.get('flip_confusion'):
            kw['confusion_map'] = {(i,): np.array([[0.0, 1.0], [1.0, 0.0]]) for i in m['flip_confusion']}
        c.append(cirq.measure(*[q(w) for w in m['w']], key=m['key'], **kw))
    return c


def circuit_recs(cirq, mods, case):
    """(key, targets) of the circuit's measurements in the order the circuit lists them (moment by moment)."""
    out = [(cirq.measurement_key_name(op), [q.x for q in op.qubits]) for op in build_circuit(cirq, mods, case).all_operations()
           if cirq.is_measurement(op)]
    assert sorted(out) == sorted((m['key'], m['w']) for m in case['meas'])
    return out


def num_qubits(case):
    return 1 + max([w for o in case['ops'] for w in o['w']] + [w for m in case['meas'] for w in m['w']])


# ---- the reference side: the circuit's operations in the gate vocabulary of the reference model ----
def ref_term(o):
    k, ax = o['k'], gates.nlist(o['w'])
    if k == 'eig':
        g = gates.G(o['fam'], dict(e=o['e'], s=o['s']), (2,) * len(o['w']))
        return f'({g.coq()}, {ax})'
    if k == 'rot':
        g = gates.G(o['fam'], dict(rads=o['rads']), (2,) * len(o['w']))
        return f'({g.coq()}, {ax})'
    if k == 'psp':
        x, y = unit(math.pi * o['ep'] / 2), unit(math.pi * o['en'] / 2)
        return (f'(GMat {gates.nlist([2] * len(o["w"]))} (cirq_psp_matrix FOps {gates.nlist(o["codes"])} '
                f'{"true" if o["neg"] else "false"} {gates.fc(x)} {gates.fc(y)}), {ax})')
    if k == 'native':
        g = gates.G(o['fam'], o['p'], (2,) * len(o['w']))
        return f'({g.coq()}, {ax})'
    if k == 'ctl':
        sub = ref_term(dict(o['sub'], w=o['w'][o['nc']:]))
        sub = sub[1:sub.rindex(',')]                          # the gate of the (gate, axes) pair
        cd, cv = gates.nlist([2] * o['nc']), gates.nlist([1] * o['nc'])
        return f'(GCtrl {cd} [{cv}] {sub}, {ax})'
    raise KeyError(k)


def ref_ops(case):
    return '[' + ';\n   '.join(ref_term(o) for o in case['ops']) + ']'


def nontrivial(case):
    ops = case['ops']
    share = any(set(a['w']) & set(b['w']) for i, a in enumerate(ops) for b in ops[i + 1:])
    nondiag = any(not (o.get('fam') in ('ZPow', 'ZZPow', 'Rz', 'IonqZZ') or (o['k'] == 'psp' and set(o['codes']) <= {0, 3}))
                  for o in ops)
    return share and nondiag


# ---- the vendor side: the JSON program as a Gallina term (fields copied, angles turned into units) ----
QIS_PLAIN = {'x', 'y', 'z', 'h', 's', 'si', 't', 'ti', 'v', 'vi', 'swap'}
QIS_ROT = {'rx', 'ry', 'rz', 'xx', 'yy', 'zz'}
PAULI_CODE = {'I': 0, 'X': 1, 'Y': 2, 'Z': 3}


def _ints(xs):
    out = []
    for x in xs:
        if isinstance(x, bool) or not isinstance(x, (int, np.integer)) or x < 0:
            raise Unrecognised(f'wire index {x!r}')
        out.append(int(x))
    return out


def _num(x):
    if isinstance(x, bool) or not isinstance(x, (int, float, np.integer, np.floating)):
        raise Unrecognised(f'number {x!r}')
    x = float(x)
    if not math.isfinite(x):
        raise Unrecognised(f'number {x!r}')
    return x


def ionq_op_term(op, native):
    """One op of the JSON program -> Gallina `iop` (FC instance). Every field must be known."""
    keys = set(op) - {'gate'}
    name = op['gate']
    if not isinstance(name, str):
        raise Unrecognised(f'gate {name!r}')
    if name == 'pauliexp' and not native:
        if keys != {'terms', 'coefficients', 'targets', 'time'}:
            raise Unrecognised(f'pauliexp fields {sorted(keys)}')
        t = _num(op['time'])
        terms = []
        for s in op['terms']:
            if not isinstance(s, str) or any(c not in PAULI_CODE for c in s):
                raise Unrecognised(f'pauliexp term {s!r}')
            terms.append(gates.nlist([PAULI_CODE[c] for c in s]))
        units = ['(' + uu(t * _num(c)).replace(';', ',') + ')' for c in op['coefficients']]
        return f'(IPauliExp [{"; ".join(terms)}] [{"; ".join(units)}] {gates.nlist(_ints(op["targets"]))})'
    controls, targets, ps = [], None, ''
    if 'controls' in keys:                               # `controls` (a list) and `control` (one wire) on any qis gate
        if not isinstance(op['controls'], (list, tuple)):
            raise Unrecognised(f'controls {op["controls"]!r}')
        controls = _ints(op['controls'])
        keys.discard('controls')
    if 'control' in keys:
        controls = controls + _ints([op['control']])
        keys.discard('control')
    if 'targets' in keys:
        targets = _ints(op['targets'])
        keys.discard('targets')
    elif 'target' in keys:
        targets = _ints([op['target']])
        keys.discard('target')
    else:
        raise Unrecognised(f'op without targets: {op}')
    if not native:
        if keys == {'rotation'}:
            ps = uu(_num(op['rotation']) / 2)            # u = exp(i rotation / 2)
        elif keys:
            raise Unrecognised(f'{name} fields {sorted(keys)}')
    else:
        if name in ('gpi', 'gpi2') and keys == {'phase'}:
            ps = uu(2 * math.pi * _num(op['phase']))     # p = exp(2 pi i phase)
        elif name == 'ms' and keys == {'phases', 'angle'}:
            ph = [_num(x) for x in op['phases']]
            if len(ph) != 2:
                raise Unrecognised(f'ms phases {ph}')
            ps = f'{uu(2 * math.pi * ph[0])}; {uu(2 * math.pi * ph[1])}; {uu(math.pi * _num(op["angle"]))}'
        elif name == 'zz' and keys == {'phase'}:
            ps = uu(math.pi * _num(op['phase']))         # cirq_ionq names the zz angle (turns) `phase`
        else:
            raise Unrecognised(f'native {name} fields {sorted(keys)}')
    return f'(IGate {coq_str(name)} [{ps}] {gates.nlist(controls)} {gates.nlist(targets)})'


def ionq_prog_term(circuit_ops, native):
    return '[' + ';\n   '.join(ionq_op_term(op, native) for op in circuit_ops) + ']'


# ---- an independent numpy reading of the vendor's definitions (used only to confirm and shrink failing inputs) ----
_P = [np.eye(2), np.array([[0, 1], [1, 0]]), np.array([[0, -1j], [1j, 0]]), np.array([[1, 0], [0, -1]])]


def np_ionq_gate(op, native):
    name = op['gate']
    rot = op.get('rotation')
    c, s = (math.cos(rot / 2), math.sin(rot / 2)) if rot is not None else (None, None)
    if native:
        if name == 'gpi':
            p = cmath.exp(2j * math.pi * op['phase'])
            return np.array([[0, p.conjugate()], [p, 0]]), [op['target']]
        if name == 'gpi2':
            p = cmath.exp(2j * math.pi * op['phase'])
            return np.array([[1, -1j * p.conjugate()], [-1j * p, 1]]) / math.sqrt(2), [op['target']]
        if name == 'ms':
            a = cmath.exp(2j * math.pi * (op['phases'][0] + op['phases'][1]))
            b = cmath.exp(2j * math.pi * (op['phases'][0] - op['phases'][1]))
            cc, ss = math.cos(math.pi * op['angle']), math.sin(math.pi * op['angle'])
            return np.array([[cc, 0, 0, -1j * a.conjugate() * ss], [0, cc, -1j * b.conjugate() * ss, 0],
                             [0, -1j * b * ss, cc, 0], [-1j * a * ss, 0, 0, cc]]), list(op['targets'])
        if name == 'zz':
            r = cmath.exp(1j * math.pi * op['phase'])
            return np.diag([r.conjugate(), r, r, r.conjugate()]), list(op['targets'])
        raise Unrecognised(name)
    if name == 'pauliexp':
        (term,), (coef,) = op['terms'], op['coefficients']
        P = np.eye(1)
        for ch in term[::-1]:                       # little-endian: the last character acts on targets[0]
            P = np.kron(P, _P[PAULI_CODE[ch]])
        a = op['time'] * coef
        return math.cos(a) * np.eye(len(P)) - 1j * math.sin(a) * P, list(op['targets'])
    # every other qis gate: `target` / `targets`, and any number of control wires through `control` / `controls`
    # (|0><0| (x) 1 + |1><1| (x) U per control, controls listed first; cnot is x with one control)
    controls = list(op.get('controls', [])) + ([op['control']] if 'control' in op else [])
    targets = list(op['targets']) if 'targets' in op else [op['target']]
    X, Y, Z = _P[1], _P[2], _P[3]
    one = {'x': X, 'y': Y, 'z': Z, 'h': (X + Z) / math.sqrt(2), 's': np.diag([1, 1j]), 'si': np.diag([1, -1j]),
           't': np.diag([1, cmath.exp(0.25j * math.pi)]), 'ti': np.diag([1, cmath.exp(-0.25j * math.pi)]),
           'v': np.array([[1 + 1j, 1 - 1j], [1 - 1j, 1 + 1j]]) / 2, 'vi': np.array([[1 - 1j, 1 + 1j], [1 + 1j, 1 - 1j]]) / 2}
    if name in QIS_ROT and rot is None:
        raise Unrecognised(f'{name} without rotation')
    if name == 'cnot':
        if not controls:
            raise Unrecognised('cnot without control')
        base = X
    elif name in one:
        base = one[name]
    elif name in ('rx', 'ry', 'rz'):
        base = c * np.eye(2) - 1j * s * {'rx': X, 'ry': Y, 'rz': Z}[name]
    elif name in ('xx', 'yy', 'zz'):
        P = {'xx': X, 'yy': Y, 'zz': Z}[name]
        base = c * np.eye(4) - 1j * s * np.kron(P, P)
    elif name == 'swap':
        base = np.array([[1, 0, 0, 0], [0, 0, 1, 0], [0, 1, 0, 0], [0, 0, 0, 1]])
    else:
        raise Unrecognised(name)
    if len(base) != 2 ** len(targets):
        raise Unrecognised(f'{name} on targets {targets}')
    for _ in controls:
        blk = np.eye(2 * len(base), dtype=complex)
        blk[len(base):, len(base):] = base
        base = blk
    return base, controls + targets


def np_embed(m, axes, n):
    """matrix on `axes` (first axis most significant) -> 2^n x 2^n, wire 0 most significant."""
    k = len(axes)
    t = np.asarray(m, dtype=complex).reshape((2,) * (2 * k))
    full = np.eye(2 ** n, dtype=complex).reshape((2,) * (2 * n))
    # apply to the row indices of the identity
    full = np.tensordot(t, full, axes=(list(range(k, 2 * k)), list(axes)))
    full = np.moveaxis(full, list(range(k)), list(axes))
    return full.reshape(2 ** n, 2 ** n)


def np_prog_unitary(mats_axes, n):
    u = np.eye(2 ** n, dtype=complex)
    for m, ax in mats_axes:
        u = np_embed(m, ax, n) @ u
    return u


def np_phase_dist(a, b):
    """max |a - f b| with f the unit factor read off the largest entry of b."""
    i = np.unravel_index(np.argmax(np.abs(b)), b.shape)
    if abs(b[i]) < 1e-12:
        return float(np.max(np.abs(a - b)))
    f = a[i] / b[i]
    if abs(abs(f) - 1) > 1e-6:
        return float('inf')
    return float(np.max(np.abs(a - f * b)))


def np_ref_gate(cirq, mods, o):
    """The documented matrix of one generated operation, independent of cirq.unitary where a closed form is at hand."""
    if o['k'] == 'pad':
        return np.eye(2)
    if o['k'] == 'psp':
        P = np.eye(1)
        for cde in o['codes']:
            P = np.kron(P, _P[cde])
        P = -P if o['neg'] else P
        a, b = cmath.exp(1j * math.pi * o['ep']), cmath.exp(1j * math.pi * o['en'])
        return (a + b) / 2 * np.eye(len(P)) + (a - b) / 2 * P
    if o['k'] == 'ctl':
        base = np_ref_gate(cirq, mods, o['sub'])
        for _ in range(o['nc']):
            blk = np.eye(2 * len(base), dtype=complex)
            blk[len(base):, len(base):] = base
            base = blk
        return base
    return cirq.unitary(cirq_gate(cirq, mods, o))


def np_ionq_disagrees(cirq, mods, case, prog_ops, native, tol):
    n = num_qubits(case)
    ref = np_prog_unitary([(np_ref_gate(cirq, mods, o), o['w']) for o in case['ops']], n)
    got = np_prog_unitary([np_ionq_gate(op, native) for op in prog_ops], n)
    return np_phase_dist(got, ref) > tol


# ---------------------------------------------------------------------------------------------------
def op_signature(o):
    if o['k'] == 'eig':
        e = o['e']
        cls = 'other'
        for t, nm in ((1, 'one'), (0.5, 'half'), (-0.5, 'mhalf'), (0.25, 'quarter'), (-0.25, 'mquarter')):
            if abs((e - t + 1) % 2 - 1) <= 3e-8:
                cls = nm
        return f'{o["fam"]}:{cls}'
    if o['k'] == 'ctl':
        return f'ctl{o["nc"]}({op_signature(o["sub"])})'
    return o.get('fam', o['k'])


def serialize_case(cirq, mods, case):
    ser = mods['cirq_ionq'].Serializer()
    return ser.serialize_single_circuit(build_circuit(cirq, mods, case))


def gen_native_case(rng, max_q=4, max_ops=8):
    top = rng.randint(1, max_q)
    wires = sorted(set([top - 1] + [w for w in range(top - 1) if rng.random() < 0.7]))
    ops = []
    for _ in range(rng.randint(1, max_ops)):
        fam = rng.choice(['GPI', 'GPI2', 'IonqMS', 'IonqZZ'] if len(wires) >= 2 else ['GPI', 'GPI2'])
        g = gates.draw(rng, fam)
        ops.append(dict(k='native', fam=fam, p=g.p, w=rng.sample(wires, len(g.shape))))
    strat = ['N' if rng.random() < 0.2 else 'E' for _ in ops]
    return dict(vendor='ionq', gateset='native', ops=ops, strat=strat, meas=draw_meas(rng, wires), window=False)


def shrink_ionq(cirq, mods, case, native, tol):
    """Smallest sub-circuit (single op first) on which the real payload still means something else."""
    for o, s in zip(case['ops'], case['strat']):
        sub = dict(case, ops=[o], strat=[s], meas=[])
        try:
            prog = serialize_case(cirq, mods, sub)
            if np_ionq_disagrees(cirq, mods, sub, prog.input['circuit'], native, tol):
                return sub
        except Exception:
            continue
    return case


def ionq_payload_stream(ctx, cirq, mods, checks, dchecks, n, native=False, long=False):
    rng = ctx.rng
    stream = 'ionq_native' if native else 'ionq_qis'
    for _ in range(n):
        case = gen_native_case(rng) if native else gen_qis_case(rng, max_q=4 if ctx.tier == 'quick' else 5, long=long)
        try:
            prog = serialize_case(cirq, mods, case)
        except Exception as e:
            _disagree(ctx, f'correspondence:{stream}', f'{type(e).__name__}: {e}', f'{stream}:raises:{type(e).__name__}',
                         f'serializing a circuit over the accepted vocabulary raised {type(e).__name__}: {e}',
                         dict(kind='ionq_payload', case=case))
            continue
        inp = prog.input
        ctx.count(stream, case, nontrivial(case),
                  sample=dict(ops=case['ops'][:4], meas=case['meas'], payload=dict(inp, circuit=inp['circuit'][:4]), metadata=prog.metadata))
        # the register may be larger than the circuit needs (idle wires), never smaller
        head_ok = (set(inp) == {'gateset', 'qubits', 'circuit'} and inp['gateset'] == case['gateset'] and isinstance(inp['qubits'], int)
                   and num_qubits(case) <= inp['qubits'] <= 8)
        add_prog_checks(ctx, mods, checks, dchecks, stream, case, inp.get('circuit'), inp['qubits'] if head_ok else num_qubits(case), head_ok, prog.metadata,
                        dict(kind='ionq_payload', case=case), circuit_recs(cirq, mods, case))


def add_prog_checks(ctx, mods, checks, dchecks, stream, case, circuit_ops, n, head_ok, metadata, rep, recs):
    """One circuit of a payload: the op list against the reference unitary (float, up to phase), the metadata against the codec."""
    native = case['gateset'] == 'native'
    tol = TOLW if case.get('window') else TOL
    try:
        term = ionq_prog_term(circuit_ops, native)
    except Unrecognised as e:
        ctx.mark_broken(f'correspondence:{stream}', f'payload shape not covered by the model: {e}')
        return
    expr = (f'match ionq_unitary FOps {"true" if native else "false"} {n} {term} with\n'
            f'  | Some m => fcll_close_phase {tol} m (circ_unitary FOps (repeat 2%nat {n}) {ref_ops(case)})\n  | None => false end')
    checks.append((stream, expr if head_ok else 'false', rep))
    add_meta_checks(ctx, mods, dchecks, stream, recs, metadata, rep)


def ionq_many_stream(ctx, cirq, mods, checks, dchecks, n):
    """serialize_many_circuits: every circuit of the batch against its own reference; per-circuit metadata and qubit numbers."""
    rng = ctx.rng
    ser = mods['cirq_ionq'].Serializer()
    for _ in range(n):
        native = rng.random() < 0.25
        cases = [gen_native_case(rng, max_ops=4) if native else gen_qis_case(rng, max_q=4, max_ops=5) for _ in range(rng.randint(1, 4))]
        rep = dict(kind='ionq_many', cases=cases)
        try:
            prog = ser.serialize_many_circuits([build_circuit(cirq, mods, c) for c in cases])
        except Exception as e:
            _disagree(ctx, 'correspondence:ionq_many', f'{type(e).__name__}: {e}', f'ionq_many:raises:{type(e).__name__}',
                         f'serialize_many_circuits over the accepted vocabulary raised {type(e).__name__}: {e}', rep)
            continue
        inp, md = prog.input, prog.metadata
        ctx.count('ionq_many', cases, len(cases) >= 2 and any(nontrivial(c) for c in cases),
                  sample=dict(circuits=len(cases), qubits=inp.get('qubits'), metadata=md))
        ok = (set(inp) == {'gateset', 'qubits', 'circuits'} and inp['gateset'] == cases[0]['gateset'] and len(inp['circuits']) == len(cases)
              and isinstance(inp['qubits'], int) and max(num_qubits(c) for c in cases) <= inp['qubits'] <= 8
              and all(set(c) == {'circuit'} for c in inp['circuits']) and {'measurements', 'qubit_numbers'} <= set(md))
        if not ok:
            checks.append(('ionq_many', 'false', rep))
            continue
        ms, qn = json.loads(md['measurements']), json.loads(md['qubit_numbers'])
        for i, c in enumerate(cases):
            sub = dict(rep, index=i)
            job = fake_job(mods, md, nq=inp['qubits'])
            # per circuit: the qubit number used for the endianness conversion must cover the circuit; its keys/targets must come back
            good = len(ms) == len(cases) and len(qn) == len(cases) and job.num_qubits(i) >= num_qubits(c) \
                and job.measurement_dict(circuit_index=i) == {m['key']: m['w'] for m in c['meas']}
            add_prog_checks(ctx, mods, checks, dchecks, 'ionq_many', c, inp['circuits'][i]['circuit'], inp['qubits'], good,
                            ms[i] if i < len(ms) else {}, sub, circuit_recs(cirq, mods, c))


# ---------------------------------------------------------------------------------------------------
# the edge of the vocabulary: gates the qis gateset has no name for (controlled phases, controlled rotations, iswap, Toffoli-like
# gates, controlled versions of every accepted gate built both ways, accepted families at exponents outside their class).
# Each must be refused, or - if a serializer finds a way to express it, e.g. through `control` / `controls` - what is sent must
# still be the circuit's unitary.  Judged by meaning: the accepted payload goes through the same Coq / numpy reading as any other.
# ---------------------------------------------------------------------------------------------------
EDGE_EXPS = [1.0, 3.0, -1.0, 0.5, -0.5, 2.5, 0.25, -0.25, 1.75, 0.0, 2.0, 1.5, 0.3217, -1.37]
EDGE_WINDOW = [(1 + 0.5e-8, True), (1 + 2e-8, False), (0.5 - 0.9e-8, True), (0.5 + 1.5e-8, False)]
EDGE_2Q = ['CZPow', 'CYPow', 'ISwapPow']
EDGE_3Q = ['CCZPow', 'CCXPow', 'CCYPow']
EDGE_CLASS_ONE_ONLY = ['HPow', 'CXPow', 'SwapPow']
EDGE_PREP = [dict(k='eig', fam='HPow', e=1.0, s=0.0, w=[0]), dict(k='eig', fam='XPow', e=0.3, s=0.0, w=[1]),
             dict(k='eig', fam='YPow', e=0.7, s=0.0, w=[2])]


def edge_case(op, window=False):
    ops = EDGE_PREP + [op]
    # edge=True: the last operation is outside the accepted vocabulary, so a refusal is a conformant answer (also on replay)
    return dict(vendor='ionq', gateset='qis', ops=ops, strat=['E'] * len(ops), meas=[dict(key='m', w=[0, 1, 2])], window=window, edge=True)


def edge_fixed_cases():
    """Every VERIF_SEED: family x exponent (special values, window boundaries, generic) x wire layout x way of building."""
    out = []
    exps = [(e, False) for e in EDGE_EXPS] + EDGE_WINDOW
    eig = lambda fam, e, s=0.0: dict(k='eig', fam=fam, e=e, s=s)
    for fam in EDGE_2Q:
        for e, win in exps:
            for w in ([0, 1], [1, 0], [2, 0]):
                out.append(edge_case(dict(eig(fam, e), w=w), win))
        for e in (0.5, 1.0, 0.3217):                   # a global shift is a global phase: it may be dropped, nothing else may
            out.append(edge_case(dict(eig(fam, e, 0.25), w=[1, 2])))
    for fam in EDGE_3Q:
        for e, win in exps:
            for w in ([0, 1, 2], [2, 0, 1]):
                out.append(edge_case(dict(eig(fam, e), w=w), win))
    for fam in EDGE_CLASS_ONE_ONLY:                    # accepted at exponent 1 (mod 2) only; both sides of that line are in the grid
        for e, win in exps:
            for w in ([0] if fam == 'HPow' else [0, 1], [2] if fam == 'HPow' else [2, 1]):
                out.append(edge_case(dict(eig(fam, e), w=w), win))
    # controlled versions of accepted gates, built as a caller would: sub.controlled() and cirq.ControlledGate(sub)
    for how in ('method', 'class'):
        for fam in ('XPow', 'YPow', 'ZPow', 'HPow'):
            for e, win in exps:
                for w in ([0, 1], [2, 1]):
                    out.append(edge_case(dict(k='ctl', nc=1, how=how, sub=eig(fam, e), w=w), win))
            for e in (1.0, 0.5, 0.3217):
                out.append(edge_case(dict(k='ctl', nc=1, how=how, sub=eig(fam, e, -0.5), w=[1, 0])))
                out.append(edge_case(dict(k='ctl', nc=2, how=how, sub=eig(fam, e), w=[0, 2, 1])))
        for fam in ('Rx', 'Ry', 'Rz'):
            for rads in (math.pi, math.pi / 2, -math.pi / 2, math.pi / 4, 1.0107, 0.0):
                for w in ([0, 1], [2, 1]):
                    out.append(edge_case(dict(k='ctl', nc=1, how=how, sub=dict(k='rot', fam=fam, rads=rads), w=w)))
        for fam in ('XXPow', 'YYPow', 'ZZPow', 'CXPow', 'SwapPow'):
            for e in (1.0, 0.5, -0.25, 0.3217):
                out.append(edge_case(dict(k='ctl', nc=1, how=how, sub=eig(fam, e), w=[2, 0, 1])))
    return out


def gen_edge_case(rng):
    e, win = draw_exp(rng)
    r = rng.random()
    if r < 0.3:
        op = dict(k='eig', fam=rng.choice(EDGE_2Q), e=e, s=gates.draw_shift(rng) if rng.random() < 0.3 else 0.0, w=rng.sample(range(3), 2))
    elif r < 0.45:
        op = dict(k='eig', fam=rng.choice(EDGE_3Q), e=e, s=0.0, w=rng.sample(range(3), 3))
    else:
        nc = 1 if rng.random() < 0.8 else 2
        if rng.random() < 0.25:
            sub = dict(k='rot', fam=rng.choice(['Rx', 'Ry', 'Rz']), rads=gates.draw_angle(rng))
        elif nc == 1 and rng.random() < 0.2:
            sub = dict(k='eig', fam=rng.choice(['XXPow', 'YYPow', 'ZZPow', 'CXPow', 'SwapPow']), e=e, s=0.0)
        else:
            sub = dict(k='eig', fam=rng.choice(['XPow', 'YPow', 'ZPow', 'HPow']), e=e, s=gates.draw_shift(rng) if rng.random() < 0.2 else 0.0)
        k = nc + (2 if sub.get('fam') in TWO_Q else 1)
        op = dict(k='ctl', nc=nc, how=rng.choice(['method', 'class']), sub=sub, w=rng.sample(range(3), k))
    return edge_case(op, win)


def ionq_edge_stream(ctx, cirq, mods, checks, dchecks, n_random):
    stream = 'ionq_edge'
    rng = ctx.rng
    cases = edge_fixed_cases() + [gen_edge_case(rng) for _ in range(n_random)]
    outcomes = ctx.cov.setdefault('ionq_edge_outcomes', {})
    for case in cases:
        rep = dict(kind='ionq_payload', case=case)
        edge = case['ops'][-1]
        try:
            prog = serialize_case(cirq, mods, case)
            outcome = 'accepted'
        except Exception as e:
            prog, outcome = None, type(e).__name__
        ctx.count(stream, case, True, sample=dict(op=edge, outcome=outcome, payload=prog.input['circuit'][-1:] if prog else None))
        sig = op_signature(edge)
        outcomes.setdefault(sig, {}).setdefault(outcome, 0)
        outcomes[sig][outcome] += 1
        if prog is None:
            continue                                     # refused: nothing was altered
        inp = prog.input
        head_ok = (set(inp) == {'gateset', 'qubits', 'circuit'} and inp['gateset'] == 'qis' and isinstance(inp['qubits'], int)
                   and num_qubits(case) <= inp['qubits'] <= 8)
        add_prog_checks(ctx, mods, checks, dchecks, stream, case, inp.get('circuit'), inp['qubits'] if head_ok else num_qubits(case), head_ok,
                        prog.metadata, rep, circuit_recs(cirq, mods, case))


def evaluate(ctx, cirq, mods, checks, SH=40):
    shards = []
    for s0 in range(0, len(checks), SH):
        part = checks[s0:s0 + SH]
        text = PRE + 'Definition checks : list bool := [\n' + ';\n'.join(c[1] for c in part) + '].\nEval vm_compute in failing (fun b => b) checks.\n'
        shards.append((f'c17_{ctx.seed}_{s0 // SH}', text))
    outs = coq.coq_eval_many(shards, workers=12)
    for si, out in enumerate(outs):
        for idx in coq.parse_nat_list(coq.parse_evals(out)[0]):
            stream, _, rep = checks[si * SH + idx]
            report(ctx, cirq, mods, stream, rep)


def payload_oracle(cirq, mods, rep):
    """Spec-level reading on the real code (numpy): (holds, smallest failing case or None)."""
    if rep['kind'] == 'ionq_many':
        cases = rep['cases']
        prog = mods['cirq_ionq'].Serializer().serialize_many_circuits([build_circuit(cirq, mods, c) for c in cases])
        idx = [rep['index']] if 'index' in rep else range(len(cases))
        for i in idx:
            c = cases[i]
            tolf = 1e-6 if c.get('window') else 2e-9
            if prog.input['qubits'] < max(num_qubits(x) for x in cases) or prog.input['gateset'] != c['gateset']:
                return False, c
            if np_ionq_disagrees(cirq, mods, dict(c, ops=c['ops'] + [dict(k='pad', w=[prog.input['qubits'] - 1])]),
                                 prog.input['circuits'][i]['circuit'], c['gateset'] == 'native', tolf):
                return False, c
        return True, None
    case = rep['case']
    native = case['gateset'] == 'native'
    tolf = 1e-6 if case.get('window') else 2e-9
    prog = serialize_case(cirq, mods, case)
    if prog.input.get('qubits') < num_qubits(case) or prog.input.get('gateset') != case['gateset']:
        return False, case
    if np_ionq_disagrees(cirq, mods, case, prog.input['circuit'], native, tolf):
        return False, shrink_ionq(cirq, mods, case, native, tolf)
    return True, None


def report(ctx, cirq, mods, stream, rep):
    """A case on which the model evaluated inside Coq disagrees: decide on the real code whether the property fails."""
    if rep['kind'] == 'aqt_payload':
        return report_aqt(ctx, cirq, mods, rep)
    try:
        holds, small = payload_oracle(cirq, mods, rep)
    except Exception as e:
        ctx.mark_broken(f'correspondence:{stream}', f'oracle failed: {type(e).__name__}: {e}')
        return
    if holds:
        ctx.mark_broken(f'correspondence:{stream}', 'the payload differs from the model (header fields, per-circuit metadata / qubit numbers, or the '
                        f'Coq and numpy readings of the vendor semantics disagree) although its unitary is the circuit\'s: {json.dumps(rep)[:500]}')
        return
    sig = f'{stream}:' + '+'.join(op_signature(o) for o in small['ops'][:2])
    try:
        shown = json.dumps(serialize_case(cirq, mods, small).input)[:300]
    except Exception as e:
        shown = f'{type(e).__name__}'
    try:
        circ = (' = ' + ' '.join(repr(build_circuit(cirq, mods, small)).split()))[:300]
    except Exception:
        circ = ''
    _disagree(ctx, f'correspondence:{stream}', f'payload means another unitary: {small["ops"]}', sig,
                 f'IonQ payload {shown} interpreted by the vendor gate definitions is not the unitary (up to global phase) '
                 f'of the circuit {small["ops"]}{circ}', dict(kind='ionq_payload', case=small))


def report_aqt(ctx, cirq, mods, rep):
    try:
        holds = aqt_oracle(cirq, mods, rep)
    except Exception as e:
        ctx.mark_broken('correspondence:aqt_payload', f'oracle failed: {type(e).__name__}: {e}')
        return
    if holds:
        ctx.mark_broken('correspondence:aqt_payload', f'Coq model and numpy reading of the AQT semantics disagree on {json.dumps(rep)[:600]}')
        return
    case = rep['case']
    small = case
    for o, st in zip(case['ops'], case['strat']):
        sub = dict(kind='aqt_payload', case=dict(case, ops=[o], strat=[st]))
        try:
            if not aqt_oracle(cirq, mods, sub):
                small = sub['case']
                break
        except Exception:
            pass
    _disagree(ctx, 'correspondence:aqt_payload', f'{small["ops"]}', 'aqt_payload:' + '+'.join(o['fam'] for o in small['ops'][:2]),
                 f'AQT operation list {aqt_payload(cirq, mods, small)[0][:300]} read by AQT\'s gate definitions is not the unitary (up to '
                 f'global phase) of the circuit {small["ops"]}', dict(kind='aqt_payload', case=small))


# ---------------------------------------------------------------------------------------------------
# measurement metadata: keys -> targets through the codec model (exact, vm_compute)
# ---------------------------------------------------------------------------------------------------
def cps(s):
    return '[' + '; '.join(str(ord(c)) for c in s) + ']'


def recs_term(recs):
    """[(key string, [targets])] -> Gallina list record"""
    return '[' + '; '.join(f'({cps(k)}, [{"; ".join(str(int(t)) for t in ts)}]%N)' for k, ts in recs) + ']'


def meta_chunks(md):
    """metadata dict of one circuit -> the measurementN values in order (the dict may hold nothing else)."""
    vals = []
    for i, (k, v) in enumerate(md.items()):
        if k != f'measurement{i}' or not isinstance(v, str):
            raise Unrecognised(f'metadata entry {k!r}: {v!r}')
        vals.append(v)
    return vals


def chunks_term(vals):
    return '[' + '; '.join(cps(v) for v in vals) + ']'


def fake_job(mods, metadata, nq=1, target='qpu', shots=1):
    md = dict(metadata)
    md['shots'] = str(shots)
    return mods['cirq_ionq'].Job(client=None, job_dict={'id': 'j', 'status': 'completed', 'backend': target, 'metadata': md,
                                                        'stats': {'qubits': str(nq)}})


def impl_measurement_dict(mods, metadata, circuit_index=0):
    try:
        d = fake_job(mods, metadata).measurement_dict(circuit_index=circuit_index)
    except Exception as e:
        return None
    return [(k, list(v)) for k, v in d.items()]


def meta_exprs(mods, recs, serialized, size=40):
    """recs: what the circuit measures; serialized: metadata dict of the real serializer, or the exception it raised.
    Returns (expr comparing the serializer with the model, expr comparing job.measurement_dict with the model, parsed dict)."""
    if isinstance(serialized, Exception):
        msg = str(serialized)
        impl = 'SerBadKey' if 'separator' in msg else 'SerTooLong' if 'too long' in msg else None
        if impl is None or not isinstance(serialized, ValueError):
            raise Unrecognised(f'{type(serialized).__name__}: {msg}')
        return f'ser_eqb (serialize_measurements {size} {recs_term(recs)}) {impl}', None, None
    vals = meta_chunks(serialized)
    e1 = f'ser_eqb (serialize_measurements {size} {recs_term(recs)}) (SerOk {chunks_term(vals)})'
    parsed = impl_measurement_dict(mods, serialized)
    pt = 'None' if parsed is None else f'(Some {recs_term(parsed)})'
    e2 = f'orecords_eqb (measurement_dict {chunks_term(vals)}) {pt}'
    return e1, e2, parsed


def gen_records(rng):
    """Measurement layouts: 1..6 keys over disjoint targets with indices up to 40, short / long / odd keys."""
    n = rng.randint(1, 6)
    top = rng.choice([3, 6, 12, 41])
    pool = list(range(top))
    rng.shuffle(pool)
    recs, keys = [], set()
    mode = rng.random()
    for i in range(n):
        if not pool:
            break
        k = rng.randint(1, min(len(pool), rng.choice([1, 2, 3, 6])))
        ts, pool = pool[:k], pool[k:]
        key = draw_key(rng, long=(mode < 0.35 and i == 0) or mode > 0.9)
        r = rng.random()
        if r < 0.04:
            key = key[:2] + chr(31) + key[2:]
        elif r < 0.08:
            key = key + chr(30)
        if key in keys:
            continue
        keys.add(key)
        recs.append((key, ts))
    return recs


def metadata_stream(ctx, cirq, mods, dchecks, n):
    rng = ctx.rng
    ser = mods['cirq_ionq'].Serializer()
    for _ in range(n):
        recs = gen_records(rng)
        circuit = cirq.Circuit(cirq.measure(*[cirq.LineQubit(t) for t in ts], key=k) for k, ts in recs)
        try:
            out = ser.serialize_single_circuit(circuit).metadata
        except Exception as e:
            out = e
        total = len(chr(30).join(k + chr(31) + ','.join(map(str, ts)) for k, ts in recs))
        ctx.count('ionq_metadata', [[k, ts] for k, ts in recs], len(recs) >= 2 or total > 40,
                  sample=dict(records=recs, metadata=repr(out)[:300]))
        add_meta_checks(ctx, mods, dchecks, 'ionq_metadata', recs, out, dict(kind='ionq_metadata', records=[[k, ts] for k, ts in recs]))


def add_meta_checks(ctx, mods, dchecks, stream, recs, out, rep):
    try:
        e1, e2, parsed = meta_exprs(mods, recs, out)
    except Unrecognised as e:
        ctx.mark_broken(f'correspondence:{stream}', f'metadata not covered by the model: {e}')
        return
    dchecks.append((stream, e1, rep, 'serialize'))
    if e2 is not None:
        dchecks.append((stream, e2, rep, 'parse'))
        # spec-level oracle on the real code: what comes back is what the circuit measures
        if parsed != [(k, list(ts)) for k, ts in recs] and len({k for k, _ in recs}) == len(recs):
            _disagree(ctx, f'correspondence:{stream}', f'{recs} -> {parsed}', f'{stream}:roundtrip',
                         f'measurement keys/targets {recs} come back from the job metadata as {parsed}', rep)


def evaluate_discrete(ctx, cirq, mods, dchecks, SH=150):
    shards = []
    for s0 in range(0, len(dchecks), SH):
        part = dchecks[s0:s0 + SH]
        text = PRE_D + 'Definition checks : list bool := [\n' + ';\n'.join(c[1] for c in part) + '].\nEval vm_compute in failing (fun b => b) checks.\n'
        shards.append((f'c17d_{ctx.seed}_{s0 // SH}', text))
    outs = coq.coq_eval_many(shards, workers=12)
    for si, out in enumerate(outs):
        for idx in coq.parse_nat_list(coq.parse_evals(out)[0]):
            stream, expr, rep, what = dchecks[si * SH + idx]
            report_discrete(ctx, cirq, mods, stream, rep, what)


def report_discrete(ctx, cirq, mods, stream, rep, what):
    """The model and the implementation disagree on a discrete observable: decide on the real code."""
    holds = None
    try:
        holds = replay_discrete(cirq, mods, rep)
    except Exception as e:
        ctx.mark_broken(f'correspondence:{stream}', f'{what}: oracle failed: {type(e).__name__}: {e}')
        return
    if holds:
        ctx.mark_broken(f'correspondence:{stream}', f'{what}: model differs from the code on {json.dumps(rep)[:400]} although the property holds there')
    else:
        _disagree(ctx, f'correspondence:{stream}', f'{what}: {json.dumps(rep)[:400]}', f'{stream}:{what}',
                     f'{stream}: {what} of {json.dumps(rep)[:300]} is not what the property requires', rep)


def replay_discrete(cirq, mods, rep):
    """Spec-level oracles written in Python, on the real code.  True iff the property holds on the case."""
    kind = rep['kind']
    if kind == 'ionq_metadata':
        recs = [(k, list(ts)) for k, ts in rep['records']]
        circuit = cirq.Circuit(cirq.measure(*[cirq.LineQubit(t) for t in ts], key=k) for k, ts in recs)
        try:
            md = mods['cirq_ionq'].Serializer().serialize_single_circuit(circuit).metadata
        except ValueError:
            full = chr(30).join(k + chr(31) + ','.join(map(str, ts)) for k, ts in recs)
            return any(chr(30) in k or chr(31) in k for k, _ in recs) or len(full) > 360      # a documented rejection
        vals = meta_chunks(md)
        if any(len(v) > 40 for v in vals) or len(vals) > 9:
            return False
        return impl_measurement_dict(mods, md) == recs
    if kind == 'ionq_results':
        return results_oracle(cirq, mods, rep)
    if kind == 'ionq_e2e':
        return e2e_oracle(cirq, mods, rep)
    if kind == 'ionq_batch_results':
        return batch_results_oracle(cirq, mods, rep)
    if kind == 'ionq_reject':
        return reject_oracle(cirq, mods, rep)
    if kind == 'aqt_payload':
        return aqt_oracle(cirq, mods, rep)
    if kind == 'aqt_results':
        return aqt_results_oracle(cirq, mods, rep)
    if kind == 'aqt_reject':
        return aqt_reject_oracle(cirq, mods, rep)
    if kind == 'pasqal':
        return pasqal_oracle(cirq, mods, rep)
    if kind == 'history':
        return history_oracle(cirq, mods, rep)
    if kind == 'aqt_meas':
        holds, outcome, detail = aqt_meas_oracle(cirq, mods, rep)
        print(f'AQT ({rep["entry"]}): {outcome}' + ('' if holds else f'; {detail}'))
        return holds
    raise KeyError(kind)


# ---------------------------------------------------------------------------------------------------
# results: vendor histograms (little-endian outcome integers) -> cirq.Result, through ionq.Job
# ---------------------------------------------------------------------------------------------------
class FakeClient:
    """Stands where cirq_ionq's HTTP client stands inside a Job: hands back a prepared histogram."""

    def __init__(self, hist):
        self.hist = hist

    def get_results(self, job_id, sharpen=None, extra_query_params=None):
        return self.hist

    def get_job(self, job_id):
        raise AssertionError('job is terminal')


class Picks:
    """Scripted randomness for SimulatorResult.to_cirq_result: records the weights, returns the scripted indices."""

    def __init__(self, picks):
        self.picks, self.p, self.a = picks, None, None

    def choice(self, a, p=None, size=None, replace=True):
        self.a, self.p = list(a), [float(x) for x in p]
        return np.array([self.picks[i % len(self.picks)] % len(self.a) for i in range(size)], dtype=int)


def gen_results_case(rng):
    n = rng.randint(1, 6)
    pool = list(range(n))
    rng.shuffle(pool)
    meas = []
    while pool and (not meas or rng.random() < 0.6):
        k = rng.randint(1, len(pool))
        ts, pool = pool[:k], pool[k:]
        meas.append([f'k{len(meas)}' if rng.random() < 0.7 else draw_key(rng) + str(len(meas)), ts])
    m = rng.randint(1, min(2 ** n, 6))
    outs = rng.sample(range(2 ** n), m)
    hist = [[o, rng.randint(1, 4)] for o in outs]
    target = rng.choice(['qpu', 'qpu.aria-1', 'simulator'])
    picks = [rng.randrange(m) for _ in range(rng.randint(1, 7))]
    return dict(kind='ionq_results', n=n, meas=meas, hist=hist, target=target, picks=picks)


def run_results_case(cirq, mods, rep):
    """Real serializer metadata -> Job -> results() -> to_cirq_result. Returns (result object, {key: rows}, Picks|None)."""
    n, meas, hist = rep['n'], rep['meas'], rep['hist']
    q = cirq.LineQubit
    circuit = cirq.Circuit([cirq.X(q(n - 1))] + [cirq.measure(*[q(t) for t in ts], key=k) for k, ts in meas])
    prog = mods['cirq_ionq'].Serializer().serialize_single_circuit(circuit)
    shots = sum(c for _, c in hist)
    md = dict(prog.metadata)
    md['shots'] = str(shots if rep['target'].startswith('qpu') else len(rep['picks']))
    job = mods['cirq_ionq'].Job(client=FakeClient({str(o): c / shots for o, c in hist}),
                                job_dict={'id': 'j', 'status': 'completed', 'backend': rep['target'], 'metadata': md,
                                          'stats': {'qubits': str(prog.input['qubits'])}})
    res = job.results()
    picks = None
    if rep['target'].startswith('qpu'):
        out = res.to_cirq_result()
    else:
        picks = Picks(rep['picks'])
        out = res.to_cirq_result(seed=picks)
    rows = {k: [[int(b) for b in row] for row in np.asarray(out.measurements[k])] for k, _ in meas}
    if set(out.measurements) != {k for k, _ in meas}:
        rows['<keys>'] = sorted(out.measurements)
    return res, rows, picks


def bits_of(o, ts):
    return [(o >> t) & 1 for t in ts]          # little-endian: qubit t is bit t of the vendor's outcome integer


def results_oracle(cirq, mods, rep):
    """The property on the real code: every outcome lands on the right key and qubit (any order of repetitions for the
    QPU, but the same order for all keys)."""
    res, rows, picks = run_results_case(cirq, mods, rep)
    meas, hist = rep['meas'], rep['hist']
    if '<keys>' in rows:
        return False
    joint = list(zip(*[[tuple(r) for r in rows[k]] for k, _ in meas]))
    if rep['target'].startswith('qpu'):
        want = []
        for o, c in hist:
            want += [tuple(tuple(bits_of(o, ts)) for _, ts in meas)] * c
        ok = sorted(joint) == sorted(want)
        for k, ts in meas:
            cnt = {}
            for o, c in hist:
                v = int(''.join(map(str, bits_of(o, ts))), 2)
                cnt[v] = cnt.get(v, 0) + c
            ok = ok and dict(res.counts(k)) == cnt
        return ok
    want = [tuple(tuple(bits_of(hist[i % len(hist)][0], ts)) for _, ts in meas) for i in (rep['picks'][j % len(rep['picks'])] for j in range(len(joint)))]
    shots = sum(c for _, c in hist)
    ok = joint == want and len(joint) == len(rep['picks']) and np.allclose(picks.p, [c / shots for _, c in hist], atol=1e-12)
    for k, ts in meas:
        pr = {}
        for o, c in hist:
            v = int(''.join(map(str, bits_of(o, ts))), 2)
            pr[v] = pr.get(v, 0) + c / shots
        got = res.probabilities(k)
        ok = ok and set(got) == set(pr) and all(abs(got[v] - pr[v]) < 1e-12 for v in pr)
    return ok


def results_stream(ctx, cirq, mods, dchecks, n):
    rng = ctx.rng
    for _ in range(n):
        rep = gen_results_case(rng)
        try:
            res, rows, picks = run_results_case(cirq, mods, rep)
        except Exception as e:
            _disagree(ctx, 'correspondence:ionq_results', f'{type(e).__name__}: {e}', f'ionq_results:raises:{type(e).__name__}',
                         f'converting the histogram {rep["hist"]} for {rep["meas"]} raised {type(e).__name__}: {e}', rep)
            continue
        ctx.count('ionq_results', rep, rep['n'] >= 2 and len(rep['hist']) >= 2,
                  sample=dict(case=rep, rows={k: v[:3] for k, v in rows.items()}))
        if '<keys>' in rows:
            _disagree(ctx, 'correspondence:ionq_results', f'keys {rows["<keys>"]}', 'ionq_results:keys',
                         f'result keys {rows["<keys>"]} are not the measured keys {rep["meas"]}', rep)
            continue
        for k, ts in rep['meas']:
            tl = f'[{"; ".join(map(str, ts))}]%N'
            impl = '(Some [' + '; '.join('[' + '; '.join(map(str, r)) + ']' for r in rows[k]) + '])'
            if rep['target'].startswith('qpu'):
                hl = '[' + '; '.join(f'({o}, {c}%nat)' for o, c in rep['hist']) + ']'
                expr = f'orows_eqb (qpu_rows {rep["n"]} {tl} {hl}) {impl}'
            else:
                ol = '[' + '; '.join(str(o) for o, _ in rep['hist']) + ']'
                pk = '[' + '; '.join(str(rep['picks'][j % len(rep['picks'])]) for j in range(len(rep['picks']))) + ']%nat'
                expr = f'orows_eqb (sim_rows {rep["n"]} {tl} {ol} {pk}) {impl}'
            dchecks.append(('ionq_results', expr, rep, 'rows'))
        # the Python reading of the statement is checked on every case as well (counts / probabilities views are only compared here)
        if not results_oracle(cirq, mods, rep):
            _disagree(ctx, 'correspondence:ionq_results', json.dumps(rep)[:300], 'ionq_results:oracle',
                         f'histogram {rep["hist"]} (little-endian) for measurements {rep["meas"]} on target {rep["target"]} is not '
                         f'assigned to the right keys/qubits: {rows}', rep)


# ---------------------------------------------------------------------------------------------------
# end to end through cirq_ionq.Service with the HTTP layer replaced by a vendor that follows the documented definitions
# ---------------------------------------------------------------------------------------------------
class _Resp:
    ok, status_code, reason = True, 200, 'OK'

    def __init__(self, data):
        self._data = data

    def json(self):
        return self._data


class FakeVendor:
    """Answers cirq_ionq's HTTP requests: stores the posted job, interprets its program by the documented gate definitions
    starting from |0...0>, and returns the outcome probabilities keyed by LITTLE-endian integers (qubit k = bit k)."""

    def __init__(self, ids=None):
        self.body = None
        self.ids = ids          # the names the service hands out for the children of a batch (opaque; None: c0, c1, ...)

    def post(self, url, json=None, headers=None, **kw):
        import json as J
        self.body = J.loads(J.dumps(json))            # what goes over the wire must be JSON
        return _Resp({'id': 'job-1', 'status': 'ready'})

    def child_id(self, i):
        return self.ids[i] if self.ids else f'c{i}'

    def histogram(self, ops, n, native):
        u = np_prog_unitary([np_ionq_gate(op, native) for op in ops], n)
        psi = u[:, 0]
        hist = {}
        for j, a in enumerate(psi):
            p = abs(a) ** 2
            if p > 1e-12:
                le = sum(((j >> (n - 1 - k)) & 1) << k for k in range(n))
                hist[str(le)] = float(p)
        return hist

    def get(self, url, params=None, headers=None, **kw):
        b = self.body
        inp = b['input']
        native = inp['gateset'] == 'native'
        if url.endswith('/jobs/job-1'):
            return _Resp({'id': 'job-1', 'status': 'completed', 'backend': b['backend'], 'metadata': b['metadata'],
                          'stats': {'qubits': str(inp['qubits'])}})
        if '/results/probabilities' in url:
            if 'circuits' in inp:
                # one histogram per child circuit, in the order the circuits were submitted, each under the child's id
                return _Resp({self.child_id(i): self.histogram(c['circuit'], inp['qubits'], native) for i, c in enumerate(inp['circuits'])})
            return _Resp(self.histogram(inp['circuit'], inp['qubits'], native))
        raise AssertionError(url)


def classical_bits(case):
    n = num_qubits(case)
    bits = [0] * n
    for o in case['ops']:
        f, w = o['fam'], o['w']
        if f == 'XPow':
            bits[w[0]] ^= 1
        elif f == 'CXPow':
            bits[w[1]] ^= bits[w[0]]
        elif f == 'SwapPow':
            bits[w[0]], bits[w[1]] = bits[w[1]], bits[w[0]]
    return bits


def gen_classical_case(rng, max_q=5):
    top = rng.randint(1, max_q)
    wires = sorted(set([top - 1] + [w for w in range(top - 1) if rng.random() < 0.7]))
    ops = []
    for _ in range(rng.randint(1, 8)):
        f = rng.choice(['XPow', 'XPow', 'CXPow', 'SwapPow', 'ZPow'] if len(wires) >= 2 else ['XPow', 'ZPow'])
        e = rng.choice([1.0, 1.0, 3.0, -1.0])
        ops.append(dict(k='eig', fam=f, e=e, s=0.0, w=rng.sample(wires, 2 if f in ('CXPow', 'SwapPow') else 1)))
    meas = draw_meas(rng, wires)
    if not meas:
        meas = [dict(key='m', w=list(wires))]
    return dict(vendor='ionq', gateset='qis', ops=ops, strat=['E'] * len(ops), meas=meas, window=False)


def run_service(cirq, mods, circuits, target, reps, batch=False, via_sampler=False, ids=None):
    """Service.run / run_batch / Sampler over the fake vendor. Returns list of {key: rows}."""
    from unittest import mock
    ci = mods['cirq_ionq']
    import cirq_ionq.ionq_client as ic
    srv = FakeVendor(ids=ids)
    svc = ci.Service(remote_host='http://example.invalid', api_key='k', default_target=target)
    with mock.patch.object(ic.requests, 'post', srv.post), mock.patch.object(ic.requests, 'get', srv.get):
        if batch:
            res = svc.run_batch(circuits, repetitions=reps, target=target, seed=Picks([0]))
        elif via_sampler:
            res = svc.sampler(target=target, seed=Picks([0])).run_sweep(circuits[0], params=None, repetitions=reps)
        else:
            res = [svc.run(circuits[0], repetitions=reps, target=target, seed=Picks([0]))]
    return [{k: [[int(b) for b in row] for row in np.asarray(v)] for k, v in r.measurements.items()} for r in res], srv


def e2e_oracle(cirq, mods, rep):
    cases = rep['cases']
    circuits = [build_circuit(cirq, mods, c) for c in cases]
    got, _ = run_service(cirq, mods, circuits, rep['target'], rep['reps'], batch=rep['mode'] == 'batch', via_sampler=rep['mode'] == 'sampler',
                         ids=rep.get('ids'))
    if len(got) != len(cases):
        return False
    for c, g in zip(cases, got):
        bits = classical_bits(c)
        want = {m['key']: [[bits[w] ^ int(bool(m.get('invert', [0] * len(m['w']))[i])) for i, w in enumerate(m['w'])]] * rep['reps']
                for m in c['meas']}
        if g != want:
            return False
    return True


def e2e_stream(ctx, cirq, mods, n):
    rng = ctx.rng
    for _ in range(n):
        mode = rng.choice(['run', 'run', 'sampler', 'batch'])
        cases = [gen_classical_case(rng) for _ in range(rng.randint(2, 3) if mode == 'batch' else 1)]
        rep = dict(kind='ionq_e2e', cases=cases, target=rng.choice(['qpu', 'simulator']), reps=rng.randint(1, 3), mode=mode)
        ctx.count('ionq_e2e', rep, any(len(c['ops']) >= 2 for c in cases), sample=rep)
        try:
            ok = e2e_oracle(cirq, mods, rep)
        except Exception as e:
            _disagree(ctx, 'correspondence:ionq_e2e', f'{type(e).__name__}: {e}', f'ionq_e2e:raises:{type(e).__name__}',
                         f'running a classical circuit through cirq_ionq.Service raised {type(e).__name__}: {e}', rep)
            continue
        if not ok:
            _disagree(ctx, 'correspondence:ionq_e2e', json.dumps(rep)[:300], 'ionq_e2e:bits',
                         f'classical circuit {cases} run through Service.{mode} on a vendor following the documented definitions '
                         f'returns bits that are not the circuit\'s', rep)


# ---------------------------------------------------------------------------------------------------
# batch jobs: the vendor answers with one histogram per child circuit, in the order the circuits were submitted, each under the
# id the service handed out for that child.  The ids are opaque names (Vendor/IonQBatch.v: batch_qpu_ids_opaque); which ones a
# service hands out is nothing a client may lean on, so every batch is answered under several id schemes.  The result at
# position k must be the k-th histogram read with the width / keys / targets of the k-th submitted circuit.
# ---------------------------------------------------------------------------------------------------
ID_SCHEMES = ['ascending', 'descending', 'numeric', 'rotated', 'uuid4', 'uuid7_one_ms']


def child_ids(scheme, k, rng):
    """k distinct child ids in SUBMISSION order."""
    def uuid4():
        h = f'{rng.getrandbits(128):032x}'
        return f'{h[:8]}-{h[8:12]}-4{h[13:16]}-{"89ab"[rng.randrange(4)]}{h[17:20]}-{h[20:]}'

    def uuid7():          # time-ordered ids handed out within one millisecond: common 48-bit timestamp, random tail
        return f'0190070f-9691-7{rng.getrandbits(12):03x}-{"89ab"[rng.randrange(4)]}{rng.getrandbits(12):03x}-{rng.getrandbits(48):012x}'

    if scheme == 'ascending':
        return [f'c{i}' for i in range(k)]
    if scheme == 'descending':
        return [f'c{k - 1 - i}' for i in range(k)]
    if scheme == 'numeric':              # a counter: '9', '10', '11' count up, but '10' < '9' as text
        return [str(9 + i) for i in range(k)]
    if scheme == 'rotated':
        ids = [f'job-{i:03d}' for i in range(k)]
        return ids[1:] + ids[:1]
    while True:
        ids = [uuid4() if scheme == 'uuid4' else uuid7() for _ in range(k)]
        if len(set(ids)) == k:
            return ids


def _fixed_batches():
    """(name, children, reps): children differ in outcome, in layout (width, keys, targets, order) or only in the weights."""
    yield 'two circuits of one width, another qubit flipped', [
        dict(n=2, meas=[['a', [0, 1]]], hist=[[1, 1]], picks=[0]), dict(n=2, meas=[['b', [0, 1]]], hist=[[2, 1]], picks=[0])], 1
    yield 'three circuits of different widths and keys', [
        dict(n=3, meas=[['m', [2, 1, 0]]], hist=[[5, 2], [1, 1]], picks=[1, 0, 0]),
        dict(n=2, meas=[['lo', [0]], ['hi', [1]]], hist=[[2, 3]], picks=[0]),
        dict(n=1, meas=[['only', [0]]], hist=[[1, 3]], picks=[0])], 3
    yield 'four circuits of one layout, the excitation moves', [
        dict(n=4, meas=[['z', [0, 1, 2, 3]]], hist=[[1 << i, 1]], picks=[0]) for i in range(4)], 2
    yield 'two circuits that differ in the weights only', [
        dict(n=2, meas=[['w', [1, 0]]], hist=[[0, 1], [3, 3]], picks=[0, 1, 1, 1]),
        dict(n=2, meas=[['w', [1, 0]]], hist=[[0, 3], [3, 1]], picks=[0, 0, 0, 1])], 4


def batch_results_fixed_cases(rng):
    for name, children, reps in _fixed_batches():
        for scheme in ID_SCHEMES:
            for target in ('qpu', 'simulator'):
                yield dict(kind='ionq_batch_results', name=name, scheme=scheme, ids=child_ids(scheme, len(children), rng),
                           children=children, target=target, reps=reps)


def gen_batch_results_case(rng):
    k = rng.randint(1, 4)
    shots = rng.randint(1, 5)
    children = []
    for _ in range(k):
        c = gen_results_case(rng)
        m = rng.randint(1, min(2 ** c['n'], shots, 4))
        cuts = sorted(rng.sample(range(1, shots), m - 1))
        counts = [b - a for a, b in zip([0] + cuts, cuts + [shots])]
        hist = [[o, w] for o, w in zip(rng.sample(range(2 ** c['n']), m), counts)]
        children.append(dict(n=c['n'], meas=c['meas'], hist=hist, picks=[rng.randrange(m) for _ in range(rng.randint(1, 5))]))
    scheme = rng.choice(ID_SCHEMES)
    return dict(kind='ionq_batch_results', name='random', scheme=scheme, ids=child_ids(scheme, k, rng), children=children,
                target=rng.choice(['qpu', 'qpu.aria-1', 'simulator']), reps=rng.randint(1, 5))


def batch_circuits(cirq, children):
    q = cirq.LineQubit
    return [cirq.Circuit([cirq.X(q(c['n'] - 1))] + [cirq.measure(*[q(t) for t in ts], key=k) for k, ts in c['meas']]) for c in children]


def run_batch_results_case(cirq, mods, rep):
    """Real batch metadata -> Job -> results() -> to_cirq_result per child.  Returns [(result object, {key: rows}, Picks|None)]."""
    ch = rep['children']
    qpu = rep['target'].startswith('qpu')
    shots = sum(c for _, c in ch[0]['hist'])
    prog = mods['cirq_ionq'].Serializer().serialize_many_circuits(batch_circuits(cirq, ch))
    md = dict(prog.metadata)
    md['shots'] = str(shots if qpu else rep['reps'])
    answer = {rep['ids'][i]: {str(o): c / shots for o, c in child['hist']} for i, child in enumerate(ch)}
    answer = json.loads(json.dumps(answer))                 # what comes over the wire is JSON, children in submission order
    job = mods['cirq_ionq'].Job(client=FakeClient(answer),
                                job_dict={'id': 'j', 'status': 'completed', 'backend': rep['target'], 'metadata': md,
                                          'stats': {'qubits': str(prog.input['qubits'])}})
    res = job.results()
    outs = []
    for k, r in enumerate(res if isinstance(res, list) else [res]):
        pk = None
        if qpu:
            out = r.to_cirq_result()
        else:
            pk = Picks(ch[k]['picks'] if k < len(ch) else [0])
            out = r.to_cirq_result(seed=pk)
        outs.append((r, {key: [[int(b) for b in row] for row in np.asarray(v)] for key, v in out.measurements.items()}, pk))
    return outs


def child_expected(child, qpu, reps):
    """Rows per key the child must come back with (QPU: as a multiset of joint rows; simulator: in the order of the picks)."""
    meas, hist = child['meas'], child['hist']
    if qpu:
        joint = []
        for o, c in hist:
            joint += [tuple(tuple(bits_of(o, ts)) for _, ts in meas)] * c
        return sorted(joint)
    picks = [child['picks'][j % len(child['picks'])] for j in range(reps)]
    return [tuple(tuple(bits_of(hist[i % len(hist)][0], ts)) for _, ts in meas) for i in picks]


def child_ok(child, r, rows, pk, qpu, reps):
    """The statement for one child: every outcome on the right key and qubit, with the right weight."""
    meas, hist = child['meas'], child['hist']
    if list(rows) != [k for k, _ in meas] and set(rows) != {k for k, _ in meas}:
        return False
    joint = list(zip(*[[tuple(x) for x in rows[k]] for k, _ in meas]))
    shots = sum(c for _, c in hist)
    want = child_expected(child, qpu, reps)
    try:
        if qpu:
            ok = sorted(joint) == want
            for k, ts in meas:
                cnt = {}
                for o, c in hist:
                    v = int(''.join(map(str, bits_of(o, ts))), 2)
                    cnt[v] = cnt.get(v, 0) + c
                ok = ok and dict(r.counts(k)) == cnt
            return ok
        ok = joint == want and len(pk.p) == len(hist) and np.allclose(pk.p, [c / shots for _, c in hist], atol=1e-12)
        for k, ts in meas:
            pr = {}
            for o, c in hist:
                v = int(''.join(map(str, bits_of(o, ts))), 2)
                pr[v] = pr.get(v, 0) + c / shots
            got = r.probabilities(k)
            ok = ok and set(got) == set(pr) and all(abs(got[v] - pr[v]) < 1e-12 for v in pr)
        return bool(ok)
    except Exception:
        return False


def batch_results_judge(cirq, mods, rep, outs=None):
    """(holds, class, text) on the real code."""
    ch, qpu = rep['children'], rep['target'].startswith('qpu')
    try:
        outs = outs if outs is not None else run_batch_results_case(cirq, mods, rep)
    except Exception as e:
        return False, f'raises:{type(e).__name__}', f'raised {type(e).__name__}: {e}'
    if len(outs) != len(ch):
        return False, 'count', f'{len(outs)} results for {len(ch)} circuits'
    for k, (child, (r, rows, pk)) in enumerate(zip(ch, outs)):
        if child_ok(child, r, rows, pk, qpu, rep['reps']):
            continue
        other = [j for j in range(len(ch)) if j != k and child_ok(dict(child, hist=ch[j]['hist']), r, rows, pk, qpu, rep['reps'])]
        want = child_expected(child, qpu, rep['reps'])
        text = (f'the result at position {k} (circuit measuring {child["meas"]} on {child["n"]} qubit(s); the vendor answered '
                f'{dict((str(o), c) for o, c in child["hist"])} for it under id {rep["ids"][k]!r}, little-endian) comes back as {rows}'
                f'{"" if qpu else f" with weights {pk.p}"}; expected joint rows {[list(map(list, w)) for w in want[:4]]}'
                + (f'; these are the outcomes the vendor reported for the circuit at position {other[0]}' if other else ''))
        return False, 'other_child' if other else 'rows', text
    return True, 'holds', ''


def batch_results_oracle(cirq, mods, rep):
    holds, cls, text = batch_results_judge(cirq, mods, rep)
    print(f'IonQ batch results ({len(rep["children"])} circuits, target {rep["target"]}, child ids {rep["ids"]}): '
          + ('every position got its own outcomes' if holds else text))
    return holds


def shrink_batch_results(cirq, mods, rep):
    cur = rep
    changed = True
    while changed and len(cur['children']) > 2:
        changed = False
        for i in range(len(cur['children'])):
            cand = dict(cur, children=cur['children'][:i] + cur['children'][i + 1:], ids=cur['ids'][:i] + cur['ids'][i + 1:])
            if not batch_results_judge(cirq, mods, cand)[0]:
                cur, changed = cand, True
                break
    return cur


def report_batch_results(ctx, cirq, mods, rep):
    small = shrink_batch_results(cirq, mods, rep)
    holds, cls, text = batch_results_judge(cirq, mods, small)
    if holds:
        small, (holds, cls, text) = rep, batch_results_judge(cirq, mods, rep)
    _disagree(ctx, 'correspondence:ionq_batch_results', json.dumps(small)[:300], f'ionq_batch_results:{cls}',
              f'Job.results of a batch job of {len(small["children"])} circuits on target {small["target"]}, child ids in submission '
              f'order {small["ids"]} ({small["scheme"]}): {text}', small)


def batch_results_expr(rep, outs):
    """The implementation's rows against Vendor/IonQBatch.v, or None when the shapes do not even line up (left to the oracle)."""
    ch, qpu = rep['children'], rep['target'].startswith('qpu')
    if len(outs) != len(ch) or any(set(rows) != {k for k, _ in c['meas']} for c, (_, rows, _) in zip(ch, outs)):
        return None
    nl = lambda ts: '[' + '; '.join(map(str, ts)) + ']%N'
    metas = '[' + '; '.join(f'({c["n"]}%nat, [{"; ".join(nl(ts) for _, ts in c["meas"])}])' for c in ch) + ']'
    impl = '[' + '; '.join('[' + '; '.join('Some [' + '; '.join('[' + '; '.join(map(str, row)) + ']' for row in rows[k]) + ']'
                                             for k, _ in c['meas']) + ']' for c, (_, rows, _) in zip(ch, outs)) + ']'
    if qpu:
        ans = '[' + '; '.join(f'({cps(i)}, [{"; ".join(f"({o}, {w}%nat)" for o, w in c["hist"])}])' for i, c in zip(rep['ids'], ch)) + ']'
        return f'batch_eqb (batch_qpu {metas} {ans}) {impl}'
    ans = '[' + '; '.join(f'({cps(i)}, [{"; ".join(str(o) for o, _ in c["hist"])}])' for i, c in zip(rep['ids'], ch)) + ']'
    picks = '[' + '; '.join('[' + '; '.join(str(c['picks'][j % len(c['picks'])]) for j in range(rep['reps'])) + ']%nat' for c in ch) + ']'
    return f'batch_eqb (batch_sim {metas} {ans} {picks}) {impl}'


def batch_results_stream(ctx, cirq, mods, dchecks, n_random):
    rng = ctx.rng
    cases = list(batch_results_fixed_cases(rng)) + [gen_batch_results_case(rng) for _ in range(n_random)]
    for rep in cases:
        ch = rep['children']
        try:
            outs = run_batch_results_case(cirq, mods, rep)
        except Exception as e:
            _disagree(ctx, 'correspondence:ionq_batch_results', f'{type(e).__name__}: {e}', f'ionq_batch_results:raises:{type(e).__name__}',
                      f'converting the answer of a batch job ({len(ch)} circuits, child ids {rep["ids"]}) raised {type(e).__name__}: {e}', rep)
            continue
        ctx.count('ionq_batch_results', rep, len(ch) >= 2 and any(c['hist'] != ch[0]['hist'] or c['meas'] != ch[0]['meas'] for c in ch),
                  sample=dict(ids=rep['ids'], target=rep['target'], children=ch, rows=[rows for _, rows, _ in outs][:3]))
        expr = batch_results_expr(rep, outs)
        if expr is not None:
            dchecks.append(('ionq_batch_results', expr, rep, 'rows'))
        if not batch_results_judge(cirq, mods, rep, outs)[0]:
            report_batch_results(ctx, cirq, mods, rep)


# the same through Service.run_batch (create_batch_job + results) against the stand-in vendor, which interprets every child program
def _cl(fam, *w):
    return dict(k='eig', fam=fam, e=1.0, s=0.0, w=list(w))


def _cl_case(ops, meas):
    return dict(vendor='ionq', gateset='qis', ops=ops, strat=['E'] * len(ops), meas=[dict(key=k, w=w) for k, w in meas], window=False)


def e2e_batch_fixed_cases(rng):
    batches = [
        [_cl_case([_cl('XPow', 0)], [('a', [0, 1])]), _cl_case([_cl('XPow', 1)], [('b', [0, 1])])],
        [_cl_case([_cl('XPow', 0), _cl('CXPow', 0, 2)], [('m', [2, 1, 0])]), _cl_case([_cl('XPow', 1)], [('lo', [0]), ('hi', [1])]),
         _cl_case([_cl('XPow', 0)], [('only', [0])])],
        [_cl_case([_cl('XPow', i), _cl('SwapPow', i, (i + 1) % 4)], [('z', [0, 1, 2, 3])]) for i in range(4)],
    ]
    for cases in batches:
        for scheme in ID_SCHEMES:
            for target in ('qpu', 'simulator'):
                yield dict(kind='ionq_e2e', cases=cases, target=target, reps=2, mode='batch', scheme=scheme, ids=child_ids(scheme, len(cases), rng))


def e2e_first_wrong(cirq, mods, rep):
    cases = rep['cases']
    got, _ = run_service(cirq, mods, [build_circuit(cirq, mods, c) for c in cases], rep['target'], rep['reps'], batch=True, ids=rep.get('ids'))
    if len(got) != len(cases):
        return f'{len(got)} results for {len(cases)} circuits'
    for k, (c, g) in enumerate(zip(cases, got)):
        bits = classical_bits(c)
        want = {m['key']: [[bits[w] ^ int(bool(m.get('invert', [0] * len(m['w']))[i])) for i, w in enumerate(m['w'])]] * rep['reps']
                for m in c['meas']}
        if g != want:
            return (f'position {k}, circuit {[(o["fam"], o["w"]) for o in c["ops"]]} measuring {[(m["key"], m["w"]) for m in c["meas"]]}, '
                    f'must give {want} and comes back as {g}')
    return 'no position differs on a second run'


def e2e_batch_stream(ctx, cirq, mods, n_random):
    rng = ctx.rng
    reps_ = list(e2e_batch_fixed_cases(rng))
    for _ in range(n_random):
        cases = [gen_classical_case(rng) for _ in range(rng.randint(1, 4))]
        scheme = rng.choice(ID_SCHEMES)
        reps_.append(dict(kind='ionq_e2e', cases=cases, target=rng.choice(['qpu', 'simulator']), reps=rng.randint(1, 3), mode='batch',
                          scheme=scheme, ids=child_ids(scheme, len(cases), rng)))
    for rep in reps_:
        cases = rep['cases']
        ctx.count('ionq_e2e_batch', rep, len(cases) >= 2, sample=rep)
        try:
            ok = e2e_oracle(cirq, mods, rep)
        except Exception as e:
            _disagree(ctx, 'correspondence:ionq_e2e_batch', f'{type(e).__name__}: {e}', f'ionq_e2e_batch:raises:{type(e).__name__}',
                      f'running a batch of classical circuits through cirq_ionq.Service.run_batch raised {type(e).__name__}: {e}', rep)
            continue
        if not ok:
            where = e2e_first_wrong(cirq, mods, rep)
            _disagree(ctx, 'correspondence:ionq_e2e_batch', json.dumps(rep)[:300], 'ionq_e2e_batch:bits',
                      f'Service.run_batch of {len(cases)} classical circuits on target {rep["target"]}, the vendor (documented gate definitions) '
                      f'answering one histogram per child in submission order under the child ids {rep["ids"]} ({rep["scheme"]}): {where}', rep)


# ---------------------------------------------------------------------------------------------------
# unsupported content must be rejected (any exception), not altered
# ---------------------------------------------------------------------------------------------------
UNSUPPORTED_GATES = ['CZ', 'CZ**0.5', 'ISWAP', 'PhasedX', 'CCX', 'CCZ', 'CSWAP', 'H**e', 'CNOT**e', 'SWAP**e', 'Matrix1', 'Matrix2', 'FSim',
                     'GlobalPhase', 'Identity', 'ControlledZ', 'ControlledRx', 'QFT', 'Y**sym', 'rx(sym)', 'psp_sym', 'psp_negative_time',
                     'depolarize', 'amplitude_damp', 'reset', 'pauli_measure', 'qutrit_X', 'CircuitOperation', 'classically_controlled',
                     'tagged_CZ', 'XX**sym']
UNSUPPORTED_OTHER = ['grid_qubit', 'named_qubit', 'negative_line_qubit', 'empty_circuit', 'nonterminal_measurement', 'mixed_batch',
                     'key_with_unit_separator', 'key_with_record_separator', 'keys_too_long']
UNSUPPORTED_MEASURE = ['measure_invert_mask', 'measure_confusion_map', 'duplicate_measurement_key']


def unsupported_circuit(cirq, mods, name, arg):
    """(list of circuits, is_batch) for one named piece of content the IonQ API does not take."""
    import sympy
    q = cirq.LineQubit.range(4)
    a, b, c = q[arg['w'][0]], q[arg['w'][1]], q[arg['w'][2]]
    e = arg['e']
    t = sympy.Symbol('t')
    pre = [cirq.X(a), cirq.H(b)]
    m = {
        'CZ': lambda: cirq.CZ(a, b), 'CZ**0.5': lambda: (cirq.CZ ** e)(a, b), 'ISWAP': lambda: (cirq.ISWAP ** e)(a, b),
        'PhasedX': lambda: cirq.PhasedXPowGate(phase_exponent=0.3, exponent=e)(a), 'CCX': lambda: cirq.CCX(a, b, c),
        'CCZ': lambda: cirq.CCZ(a, b, c), 'CSWAP': lambda: cirq.CSWAP(a, b, c), 'H**e': lambda: (cirq.H ** e)(a),
        'CNOT**e': lambda: (cirq.CNOT ** e)(a, b), 'SWAP**e': lambda: (cirq.SWAP ** e)(a, b),
        'Matrix1': lambda: cirq.MatrixGate(np.array([[0, 1j], [1, 0]]))(a),
        'Matrix2': lambda: cirq.MatrixGate(np.diag([1, 1j, -1, 1]))(a, b), 'FSim': lambda: cirq.FSimGate(0.3, 0.2)(a, b),
        'GlobalPhase': lambda: cirq.global_phase_operation(1j), 'Identity': lambda: cirq.I(a),
        'ControlledZ': lambda: cirq.ControlledGate(cirq.Z ** e)(a, b), 'ControlledRx': lambda: cirq.ControlledGate(cirq.rx(0.3))(a, b),
        'QFT': lambda: cirq.qft(a, b), 'Y**sym': lambda: (cirq.Y ** t)(a), 'rx(sym)': lambda: cirq.rx(t)(a), 'XX**sym': lambda: (cirq.XX ** t)(a, b),
        'psp_sym': lambda: cirq.PauliStringPhasorGate(cirq.DensePauliString('XZ'), exponent_neg=t)(a, b),
        'psp_negative_time': lambda: cirq.PauliStringPhasorGate(cirq.DensePauliString('XZ'), exponent_neg=-abs(e) - 0.1, exponent_pos=0.2)(a, b),
        'depolarize': lambda: cirq.depolarize(0.1)(a), 'amplitude_damp': lambda: cirq.amplitude_damp(0.2)(a), 'reset': lambda: cirq.ResetChannel()(a),
        'pauli_measure': lambda: cirq.measure_single_paulistring(cirq.X(a) * cirq.Z(b), key='p'),
        'CircuitOperation': lambda: cirq.CircuitOperation(cirq.FrozenCircuit(cirq.X(a), cirq.CNOT(a, b))),
        'tagged_CZ': lambda: cirq.CZ(a, b).with_tags('tag'),
    }
    if name in m:
        return [cirq.Circuit(pre + [m[name]()])], False
    if name == 'qutrit_X':
        return [cirq.Circuit(cirq.XPowGate(dimension=3)(cirq.LineQid(0, 3)))], False
    if name == 'classically_controlled':
        return [cirq.Circuit(cirq.measure(a, key='k'), cirq.X(b).with_classical_controls('k'))], False
    if name == 'grid_qubit':
        return [cirq.Circuit(cirq.X(cirq.GridQubit(0, 1)))], False
    if name == 'named_qubit':
        return [cirq.Circuit(cirq.X(cirq.NamedQubit('a')), cirq.X(q[0]))], False
    if name == 'negative_line_qubit':
        return [cirq.Circuit(cirq.X(cirq.LineQubit(-1)), cirq.X(q[1]))], False
    if name == 'empty_circuit':
        return [cirq.Circuit()], False
    if name == 'nonterminal_measurement':
        return [cirq.Circuit(cirq.X(a), cirq.measure(a, key='k'), cirq.X(a))], False
    if name == 'mixed_batch':
        return [cirq.Circuit(cirq.X(a)), cirq.Circuit(mods['cirq_ionq'].GPIGate(phi=0.1)(a))], True
    if name == 'key_with_unit_separator':
        return [cirq.Circuit(cirq.X(a), cirq.measure(a, key='k' + chr(31) + 'x'))], False
    if name == 'key_with_record_separator':
        return [cirq.Circuit(cirq.X(a), cirq.measure(a, key=chr(30)))], False
    if name == 'keys_too_long':
        return [cirq.Circuit(cirq.measure(a, key='k' * 200), cirq.measure(b, key='j' * 200))], False
    if name == 'measure_invert_mask':
        return [cirq.Circuit(cirq.X(a), cirq.measure(a, b, key='k', invert_mask=(bool(arg['bits'][0]), bool(arg['bits'][1]) or not arg['bits'][0])))], False
    if name == 'measure_confusion_map':
        return [cirq.Circuit(cirq.X(a), cirq.measure(a, b, key='k', confusion_map={(arg['bits'][0],): np.array([[0.0, 1.0], [1.0, 0.0]])}))], False
    if name == 'duplicate_measurement_key':
        return [cirq.Circuit(cirq.X(a), cirq.measure(a, key='k'), cirq.measure(b, key='k'))], False
    raise KeyError(name)


def reject_oracle(cirq, mods, rep):
    """True iff the property holds: the content is rejected, or what is submitted still means the circuit."""
    circuits, batch = unsupported_circuit(cirq, mods, rep['name'], rep['arg'])
    ser = mods['cirq_ionq'].Serializer()
    try:
        prog = ser.serialize_many_circuits(circuits) if batch else ser.serialize_single_circuit(circuits[0])
    except Exception as e:
        rep['_outcome'] = type(e).__name__
        return True
    rep['_outcome'] = 'accepted'
    circuit = circuits[0]
    if batch or not all(isinstance(x, cirq.LineQubit) and x.x >= 0 for x in circuit.all_qubits()):
        return False
    if rep['name'] in UNSUPPORTED_MEASURE or cirq.is_measurement(circuit):
        # accepted: then running it must give what the circuit gives (deterministic circuits: compare with Cirq's own simulator)
        try:
            got, _ = run_service(cirq, mods, [circuit], 'qpu', 2)
        except Exception:
            return False
        want = cirq.Simulator().run(circuit, repetitions=2)
        if any(np.asarray(v).shape[1] != 1 for v in want.records.values()):
            return False                      # a key measured twice cannot be represented by what comes back
        return got[0] == {k: [[int(x) for x in row] for row in v] for k, v in want.measurements.items()}
    if not cirq.has_unitary(circuit) or cirq.is_parameterized(circuit):
        return False
    # accepted gate: the payload must still mean the circuit
    n = prog.input['qubits']
    qs = cirq.LineQubit.range(n)
    ref = cirq.unitary(cirq.Circuit(circuit.all_operations(), cirq.Moment(cirq.I(x) for x in qs)))
    got = np_prog_unitary([np_ionq_gate(op, prog.input['gateset'] == 'native') for op in prog.input['circuit']], n)
    return np_phase_dist(got, ref) < 1e-8


REJECT_EXPS = [0.5, 0.0, -0.5, 0.25, 2.0, 1 + 2e-8, 1 - 1.5e-8, 0.3217, 1.5]
REJECT_TAKES_EXP = ['CZ**0.5', 'ISWAP', 'PhasedX', 'H**e', 'CNOT**e', 'SWAP**e', 'ControlledZ', 'psp_negative_time']


def reject_shown(cirq, mods, rep):
    """The circuit and what was made of it, for the report line."""
    try:
        circuits, batch = unsupported_circuit(cirq, mods, rep['name'], rep['arg'])
        ser = mods['cirq_ionq'].Serializer()
        prog = ser.serialize_many_circuits(circuits) if batch else ser.serialize_single_circuit(circuits[0])
        return (': ' + ' '.join(repr(circuits[0]).split()))[:300] + f' -> {json.dumps(prog.input)}'[:300]
    except Exception:
        return ''


def reject_stream(ctx, cirq, mods, n_rounds):
    rng = ctx.rng
    todo = [(name, None) for name in (UNSUPPORTED_GATES + UNSUPPORTED_OTHER + UNSUPPORTED_MEASURE) * n_rounds]
    # every VERIF_SEED: each content that takes an exponent at every exponent of the list, on two wire layouts
    todo += [(name, dict(w=w, e=e, bits=[0, 1])) for name in REJECT_TAKES_EXP for e in REJECT_EXPS for w in ([0, 1, 2], [3, 1, 0])]
    for name, arg in todo:
        if arg is None:
            e = rng.choice(REJECT_EXPS)
            arg = dict(w=rng.sample(range(4), 3), e=e, bits=[rng.randrange(2), rng.randrange(2)])
        rep = dict(kind='ionq_reject', name=name, arg=arg)
        try:
            ok = reject_oracle(cirq, mods, rep)
        except Exception as ex:
            ctx.mark_broken('correspondence:ionq_reject', f'{name}: oracle failed: {type(ex).__name__}: {ex}')
            continue
        outcome = rep.pop('_outcome', '?')
        ctx.count('ionq_reject', [name, arg], True, sample=dict(name=name, arg=arg, outcome=outcome))
        ctx.cov.setdefault('ionq_reject_outcomes', {}).setdefault(name, outcome)
        if not ok:
            _disagree(ctx, 'correspondence:ionq_reject', f'{name} {arg}', f'ionq_reject:{name}',
                         f'unsupported content `{name}` ({arg}) is neither rejected by cirq_ionq.Serializer nor kept: what is submitted / '
                         f'returned differs from the circuit{reject_shown(cirq, mods, rep)}', rep)


# ---------------------------------------------------------------------------------------------------
# AQT: the operation list of AQTSampler._generate_json and the v1 payload of _parse_legacy_circuit_json
# ---------------------------------------------------------------------------------------------------
def gen_aqt_case(rng, max_q=4, gaps=False):
    n = rng.randint(1, max_q)
    wires = list(range(n))
    if gaps and n >= 2:
        wires = sorted(set([n - 1] + [w for w in range(n - 1) if rng.random() < 0.5]))
    ops = []
    for _ in range(rng.randint(1, 9)):
        fam = rng.choice(['ZPow', 'PhasedX', 'PhasedX', 'XXPow', 'MS'] if len(wires) >= 2 else ['ZPow', 'PhasedX'])
        e, _ = draw_exp(rng)
        sh = gates.draw_shift(rng) if rng.random() < 0.4 else 0.0
        sym = rng.random() < 0.15
        if fam == 'ZPow':
            ops.append(dict(fam=fam, e=e, s=sh, w=[rng.choice(wires)], sym=sym))
        elif fam == 'PhasedX':
            ops.append(dict(fam=fam, e=e, s=sh, p=gates.draw_exp(rng), w=[rng.choice(wires)], sym=sym))
        elif fam == 'XXPow':
            ops.append(dict(fam=fam, e=e, s=sh, w=rng.sample(wires, 2), sym=sym))
        else:
            ops.append(dict(fam='MS', rads=gates.draw_angle(rng), w=rng.sample(wires, 2), sym=False))
    return dict(vendor='aqt', ops=ops, strat=['N' if rng.random() < 0.2 else 'E' for _ in ops])


def aqt_circuit(cirq, case):
    """(circuit with symbols, resolver): some exponents are symbols resolved by the ParamResolver handed to _generate_json."""
    import sympy
    q = cirq.LineQubit
    c, res = cirq.Circuit(), {}
    for i, (o, st) in enumerate(zip(case['ops'], case['strat'])):
        f = o['fam']
        e = o.get('e')
        if o.get('sym'):
            res[f'a{i}'] = e
            e = sympy.Symbol(f'a{i}')
        if f == 'Meas':
            cm = {(int(k),): np.array(m, dtype=float) for k, m in (o.get('conf') or [])}
            g = cirq.MeasurementGate(len(o['w']), key=o['key'], invert_mask=tuple(bool(b) for b in o.get('inv') or ()), confusion_map=cm)
        elif f == 'ZPow':
            g = cirq.ZPowGate(exponent=e, global_shift=o['s'])
        elif f == 'PhasedX':
            g = cirq.PhasedXPowGate(phase_exponent=o['p'], exponent=e, global_shift=o['s'])
        elif f == 'XXPow':
            g = cirq.XXPowGate(exponent=e, global_shift=o['s'])
        elif f == 'MS':
            g = cirq.ms(o['rads'])
        else:
            g = {'XPow': cirq.XPowGate, 'YPow': cirq.YPowGate, 'HPow': cirq.HPowGate, 'CZPow': cirq.CZPowGate, 'CXPow': cirq.CXPowGate}[f](exponent=e)
        c.append(g.on(*[q(w) for w in o['w']]), strategy=cirq.InsertStrategy.NEW if st == 'N' else cirq.InsertStrategy.EARLIEST)
    return c, cirq.ParamResolver(res)


def aqt_ref_term(o):
    ax = gates.nlist(o['w'])
    f = o['fam']
    if f == 'MS':
        g = gates.G('MS', dict(rads=o['rads']), (2, 2))
    elif f == 'PhasedX':
        g = gates.G('PhasedX', dict(p=o['p'], e=o['e'], s=o['s']), (2,))
    else:
        g = gates.G(f, dict(e=o['e'], s=o['s']), (2,) * len(o['w']))
    return f'({g.coq()}, {ax})'


def aqt_units(e):
    return f'{gates.fc(unit(math.pi * e / 2))} {gates.fc(unit(-math.pi * e / 2))}'


def aqt_phase_units(p):
    return f'{gates.fc(unit(math.pi * p))} {gates.fc(unit(-math.pi * p))}'


def aqt_legacy_term(seq):
    """json.loads of the _generate_json string -> Gallina list aqt_legacy"""
    out = []
    for op in seq:
        if not isinstance(op, list) or not op or not isinstance(op[0], str):
            raise Unrecognised(f'legacy op {op!r}')
        name = op[0]
        if name in ('Z', 'MS') and len(op) == 3 and isinstance(op[2], list):
            out.append(f'({"LZ" if name == "Z" else "LMS"} {aqt_units(_num(op[1]))} {gates.nlist(_ints(op[2]))})')
        elif name == 'R' and len(op) == 4 and isinstance(op[3], list):
            out.append(f'(LR {aqt_units(_num(op[1]))} {aqt_phase_units(_num(op[2]))} {gates.nlist(_ints(op[3]))})')
        elif name == 'Meas':
            out.append('LMeas')
        else:
            out.append('LUnknown')
    return '[' + ';\n   '.join(out) + ']'


def aqt_v1_term(v1):
    out = []
    for op in v1:
        name, keys = op.get('operation'), set(op) - {'operation'}
        if name == 'RZ' and keys == {'qubit', 'phi'}:
            out.append(f'(VRZ {aqt_units(_num(op["phi"]))} {_ints([op["qubit"]])[0]}%nat)')
        elif name == 'R' and keys == {'qubit', 'theta', 'phi'}:
            out.append(f'(VR {aqt_units(_num(op["theta"]))} {aqt_phase_units(_num(op["phi"]))} {_ints([op["qubit"]])[0]}%nat)')
        elif name == 'RXX' and keys == {'qubits', 'theta'}:
            out.append(f'(VRXX {aqt_units(_num(op["theta"]))} {gates.nlist(_ints(op["qubits"]))})')
        elif name == 'MEASURE' and not keys:
            out.append('VMEASURE')
        else:
            raise Unrecognised(f'v1 op {op!r}')
    return '[' + ';\n   '.join(out) + ']'


def np_aqt_gate(op):
    """numpy reading of AQT's documented definitions for one v1 op -> (matrix, wires) or None for MEASURE"""
    X, Y = _P[1], _P[2]
    name = op['operation']
    if name == 'RZ':
        a = math.pi * op['phi'] / 2
        return np.diag([cmath.exp(-1j * a), cmath.exp(1j * a)]), [op['qubit']]
    if name == 'R':
        a, ph = math.pi * op['theta'] / 2, math.pi * op['phi']
        return math.cos(a) * np.eye(2) - 1j * math.sin(a) * (math.cos(ph) * X + math.sin(ph) * Y), [op['qubit']]
    if name == 'RXX':
        a = math.pi * op['theta'] / 2
        return math.cos(a) * np.eye(4) - 1j * math.sin(a) * np.kron(X, X), list(op['qubits'])
    if name == 'MEASURE':
        return None
    raise Unrecognised(name)


def aqt_payload(cirq, mods, case):
    circuit, res = aqt_circuit(cirq, case)
    sampler = mods['cirq_aqt'].AQTSampler('workspace', 'resource', 'token')
    js = sampler._generate_json(circuit=circuit, param_resolver=res)
    return js, sampler._parse_legacy_circuit_json(js)


def aqt_oracle(cirq, mods, rep):
    case = rep['case']
    n = 1 + max(w for o in case['ops'] for w in o['w'])
    js, v1 = aqt_payload(cirq, mods, case)
    if not v1 or v1[-1] != {'operation': 'MEASURE'} or sum(op['operation'] == 'MEASURE' for op in v1) != 1:
        return False
    circuit, res = aqt_circuit(cirq, case)
    ref = cirq.unitary(cirq.Circuit(cirq.resolve_parameters(circuit, res).all_operations(), cirq.Moment(cirq.I(q) for q in cirq.LineQubit.range(n))))
    got = np_prog_unitary([np_aqt_gate(op) for op in v1[:-1]], n)
    legacy = json.loads(js)
    got2 = np_prog_unitary([np_aqt_gate(dict(operation='RZ', phi=o[1], qubit=o[2][0]) if o[0] == 'Z' else
                                        dict(operation='R', theta=o[1], phi=o[2], qubit=o[3][0]) if o[0] == 'R' else
                                        dict(operation='RXX', theta=o[1], qubits=o[2])) for o in legacy], n)
    return np_phase_dist(got, ref) < 1e-6 and np_phase_dist(got2, ref) < 1e-6


def aqt_payload_stream(ctx, cirq, mods, checks, n):
    rng = ctx.rng
    for _ in range(n):
        case = gen_aqt_case(rng, gaps=rng.random() < 0.3)
        rep = dict(kind='aqt_payload', case=case)
        try:
            js, v1 = aqt_payload(cirq, mods, case)
        except Exception as e:
            _disagree(ctx, 'correspondence:aqt_payload', f'{type(e).__name__}: {e}', f'aqt_payload:raises:{type(e).__name__}',
                         f'AQTSampler._generate_json / _parse_legacy_circuit_json raised {type(e).__name__}: {e} on a circuit over the accepted vocabulary', rep)
            continue
        nq = 1 + max(w for o in case['ops'] for w in o['w'])
        ops = case['ops']
        share = any(set(a['w']) & set(b['w']) for i, a in enumerate(ops) for b in ops[i + 1:])
        ctx.count('aqt_payload', case, share and any(o['fam'] != 'ZPow' for o in ops), sample=dict(ops=ops[:4], json=js[:300], v1=v1[:4]))
        try:
            leg, v1t = aqt_legacy_term(json.loads(js)), aqt_v1_term(v1)
        except Unrecognised as e:
            ctx.mark_broken('correspondence:aqt_payload', f'payload shape not covered by the model: {e}')
            continue
        win = any(abs((o.get('e', 0.3) - t + 1) % 2 - 1) < 1e-7 and o.get('e') not in (1.0, 0.5, -0.5, 0.25, -0.25) for o in ops for t in SPECIALS)
        ref = '[' + ';\n   '.join(aqt_ref_term(o) for o in ops) + ']'
        expr = (f'let ref := circ_unitary FOps (repeat 2%nat {nq}) {ref} in\n'
                f' match aqt_legacy_unitary FOps {nq} {leg}, aqt_v1_unitary FOps {nq} {v1t} with\n'
                f' | Some a, Some b => fcll_close_phase {TOL} a ref && fcll_close_phase {TOL} b ref\n | _, _ => false end')
        checks.append(('aqt_payload', expr, rep))


# ---- AQT results: the remote path with the HTTP layer replaced, and the local simulator ----
class FakeAQT:
    """The vendor behind AQTSampler._send_json: keeps the submitted job; answers with `samples` if given, else with the
    (deterministic) outcome of the submitted v1 circuit under the documented definitions, one bit per qubit in index order."""

    def __init__(self, samples=None):
        self.samples, self.sub = samples, None

    def post(self, url, json=None, headers=None, **kw):
        import json as J
        self.sub = J.loads(J.dumps(json))
        return _Resp({'job': {'job_id': 'job-7'}, 'response': {'status': 'queued'}})

    def get(self, url, headers=None, **kw):
        c = self.sub['payload']['circuits'][0]
        n, reps = c['number_of_qubits'], c['repetitions']
        if self.samples is not None:
            rows = self.samples
        else:
            qc = c['quantum_circuit']
            assert qc[-1] == {'operation': 'MEASURE'}
            psi = np_prog_unitary([np_aqt_gate(op) for op in qc[:-1]], n)[:, 0]
            j = int(np.argmax(np.abs(psi)))
            assert abs(abs(psi[j]) - 1) < 1e-9, 'not a classical circuit'
            rows = [[(j >> (n - 1 - k)) & 1 for k in range(n)]] * reps
        return _Resp({'job': {'job_id': 'job-7'}, 'response': {'status': 'finished', 'result': {'0': rows}}})


def gen_aqt_classical(rng):
    n = rng.randint(1, 5)
    ops = []
    for _ in range(rng.randint(n, n + 6)):
        f = rng.choice(['PhasedX', 'PhasedX', 'ZPow', 'XXPow'] if n >= 2 else ['PhasedX', 'ZPow'])
        if f == 'PhasedX':
            ops.append(dict(fam=f, e=rng.choice([1.0, 1.0, 3.0, -1.0]), s=0.0, p=gates.draw_exp(rng), w=[rng.randrange(n)], sym=False))
        elif f == 'ZPow':
            ops.append(dict(fam=f, e=gates.draw_exp(rng), s=0.0, w=[rng.randrange(n)], sym=False))
        else:
            ops.append(dict(fam=f, e=rng.choice([1.0, -1.0, 3.0]), s=0.0, w=rng.sample(range(n), 2), sym=False))
    # every qubit 0..n-1 must occur: the sampler sizes the register by the number of qubits in the circuit
    for w in range(n):
        if not any(w in o['w'] for o in ops):
            ops.append(dict(fam='ZPow', e=0.5, s=0.0, w=[w], sym=False))
    return dict(vendor='aqt', ops=ops, strat=['E'] * len(ops))


def aqt_results_run(cirq, mods, rep):
    from unittest import mock
    import cirq_aqt.aqt_sampler as am
    case = rep['case']
    circuit, res = aqt_circuit(cirq, case)
    if rep['mode'] == 'local':
        out = mods['cirq_aqt'].AQTSamplerLocalSimulator(simulate_ideal=True).run_sweep(circuit, params=res, repetitions=rep['reps'])
    else:
        srv = FakeAQT(rep.get('samples'))
        with mock.patch.object(am, 'post', srv.post), mock.patch.object(am, 'get', srv.get), mock.patch.object(am.time, 'sleep', lambda s: None):
            out = mods['cirq_aqt'].AQTSampler('workspace', 'resource', 'token').run_sweep(circuit, params=res, repetitions=rep['reps'])
    assert len(out) == 1
    return {k: [[int(b) for b in row] for row in np.asarray(v)] for k, v in out[0].measurements.items()}


def aqt_results_oracle(cirq, mods, rep):
    case = rep['case']
    n = 1 + max(w for o in case['ops'] for w in o['w'])
    got = aqt_results_run(cirq, mods, rep)
    if rep.get('samples') is not None:
        want = rep['samples']
    else:
        bits = [0] * n
        for o in case['ops']:
            if o['fam'] in ('PhasedX', 'XXPow'):
                for w in o['w']:
                    bits[w] ^= 1
        want = [bits] * rep['reps']
    return got == {'m': want}


def aqt_results_stream(ctx, cirq, mods, n):
    rng = ctx.rng
    for _ in range(n):
        case = gen_aqt_classical(rng)
        nq = 1 + max(w for o in case['ops'] for w in o['w'])
        mode = rng.choice(['remote', 'remote', 'local'])
        reps = rng.randint(1, 4)
        rep = dict(kind='aqt_results', case=case, mode=mode, reps=reps)
        if mode == 'remote' and rng.random() < 0.5:
            rep['samples'] = [[rng.randrange(2) for _ in range(nq)] for _ in range(reps)]
        ctx.count('aqt_results', rep, nq >= 2, sample=rep)
        try:
            ok = aqt_results_oracle(cirq, mods, rep)
        except Exception as e:
            _disagree(ctx, 'correspondence:aqt_results', f'{type(e).__name__}: {e}', f'aqt_results:raises:{type(e).__name__}',
                         f'running a classical circuit through the AQT sampler ({mode}) raised {type(e).__name__}: {e}', rep)
            continue
        if not ok:
            _disagree(ctx, 'correspondence:aqt_results', json.dumps(rep)[:300], f'aqt_results:{mode}',
                         f'AQT samples are not assigned to key m / the qubits in index order ({mode}): {json.dumps(rep)[:300]}', rep)


AQT_UNSUPPORTED = ['XPow', 'YPow', 'HPow', 'CZPow', 'CXPow', 'measurement', 'grid_qubit', 'named_qubit', 'empty_circuit',
                   'unresolved_symbol', 'classically_controlled', 'circuit_operation', 'depolarize', 'gapped_qubits_local',
                   'qutrit_Z', 'negative_line_qubit']


def aqt_reject_oracle(cirq, mods, rep):
    import sympy
    name, e = rep['name'], rep['e']
    q = cirq.LineQubit.range(3)
    run_local = False
    if name in ('XPow', 'YPow', 'HPow', 'CZPow', 'CXPow'):
        g = {'XPow': cirq.XPowGate, 'YPow': cirq.YPowGate, 'HPow': cirq.HPowGate, 'CZPow': cirq.CZPowGate, 'CXPow': cirq.CXPowGate}[name](exponent=e)
        circuit = cirq.Circuit(cirq.Z(q[0]) ** 0.5, g.on(*q[:cirq.num_qubits(g)]))
    elif name == 'measurement':
        circuit = cirq.Circuit(cirq.Z(q[0]) ** e, cirq.measure(q[0], key='m'))
    elif name == 'grid_qubit':
        circuit = cirq.Circuit((cirq.Z ** e)(cirq.GridQubit(0, 1)))
    elif name == 'named_qubit':
        circuit = cirq.Circuit((cirq.Z ** e)(cirq.NamedQubit('a')))
    elif name == 'empty_circuit':
        circuit = cirq.Circuit()
    elif name == 'unresolved_symbol':
        circuit = cirq.Circuit((cirq.Z ** sympy.Symbol('t'))(q[0]))
    elif name == 'classically_controlled':
        circuit = cirq.Circuit((cirq.Z ** e)(q[0]).with_classical_controls('k'))
    elif name == 'circuit_operation':
        circuit = cirq.Circuit(cirq.CircuitOperation(cirq.FrozenCircuit((cirq.Z ** e)(q[0]))))
    elif name == 'depolarize':
        circuit = cirq.Circuit(cirq.depolarize(0.1)(q[0]))
    elif name == 'gapped_qubits_local':
        circuit = cirq.Circuit(cirq.PhasedXPowGate(phase_exponent=0.0)(q[0]), cirq.PhasedXPowGate(phase_exponent=0.0)(q[2]))
        run_local = True
    elif name == 'qutrit_Z':
        circuit = cirq.Circuit(cirq.ZPowGate(exponent=e, dimension=3)(cirq.LineQid(0, dimension=3)))
    elif name == 'negative_line_qubit':
        circuit = cirq.Circuit((cirq.Z ** e)(cirq.LineQubit(-1)), cirq.PhasedXPowGate(phase_exponent=0.0)(q[0]))
    else:
        raise KeyError(name)
    sampler = mods['cirq_aqt'].AQTSampler('workspace', 'resource', 'token')
    try:
        if run_local:
            out = mods['cirq_aqt'].AQTSamplerLocalSimulator(simulate_ideal=True).run_sweep(circuit, params=None, repetitions=1)
            rep['_outcome'] = 'accepted'
            return [[int(b) for b in row] for row in out[0].measurements['m']] == [[1, 0, 1]]
        js = sampler._generate_json(circuit=circuit, param_resolver=cirq.ParamResolver({}))
        v1 = sampler._parse_legacy_circuit_json(js)
    except Exception as ex:
        rep['_outcome'] = type(ex).__name__
        return True
    rep['_outcome'] = 'accepted'
    # accepted: the payload must still mean the circuit, on qubits it can name
    qs = sorted(circuit.all_qubits())
    if not all(isinstance(x, cirq.LineQubit) and x.x >= 0 for x in qs):
        return False
    n = qs[-1].x + 1
    if any(isinstance(op.gate, cirq.MeasurementGate) for op in circuit.all_operations()):
        # the job (gates, then all qubits read out under 'm') must have the distribution of the circuit's own records
        if [x.x for x in qs] != list(range(n)):
            return False
        try:
            got = {_res_key({'m': row}): p for row, p in aqt_job_dist(v1, n).items()}
        except Unrecognised:
            return False
        return _tv(got, circuit_record_dist(cirq, circuit, n)) <= 1e-6
    if not cirq.has_unitary(circuit):
        return False
    ref = cirq.unitary(cirq.Circuit(circuit.all_operations(), cirq.Moment(cirq.I(x) for x in cirq.LineQubit.range(n))))
    try:
        got = np_prog_unitary([np_aqt_gate(op) for op in v1[:-1]], n)
    except Exception:
        return False
    return np_phase_dist(got, ref) < 1e-8


def aqt_reject_stream(ctx, cirq, mods, rounds):
    rng = ctx.rng
    for name in AQT_UNSUPPORTED * rounds:
        rep = dict(kind='aqt_reject', name=name, e=rng.choice([1.0, 0.5, -0.5, 0.3217, 2.0]))
        try:
            ok = aqt_reject_oracle(cirq, mods, rep)
        except Exception as ex:
            ctx.mark_broken('correspondence:aqt_reject', f'{name}: oracle failed: {type(ex).__name__}: {ex}')
            continue
        outcome = rep.pop('_outcome', '?')
        ctx.count('aqt_reject', [name, rep['e']], True, sample=dict(name=name, e=rep['e'], outcome=outcome))
        ctx.cov.setdefault('aqt_reject_outcomes', {}).setdefault(name, outcome)
        if not ok:
            sig = 'aqt_reject:qubit_validation' if name in ('qutrit_Z', 'negative_line_qubit') else f'aqt_reject:{name}'
            _disagree(ctx, 'correspondence:aqt_reject', f'{name}', sig,
                         f'unsupported content `{name}` is neither rejected by AQTSampler._generate_json nor kept: the operation list '
                         f'names something else than the circuit', rep)


# ---------------------------------------------------------------------------------------------------
# AQT and the measurements of the submitted circuit (model: coq/Vendor/AQTMeas.v).  An AQT job can say one thing about
# measuring: every qubit, at the end, in index order, reported under 'm'.  A circuit that holds MeasurementGate operations
# means the joint distribution of ITS OWN records (key -> bits of the measured qubits in the measurement's order, after
# confusion map and invert mask, taken where the measurement stands: a measurement in the middle projects the state the
# later gates act on).  Whatever AQTSampler / AQTSamplerLocalSimulator accept must come back with that meaning; anything
# else must be refused.  A circuit without measurements is read out by the vendor convention (all qubits under 'm').
# ---------------------------------------------------------------------------------------------------
PRE_M = ('From Coq Require Import List Arith Bool NArith.\nFrom VF Require Import Base.Harness Vendor.AQTMeas.\nImport ListNotations.\n')
AQT_MEAS_LAYOUTS = ['gates_only', 'mid_gate_after', 'mid_m_all_gate_after', 'mid_and_terminal', 'meas_first', 'term_all_m', 'term_other_key',
                    'term_subset_first', 'term_subset_last', 'term_order', 'term_invert_last', 'term_invert_all', 'term_confusion',
                    'term_two_keys', 'only_meas']
AQT_MEAS_ENTRIES = ['payload', 'remote', 'local']
AQT_LOCAL_REPS = 600
AQT_LOCAL_TV = 0.18      # 600 samples of <= 8 outcomes: E[TV] <= 0.055, P(TV > 0.18) < exp(-2 * 600 * 0.125^2) ~ 7e-9


def _meas(key, w, inv=None, conf=None):
    return dict(fam='Meas', key=key, w=list(w), inv=list(inv or []), conf=list(conf or []), sym=False)


def aqt_meas_fixed_case(n, layout, classical):
    """prep gates that make the readout distribution unsymmetric under permutations and bit flips, then the layout's measurements."""
    ops = []
    if layout != 'only_meas':
        for w in range(n):
            ops.append(dict(fam='ZPow', e=0.3, s=0.0, w=[w], sym=False))
        if classical:
            ops.append(dict(fam='PhasedX', e=1.0, s=0.0, p=0.25, w=[0], sym=False))
            if n >= 3:
                ops.append(dict(fam='XXPow', e=1.0, s=0.0, w=[0, 2], sym=False))
                ops.append(dict(fam='PhasedX', e=3.0, s=0.0, p=0.5, w=[0], sym=True))
        else:
            for w in range(n):
                ops.append(dict(fam='PhasedX', e=0.3 + 0.13 * w, s=0.0, p=0.1 * w, w=[w], sym=w == 1))
            if n >= 2:
                ops.append(dict(fam='XXPow', e=0.25, s=0.0, w=[0, 1], sym=False))
    allw = list(range(n))
    after = dict(fam='PhasedX', e=1.0 if classical else 0.5, s=0.0, p=0.0, w=[0], sym=False)
    if layout == 'gates_only':
        pass
    elif layout == 'mid_gate_after':
        ops += [_meas('mid', [0]), after]
    elif layout == 'mid_m_all_gate_after':
        ops += [_meas('m', allw), after]
    elif layout == 'mid_and_terminal':
        ops += [_meas('k', [0]), after] + ([dict(fam='XXPow', e=1.0 if classical else 0.5, s=0.0, w=[0, 1], sym=False)] if n >= 2 else []) + [_meas('m', allw)]
    elif layout == 'meas_first':
        ops = [_meas('m', allw)] + ops
    elif layout in ('term_all_m', 'only_meas'):
        ops += [_meas('m', allw)]
    elif layout == 'term_other_key':
        ops += [_meas('z', allw)]
    elif layout == 'term_subset_first':
        ops += [_meas('m', [0])]
    elif layout == 'term_subset_last':
        ops += [_meas('m', [n - 1])]
    elif layout == 'term_order':
        ops += [_meas('m', allw[::-1])]
    elif layout == 'term_invert_last':
        ops += [_meas('m', allw, inv=[0] * (n - 1) + [1])]
    elif layout == 'term_invert_all':
        ops += [_meas('m', allw, inv=[1] * n)]
    elif layout == 'term_confusion':
        ops += [_meas('m', allw, conf=[[0, [[0.0, 1.0], [1.0, 0.0]] if classical else [[0.9, 0.1], [0.25, 0.75]]]])]
    elif layout == 'term_two_keys':
        ops += [_meas('a', [0]), _meas('b', allw[1:])]
    else:
        raise KeyError(layout)
    return dict(vendor='aqt', n=n, ops=ops, strat=['E'] * len(ops), layout=layout)


def aqt_meas_fixed_cases():
    for n in (1, 2, 3):
        for layout in AQT_MEAS_LAYOUTS:
            if n == 1 and layout in ('term_subset_last', 'term_order', 'term_two_keys'):
                continue                    # the same circuits as term_all_m on one qubit
            if n == 1 and layout == 'term_subset_first':
                continue
            for classical in (True, False):
                yield aqt_meas_fixed_case(n, layout, classical)


def gen_aqt_meas_case(rng):
    """Random gates over the accepted vocabulary on wires 0..n-1 with 0-2 measurement operations anywhere among them."""
    n = rng.randint(1, 3)
    classical = rng.random() < 0.4
    body = (gen_aqt_classical(rng) if classical else gen_aqt_case(rng, max_q=n))['ops'][:rng.randint(1, 6)]
    body = [o for o in body if max(o['w']) < n]
    for w in range(n):
        if not any(w in o['w'] for o in body):
            body.append(dict(fam='ZPow', e=0.5, s=0.0, w=[w], sym=False))
    ops = list(body)
    keys = set()
    for _ in range(rng.choice([0, 0, 1, 1, 1, 1, 2, 2])):
        key = rng.choice(['m', 'm', 'k', draw_key(rng) or 'e'])
        if key in keys:
            continue
        keys.add(key)
        w = rng.sample(range(n), rng.randint(1, n)) if rng.random() < 0.7 else list(range(n))
        inv = [rng.randrange(2) for _ in w] if rng.random() < 0.3 else []
        conf = [[rng.randrange(len(w)), [[0.0, 1.0], [1.0, 0.0]] if classical else [[0.8, 0.2], [0.3, 0.7]]]] if rng.random() < 0.1 else []
        pos = len(ops) if rng.random() < 0.5 else rng.randint(0, len(ops))
        ops.insert(pos, _meas(key, w, inv, conf))
    return dict(vendor='aqt', n=n, ops=ops, strat=['N' if rng.random() < 0.2 else 'E' for _ in ops], layout='random')


def _res_key(d):
    """{key: bits} -> canonical hashable form"""
    return tuple(sorted((str(k), tuple(int(b) for b in v)) for k, v in d.items()))


def circuit_record_dist(cirq, circuit, n):
    """Exact joint distribution of the measurement records of `circuit` (resolved, on LineQubit 0..n-1) run from |0...0>:
    {canonical {key: bits}: probability}.  Branches over the outcomes of every measurement (projective: later gates act on the
    projected state); confusion map first, invert mask second, as Cirq records them.  No measurement at all: the vendor's
    readout of all qubits under 'm'."""
    psi0 = np.zeros(2 ** n, dtype=complex)
    psi0[0] = 1.0
    branches = [(psi0, ())]
    any_meas = False
    for op in circuit.all_operations():
        ws = [q.x for q in op.qubits]
        if isinstance(op.gate, cirq.MeasurementGate):
            any_meas = True
            key, inv, cm = cirq.measurement_key_name(op), op.gate.full_invert_mask(), op.gate.confusion_map
            new = []
            for psi, recs in branches:
                t = psi.reshape((2,) * n)
                for outcome in itertools.product((0, 1), repeat=len(ws)):
                    sel = tuple(outcome[ws.index(k)] if k in ws else slice(None) for k in range(n))
                    proj = np.zeros_like(t)
                    proj[sel] = t[sel]
                    if float(np.sum(np.abs(proj) ** 2)) < 1e-15:
                        continue
                    confused = [(tuple(outcome), 1.0)]
                    for idx, mat in cm.items():
                        mat = np.asarray(mat, dtype=float)
                        nxt = []
                        for bits, pr in confused:
                            row = int(''.join(str(outcome[k]) for k in idx), 2)
                            for val in range(mat.shape[1]):
                                if mat[row][val] > 0:
                                    nb = list(bits)
                                    for i, k in enumerate(idx):
                                        nb[k] = (val >> (len(idx) - 1 - i)) & 1
                                    nxt.append((tuple(nb), pr * float(mat[row][val])))
                        confused = nxt
                    for bits, pr in confused:
                        rec = tuple(int(b) ^ int(bool(m)) for b, m in zip(bits, inv))
                        new.append((proj.reshape(-1) * math.sqrt(pr), recs + ((key, rec),)))
            branches = new
        else:
            u = np_embed(cirq.unitary(op), ws, n)
            branches = [(u @ psi, recs) for psi, recs in branches]
    dist = {}
    for psi, recs in branches:
        if any_meas:
            if len({k for k, _ in recs}) != len(recs):
                raise Unrecognised('repeated measurement key')
            dist[_res_key(dict(recs))] = dist.get(_res_key(dict(recs)), 0.0) + float(np.sum(np.abs(psi) ** 2))
        else:
            for j, a in enumerate(psi):
                p = abs(a) ** 2
                if p > 1e-15:
                    r = _res_key({'m': [(j >> (n - 1 - k)) & 1 for k in range(n)]})
                    dist[r] = dist.get(r, 0.0) + float(p)
    return dist


def aqt_job_dist(v1, nq):
    """Readout distribution of a v1 job (gates, then exactly one MEASURE of all nq qubits) by AQT's definitions: {row: p}."""
    if not v1 or v1[-1] != {'operation': 'MEASURE'} or sum(op.get('operation') == 'MEASURE' for op in v1) != 1:
        raise Unrecognised('job without exactly one MEASURE at the end')
    psi = np_prog_unitary([np_aqt_gate(op) for op in v1[:-1]], nq)[:, 0]
    return {tuple((j >> (nq - 1 - k)) & 1 for k in range(nq)): float(abs(a) ** 2) for j, a in enumerate(psi) if abs(a) ** 2 > 1e-15}


class _BasisAQT(FakeAQT):
    """Stand-in vendor that keeps the posted job and answers with one row per basis outcome of the posted register, in order
    (row i = outcome i, qubit 0 first), so that the conversion of every possible sample is seen in one call."""

    def get(self, url, headers=None, **kw):
        c = self.sub['payload']['circuits'][0]
        n, reps = c['number_of_qubits'], c['repetitions']
        rows = [[((i % 2 ** n) >> (n - 1 - k)) & 1 for k in range(n)] for i in range(reps)]
        return _Resp({'job': {'job_id': 'job-7'}, 'response': {'status': 'finished', 'result': {'0': rows}}})


def _tv(a, b):
    return 0.5 * sum(abs(a.get(k, 0.0) - b.get(k, 0.0)) for k in set(a) | set(b))


def _show_dist(d, k=4):
    top = sorted(d.items(), key=lambda kv: -kv[1])[:k]
    return '{' + ', '.join(f'{dict(r)}: {p:.3f}' for r, p in top) + (', ...' if len(d) > k else '') + '}'


def aqt_meas_run(cirq, mods, rep):
    """Submit the case through one entry.  -> ('refused', exception name) | ('dist', {result: probability}, shown payload, exact?)"""
    from unittest import mock
    import cirq_aqt.aqt_sampler as am
    case, entry = rep['case'], rep['entry']
    n = case['n']
    circuit, res = aqt_circuit(cirq, case)
    assert sorted(q.x for q in circuit.all_qubits()) == list(range(n)), 'generator: wires must be 0..n-1'
    if entry == 'payload':
        sampler = mods['cirq_aqt'].AQTSampler('workspace', 'resource', 'token')
        try:
            js = sampler._generate_json(circuit=circuit, param_resolver=res)
            v1 = sampler._parse_legacy_circuit_json(js)
        except Exception as e:
            return ('refused', type(e).__name__)
        return ('dist', {_res_key({'m': row}): p for row, p in aqt_job_dist(v1, n).items()}, js, True)
    if entry == 'remote':
        srv = _BasisAQT()
        try:
            with mock.patch.object(am, 'post', srv.post), mock.patch.object(am, 'get', srv.get), mock.patch.object(am.time, 'sleep', lambda s: None):
                out = mods['cirq_aqt'].AQTSampler('workspace', 'resource', 'token').run_sweep(circuit, params=res, repetitions=2 ** n)
        except Exception as e:
            if srv.sub is not None:
                raise                        # raising AFTER the job was posted is not a refusal
            return ('refused', type(e).__name__)
        c = srv.sub['payload']['circuits'][0]
        if c['number_of_qubits'] != n or c['repetitions'] != 2 ** n or len(out) != 1:
            raise Unrecognised(f'posted register {c["number_of_qubits"]} / repetitions {c["repetitions"]} for {n} qubits')
        job = aqt_job_dist(c['quantum_circuit'], n)
        ms = {k: np.asarray(v) for k, v in out[0].measurements.items()}
        dist = {}
        for i in range(2 ** n):
            row = tuple((i >> (n - 1 - k)) & 1 for k in range(n))
            if job.get(row, 0.0) > 0:
                r = _res_key({k: v[i] for k, v in ms.items()})
                dist[r] = dist.get(r, 0.0) + job[row]
        return ('dist', dist, json.dumps(c['quantum_circuit']), True)
    if entry == 'local':
        state = np.random.get_state()
        np.random.seed(rep['npseed'])
        try:
            out = mods['cirq_aqt'].AQTSamplerLocalSimulator(simulate_ideal=True).run_sweep(circuit, params=res, repetitions=AQT_LOCAL_REPS)
        except Exception as e:
            return ('refused', type(e).__name__)
        finally:
            np.random.set_state(state)
        ms = {k: np.asarray(v) for k, v in out[0].measurements.items()}
        dist = {}
        for i in range(AQT_LOCAL_REPS):
            r = _res_key({k: v[i] for k, v in ms.items()})
            dist[r] = dist.get(r, 0.0) + 1.0 / AQT_LOCAL_REPS
        return ('dist', dist, f'{AQT_LOCAL_REPS} samples of AQTSamplerLocalSimulator(simulate_ideal=True)', False)
    raise KeyError(entry)


def aqt_meas_oracle(cirq, mods, rep, out=None):
    """(holds, outcome, detail): refused, or the returned results have the distribution of the circuit's own records."""
    case = rep['case']
    out = out or aqt_meas_run(cirq, mods, rep)
    if out[0] == 'refused':
        return True, out[1], ''
    _, got, shown, exact = out
    circuit, res = aqt_circuit(cirq, case)
    want = circuit_record_dist(cirq, cirq.resolve_parameters(circuit, res), case['n'])
    tv = _tv(got, want)
    if exact:
        holds = tv <= 1e-6
    else:
        holds = tv <= AQT_LOCAL_TV and all(want.get(r, 0.0) > 1e-9 for r in got)
    return holds, 'accepted', (f'{shown[:260]} gives results {_show_dist(got)} but the circuit\'s own measurements mean {_show_dist(want)} '
                               f'(total variation {tv:.3f})')


def aqt_meas_class(cirq, case):
    """Which way the measurements of the case differ from the vendor's readout (for the signature)."""
    circuit, res = aqt_circuit(cirq, case)
    ops = list(circuit.all_operations())
    ms = [(i, op) for i, op in enumerate(ops) if isinstance(op.gate, cirq.MeasurementGate)]
    if not ms:
        return 'gates_only'
    if any(set(op.qubits) & set(later.qubits) for i, op in ms for later in ops[i + 1:]):
        return 'not_terminal'
    if len(ms) > 1:
        return 'several_keys'
    op = ms[0][1]
    if op.gate.confusion_map:
        return 'confusion_map'
    if any(op.gate.full_invert_mask()):
        return 'invert_mask'
    if [q.x for q in op.qubits] != list(range(case['n'])):
        return 'subset' if len(op.qubits) < case['n'] else 'order'
    if cirq.measurement_key_name(op) != 'm':
        return 'key'
    return 'readout_m'


def shrink_aqt_meas(cirq, mods, rep):
    """Drop operations one at a time while the case still fails (wires stay 0..n-1: a dropped gate leaves a Z behind if needed)."""
    def fails(r):
        try:
            return not aqt_meas_oracle(cirq, mods, r)[0]
        except Exception:
            return False
    case = rep['case']
    progress = True
    while progress and len(case['ops']) > 1:
        progress = False
        for i in range(len(case['ops'])):
            ops = case['ops'][:i] + case['ops'][i + 1:]
            if {w for o in ops for w in o['w']} != set(range(case['n'])):
                continue
            cand = dict(rep, case=dict(case, ops=ops, strat=case['strat'][:i] + case['strat'][i + 1:]))
            if fails(cand):
                rep, case, progress = cand, cand['case'], True
                break
    return rep


def aqt_meas_term(cirq, case):
    """The computational-basis skeleton of the case as a Gallina `list aitem`, or None if a gate is not a basis permutation."""
    circuit, res = aqt_circuit(cirq, case)
    items = []
    for op in cirq.resolve_parameters(circuit, res).all_operations():
        g, ws = op.gate, [q.x for q in op.qubits]
        if isinstance(g, cirq.MeasurementGate):
            if g.confusion_map:
                return None
            key = cirq.measurement_key_name(op)
            items.append(f'AMeas [{"; ".join(str(ord(c)) + "%N" for c in key)}] {gates.nlist(ws)} {coq.blist(g.full_invert_mask())}')
        elif isinstance(g, cirq.ZPowGate):
            items.append('AFlip []')
        elif isinstance(g, (cirq.PhasedXPowGate, cirq.XXPowGate)) and float(g.exponent) == int(g.exponent):
            items.append(f'AFlip {gates.nlist(ws if int(g.exponent) % 2 else [])}')
        else:
            return None
    return '[' + '; '.join(items) + ']'


def report_aqt_meas(ctx, cirq, mods, rep, model_only=False, out=None):
    try:
        holds, outcome, detail = aqt_meas_oracle(cirq, mods, rep, out)
    except Exception as e:
        ctx.mark_broken('correspondence:aqt_meas', f'oracle failed on {json.dumps(rep)[:300]}: {type(e).__name__}: {e}')
        return
    if holds:
        if model_only:
            ctx.mark_broken('correspondence:aqt_meas', f'the sampler\'s answer ({outcome}) fails Vendor/AQTMeas.aqt_answer_ok (accepted: the circuit\'s '
                            f'records; refused: only what holds a measurement) although the numeric oracle finds no fault: {json.dumps(rep)[:400]}')
        return
    small = shrink_aqt_meas(cirq, mods, rep)
    _, _, detail = aqt_meas_oracle(cirq, mods, small)
    circuit, _ = aqt_circuit(cirq, small['case'])
    cls = aqt_meas_class(cirq, small['case'])
    also = []
    for e in AQT_MEAS_ENTRIES:
        try:
            if e != small['entry'] and not aqt_meas_oracle(cirq, mods, dict(small, entry=e))[0]:
                also.append(e)
        except Exception:
            pass
    _disagree(ctx, 'correspondence:aqt_meas', f'{small["entry"]}: {small["case"]["ops"]}', f'aqt_meas:{cls}',
              f'AQT ({small["entry"]}{"; likewise " + ", ".join(also) if also else ""}) '
              + ('returns results that do not mean the submitted circuit: ' if cls in ('gates_only', 'readout_m') else
                 f'accepts a circuit whose measurements a job cannot express ({cls}) and alters it: ')
              + f'{" ; ".join(str(op) for op in circuit.all_operations())[:300]} -> {detail}', small)


def aqt_meas_stream(ctx, cirq, mods, mchecks, n_random):
    rng = ctx.rng
    cases = list(aqt_meas_fixed_cases()) + [gen_aqt_meas_case(rng) for _ in range(n_random)]
    for case in cases:
        cls = aqt_meas_class(cirq, case)
        term = aqt_meas_term(cirq, case)
        for entry in AQT_MEAS_ENTRIES:
            rep = dict(kind='aqt_meas', case=case, entry=entry, npseed=rng.randrange(2 ** 31))
            try:
                out = aqt_meas_run(cirq, mods, rep)
            except Exception as e:
                _disagree(ctx, 'correspondence:aqt_meas', f'{type(e).__name__}: {e}', f'aqt_meas:raises:{type(e).__name__}',
                          f'AQT ({entry}) neither refused nor ran {json.dumps(case["ops"])[:300]}: {type(e).__name__}: {e}', rep)
                continue
            ctx.count('aqt_meas', [entry, case['n'], case['ops']], cls != 'gates_only' or len(case['ops']) >= 2,
                      sample=dict(entry=entry, layout=case['layout'], measurements=cls, ops=case['ops'][-3:], outcome=out[0] if out[0] == 'dist' else out[1]))
            ctx.cov.setdefault('aqt_meas_outcomes', {}).setdefault(f'{cls}:{entry}', 'accepted' if out[0] == 'dist' else out[1])
            report_aqt_meas(ctx, cirq, mods, rep, out=out)
            # the basis-state cases judged inside Coq: accepted => the one result that came back is the circuit's records; refused => so does the model
            if term is not None:
                if out[0] == 'refused':
                    impl = 'None'
                elif len(out[1]) == 1 or (out[3] and max(out[1].values()) > 1 - 1e-9):
                    (r, _), = [kv for kv in out[1].items() if kv[1] > 0.5]
                    impl = 'Some [' + '; '.join(f'([{"; ".join(str(ord(c)) + "%N" for c in k)}], {coq.blist(bits)})' for k, bits in r) + ']'
                else:
                    impl = 'Some []'         # several results for a basis-state circuit: never what the model says
                mchecks.append((f'aqt_answer_ok {case["n"]} {term} ({impl})', rep))


def evaluate_aqt_meas(ctx, cirq, mods, mchecks, SH=200):
    shards = []
    for s0 in range(0, len(mchecks), SH):
        part = mchecks[s0:s0 + SH]
        text = PRE_M + 'Definition checks : list bool := [\n' + ';\n'.join(c[0] for c in part) + '].\nEval vm_compute in failing (fun b => b) checks.\n'
        shards.append((f'c17m_{ctx.seed}_{s0 // SH}', text))
    outs = coq.coq_eval_many(shards, workers=12)
    for si, out in enumerate(outs):
        for idx in coq.parse_nat_list(coq.parse_evals(out)[0]):
            report_aqt_meas(ctx, cirq, mods, mchecks[si * SH + idx][1], model_only=True)


# ---- Pasqal: the request body is the Cirq JSON of the resolved circuit; the response body is Cirq JSON of the result ----
def pasqal_oracle(cirq, mods, rep):
    from unittest import mock
    import sympy
    cp = mods['cirq_pasqal']
    rng_ops = rep['ops']
    qubits = [cp.TwoDQubit(x, y) for x, y in rep['qubits']] if rep['dim'] == 2 else [cp.ThreeDQubit(x, y, z) for x, y, z in rep['qubits']]
    c, res = cirq.Circuit(), {}
    for i, o in enumerate(rng_ops):
        e = o['e']
        if o['sym']:
            res[f's{i}'] = e
            e = sympy.Symbol(f's{i}')
        g = {'X': cirq.XPowGate, 'Y': cirq.YPowGate, 'Z': cirq.ZPowGate, 'H': cirq.HPowGate, 'CZ': cirq.CZPowGate}[o['g']](exponent=e)
        c.append(g.on(*[qubits[w] for w in o['w']]), strategy=cirq.InsertStrategy.NEW)
    c.append(cirq.measure(*qubits, key=rep['key']), strategy=cirq.InsertStrategy.NEW)
    device = cp.PasqalVirtualDevice(control_radius=1.5, qubits=qubits)
    sampler = cp.PasqalSampler(remote_host='http://example.invalid', access_token='t', device=device)
    resolver = cirq.ParamResolver(res)
    body = sampler._serialize_circuit(circuit=c, param_resolver=resolver)
    back = cirq.read_json(json_text=body)
    if back != cirq.resolve_parameters(c, resolver) or cirq.is_parameterized(back):
        return False
    # the whole run_sweep with the HTTP layer replaced: the posted body is that JSON, the answer is decoded as sent
    want = cirq.ResultDict(params=resolver, measurements={rep['key']: np.array(rep['rows'], dtype=np.uint8)})
    seen = {}

    class R:
        def __init__(self, text):
            self.text = text

        def raise_for_status(self):
            pass

    def post(url, headers=None, data=None, **kw):
        seen['data'], seen['reps'] = data, headers.get('Repetitions')
        return R('task-1')

    def get(url, headers=None, **kw):
        return R(cirq.to_json(want))

    import cirq_pasqal.pasqal_sampler as pm
    with mock.patch.object(pm.requests, 'post', post), mock.patch.object(pm.requests, 'get', get):
        out = sampler.run_sweep(c, params=resolver, repetitions=len(rep['rows']))
    return len(out) == 1 and out[0] == want and seen['data'] == body and seen['reps'] == str(len(rep['rows']))


def pasqal_stream(ctx, cirq, mods, n):
    rng = ctx.rng
    for _ in range(n):
        dim = rng.choice([2, 3])
        k = rng.randint(1, 4)
        x0 = rng.randrange(3)
        qubits = [[x0 + i, 0] + ([0] if dim == 3 else []) for i in range(k)]      # a line with unit spacing (CZ only between neighbours)
        ops = []
        for _ in range(rng.randint(1, 6)):
            g = rng.choice(['X', 'Y', 'Z', 'H', 'CZ'] if k >= 2 else ['X', 'Y', 'Z', 'H'])
            ops.append(dict(g=g, e=1.0 if g in ('H', 'CZ') else gates.draw_exp(rng), sym=g not in ('H', 'CZ') and rng.random() < 0.3,
                            w=(lambda a: [a, a + 1] if rng.random() < 0.5 else [a + 1, a])(rng.randrange(k - 1)) if g == 'CZ' else [rng.randrange(k)]))
        reps = rng.randint(1, 3)
        rep = dict(kind='pasqal', dim=dim, qubits=qubits, ops=ops, key=rng.choice(['m', 'out', 'k y']),
                   rows=[[rng.randrange(2) for _ in range(k)] for _ in range(reps)])
        ctx.count('pasqal', rep, len(ops) >= 2, sample=rep)
        try:
            ok = pasqal_oracle(cirq, mods, rep)
        except Exception as e:
            _disagree(ctx, 'correspondence:pasqal', f'{type(e).__name__}: {e}', f'pasqal:raises:{type(e).__name__}',
                         f'PasqalSampler round trip raised {type(e).__name__}: {e} on {json.dumps(rep)[:200]}', rep)
            continue
        if not ok:
            _disagree(ctx, 'correspondence:pasqal', json.dumps(rep)[:300], 'pasqal:roundtrip',
                         f'the Pasqal request body does not read back as the resolved circuit / the result is not decoded as sent: {json.dumps(rep)[:300]}', rep)


# ---------------------------------------------------------------------------------------------------
# HISTORIES of calls on ONE sampler / service object (model: coq/Vendor/History.v).  The caller keeps a mutable
# cirq.Circuit, submits it, edits it IN PLACE (insert / append / delete / setitem / batch operations), submits it again
# (same or another resolver, sweeps, batches), submits equal-but-distinct copies and frozen snapshots.  Every request
# body that reaches the (stand-in) HTTP layer must describe the circuit as it is at the time of that call.
# ---------------------------------------------------------------------------------------------------
HVALS = [0.5, 0.25, -0.5, 1.0, 0.75]          # resolver j (1-based) binds the symbol a to HVALS[j - 1]
H_FIXED_E = [1.0, 0.5, -0.5, 0.25, 1.5, 0.3217, -0.75, -1.25]
H_FAMS = {
    'pasqal': dict(one=['X', 'Y', 'Z', 'PhX', 'H1'], two=['CZ1'], param=['X', 'Y', 'Z', 'PhX']),
    'aqt': dict(one=['Z', 'PhX'], two=['XX', 'ms'], param=['Z', 'PhX', 'XX']),
    'aqt_local': dict(one=['Z', 'PhX'], two=['XX', 'ms'], param=['Z', 'PhX', 'XX']),
    'ionq': dict(one=['X', 'Y', 'Z', 'rx', 'ry', 'rz', 'H1'], two=['XX', 'YY', 'ZZ', 'CX1', 'SWAP1', 'ms'],
                 param=['X', 'Y', 'Z', 'rx', 'ry', 'rz', 'XX', 'YY', 'ZZ']),
    'ionq_native': dict(one=['GPI', 'GPI2'], two=['IMS', 'IZZ'], param=[]),
}
H_ENTRIES = {
    'pasqal': ['run_sweep', 'run', 'run_batch'],
    'aqt': ['run_sweep', 'run', 'run_batch'],
    'aqt_local': ['run_sweep', 'run'],
    'ionq': ['svc_run', 'sampler', 'svc_create_job', 'svc_run_batch'],
    'ionq_native': ['svc_run', 'sampler', 'svc_run_batch'],
}
H_FLAT_EDITS = ['ins', 'app', 'del', 'set', 'brep', 'slice_ins', 'mset']
H_FREE_EDITS = ['ins_e', 'ins_i', 'ins_n', 'app_e', 'binsert', 'binto', 'bremove', 'clear', 'brep', 'del', 'mset']
MEAS0, UNKNOWN = 1000, 9999
PRE_H = ('From Coq Require Import List Arith Bool.\nFrom VF Require Import Base.Harness Vendor.History.\nImport ListNotations.\n')


def hist_gate(cirq, mods, o, sym):
    e = sym if o['e'] == 'a' else o['e']
    g = o['g']
    if g in ('X', 'Y', 'Z', 'XX', 'YY', 'ZZ'):
        return getattr(cirq, g + 'PowGate')(exponent=e)
    if g == 'PhX':
        return cirq.PhasedXPowGate(phase_exponent=o['p'], exponent=e)
    if g in ('rx', 'ry', 'rz'):
        return getattr(cirq, g)(e * math.pi)
    if g == 'ms':
        return cirq.ms(e * math.pi / 2)
    if g in ('H1', 'CZ1', 'CX1', 'SWAP1'):
        return {'H1': cirq.HPowGate, 'CZ1': cirq.CZPowGate, 'CX1': cirq.CXPowGate, 'SWAP1': cirq.SwapPowGate}[g](exponent=e)
    ci = mods['cirq_ionq']
    if g == 'GPI':
        return ci.GPIGate(phi=e)
    if g == 'GPI2':
        return ci.GPI2Gate(phi=e)
    if g == 'IMS':
        return ci.MSGate(phi0=e, phi1=o['p'], theta=o['t'])
    if g == 'IZZ':
        return ci.ZZGate(theta=e)
    raise KeyError(g)


def hist_qubits(cirq, mods, case):
    cp = mods['cirq_pasqal']
    k = case['k']
    if case['vendor'] == 'pasqal':
        return [cp.TwoDQubit(i, 0) for i in range(k)] if case['dev'] == 'virtual' else [cirq.NamedQubit(f'q{i}') for i in range(k)]
    return cirq.LineQubit.range(k)


def gen_hist_vocab(rng, cirq, mods, vendor, k, n_ops):
    """Operation vocabulary of one history: pairwise distinguishable by meaning (matrix on the k-wire register up to phase), at every
    resolver value, so that a posted operation names exactly one (operation, resolver) pair."""
    fam = H_FAMS[vendor]
    vocab, embs = [], []
    tries = 0
    while len(vocab) < n_ops and tries < 60:
        tries += 1
        cover = vendor.startswith('aqt') and len(vocab) < k          # AQT circuits use qubits 0..n-1: one single-qubit operation per wire first
        two = k >= 2 and rng.random() < 0.35 and not cover
        g = rng.choice(fam['two'] if two else fam['one'])
        if cover:
            w = [len(vocab)]
        elif two:
            a = rng.randrange(k - 1)
            w = [a, a + 1] if rng.random() < 0.5 else [a + 1, a]          # neighbours (the Pasqal device has a control radius)
        else:
            w = [rng.randrange(k)]
        n_par = sum(1 for o in vocab if o['e'] == 'a')
        par = g in fam['param'] and (n_par == 0 or rng.random() < 0.35)
        o = dict(g=g, e='a' if par else (1.0 if g.endswith('1') else rng.choice(H_FIXED_E)), w=w)
        if g == 'PhX':
            o['p'] = rng.choice([0.0, 0.25, 0.5, -0.3, 0.8])
        if g == 'IMS':
            o['p'], o['t'] = rng.choice([0.0, 0.1, 0.35]), rng.choice([0.25, 0.1, 0.2])
        if vendor.startswith('ionq_native'):
            o['e'] = rng.choice([0.1, 0.2, 0.35, 0.45, 0.05])
        mats = []
        for val in (HVALS if par else [None]):
            gate = hist_gate(cirq, mods, o, val if par else None)
            mats.append(np_embed(cirq.unitary(gate), w, k))
        ident = np.eye(2 ** k)
        if any(np_phase_dist(m, ident) < 1e-3 for m in mats):
            continue
        if any(np_phase_dist(m, m2) < 1e-3 for m in mats for m2 in embs) or any(np_phase_dist(mats[i], mats[j]) < 1e-3 for i in range(len(mats)) for j in range(i)):
            continue
        vocab.append(o)
        embs += mats
    return vocab


def gen_hist_meas(rng, vendor, k):
    if vendor.startswith('aqt'):
        return []
    out = [dict(key='m', w=list(range(k)))]
    w = list(range(k))
    rng.shuffle(w)
    out.append(dict(key=rng.choice(['out', 'k y', 'z']), w=w[:rng.randint(1, k)] if k > 1 else w))
    if k >= 2:
        out.append(dict(key='r', w=list(reversed(range(k)))))
    return out


def gen_hist_submit(rng, vendor, entry=None, prev=None, same_res=False):
    entry = entry or rng.choice(H_ENTRIES[vendor])
    nres = len(HVALS)
    if same_res and prev is not None:
        res = [prev]
    else:
        res = [rng.randint(1, nres)]
    if entry in ('run_sweep', 'sampler') and rng.random() < 0.3 and not same_res:
        res = [rng.randint(1, nres) for _ in range(rng.randint(2, 3))]
    objs = [rng.choice(['same', 'same', 'same', 'copy', 'frozen'])]
    if entry in ('run_batch', 'svc_run_batch'):
        n = rng.randint(1, 3)
        objs = [rng.choice(['same', 'same', 'copy', 'frozen']) for _ in range(n)]
        res = [res[0]] + [rng.randint(1, nres) for _ in range(n - 1)]
    return dict(t='submit', entry=entry, objs=objs, res=res, form=rng.choice(['dict', 'resolver', 'points']))


def gen_hist_edit(rng, nv, nm, how):
    return dict(t='edit', how=how, x=rng.randrange(nv), y=rng.randrange(nv), i=rng.randrange(64), j=rng.randrange(64), m=rng.randrange(max(nm, 1)))


def gen_history(rng, cirq, mods, vendor, fixed=None):
    """fixed = (entry, edit kind): the witness history of C17_history_alias_cache_refuted (submit, edit in place, submit again with an equal
    resolver, on one sampler) for that entry point and kind of edit; otherwise a random history."""
    k = rng.randint(2, 4) if vendor != 'ionq_native' else rng.randint(2, 3)
    dev = rng.choice(['virtual', 'generic']) if vendor == 'pasqal' else None
    mode = 'flat' if dev == 'virtual' else rng.choice(['flat', 'free'])
    if fixed is not None and fixed[1] in H_FLAT_EDITS and fixed[1] not in H_FREE_EDITS:
        mode = 'flat'
    if fixed is not None and fixed[1] in H_FREE_EDITS and fixed[1] not in H_FLAT_EDITS:
        mode, dev = 'free', ('generic' if vendor == 'pasqal' else None)
    vocab = gen_hist_vocab(rng, cirq, mods, vendor, k, rng.randint(5, 8))
    meas = gen_hist_meas(rng, vendor, k)
    nv, nm = len(vocab), len(meas)
    def fresh_ids(lo, hi):
        ids = [rng.randrange(nv) for _ in range(rng.randint(lo, hi))]
        if vendor.startswith('aqt'):
            for w in range(k):                      # qubits 0..k-1 all occur (the AQT register is sized by the number of qubits)
                if not any(w in vocab[i]['w'] for i in ids):
                    ids += [i for i, o in enumerate(vocab) if w in o['w']][:1]
            rng.shuffle(ids)
        return ids

    first = dict(t='new', ids=fresh_ids(2, 4), m=rng.randrange(nm) if nm else None)
    steps = [first]
    if fixed is not None:
        entry, how = fixed
        r = rng.randint(1, len(HVALS))
        sub = dict(t='submit', entry=entry, objs=['same'], res=[r], form=rng.choice(['dict', 'resolver', 'points']))
        par = [i for i, o in enumerate(vocab) if o['e'] == 'a']
        ed = gen_hist_edit(rng, nv, nm, how)
        if par and rng.random() < 0.5:
            ed['x'] = rng.choice(par)
        steps += [sub, ed, dict(sub, form=rng.choice(['dict', 'resolver', 'points']))]
        # and once more with another kind of object / resolver, so that the fixed histories also hold the negative controls
        steps += [gen_hist_edit(rng, nv, nm, rng.choice(H_FLAT_EDITS if mode == 'flat' else H_FREE_EDITS)), gen_hist_submit(rng, vendor, entry=entry, prev=r, same_res=rng.random() < 0.5)]
    else:
        prev = None
        edits = H_FLAT_EDITS if mode == 'flat' else H_FREE_EDITS
        for _ in range(rng.randint(3, 7)):
            r = rng.random()
            if r < 0.45 or prev is None:
                s = gen_hist_submit(rng, vendor, prev=prev, same_res=prev is not None and rng.random() < 0.6)
                prev = s['res'][-1]
                steps.append(s)
            elif r < 0.85:
                for _ in range(rng.choice([1, 1, 2])):
                    steps.append(gen_hist_edit(rng, nv, nm, rng.choice(edits)))
                s = gen_hist_submit(rng, vendor, prev=prev, same_res=rng.random() < 0.7)
                prev = s['res'][-1]
                steps.append(s)
            elif r < 0.93:
                steps.append(dict(t='rebind', how=rng.choice(['copy', 'unfreeze'])))
            else:
                steps.append(dict(t='new', ids=fresh_ids(1, 4), m=rng.randrange(nm) if nm else None))
    return dict(kind='history', vendor=vendor, dev=dev, mode=mode, k=k, vocab=vocab, meas=meas, steps=steps,
                target=rng.choice(['simulator', 'qpu']), reps=rng.randint(1, 3))


class _TextResp:
    def __init__(self, text):
        self.text = text

    def raise_for_status(self):
        pass


class _RecVendor(FakeVendor):
    """FakeVendor that keeps every posted job body."""

    def __init__(self):
        super().__init__()
        self.bodies = []

    def post(self, url, json=None, headers=None, **kw):
        r = super().post(url, json=json, headers=headers, **kw)
        self.bodies.append(self.body)
        return r


class Hist:
    """One history on the real code: the caller's objects, ONE sampler / service, the stand-in HTTP layer that records every body."""

    def __init__(self, cirq, mods, case):
        import sympy
        self.cirq, self.mods, self.case = cirq, mods, case
        self.vendor, self.k = case['vendor'], case['k']
        self.sym = sympy.Symbol('a')
        self.qubits = hist_qubits(cirq, mods, case)
        q = self.qubits
        self.vops = [hist_gate(cirq, mods, o, self.sym).on(*[q[w] for w in o['w']]) for o in case['vocab']]
        self.params = [i for i, o in enumerate(case['vocab']) if o['e'] == 'a']
        self.mops = [cirq.measure(*[q[w] for w in m['w']], key=m['key']) for m in case['meas']]
        self.table = []
        for i, o in enumerate(case['vocab']):
            for j, val in (list(enumerate(HVALS, start=1)) if o['e'] == 'a' else [(0, None)]):
                self.table.append((i, j, frozenset(o['w']), np_embed(cirq.unitary(hist_gate(cirq, mods, o, val)), o['w'], self.k)))
        self.keep = []                                   # every object stays alive: no identity is ever reused
        v = self.vendor
        if v == 'pasqal':
            cp = mods['cirq_pasqal']
            dev = cp.PasqalVirtualDevice(control_radius=1.5, qubits=q) if case['dev'] == 'virtual' else cp.PasqalDevice(qubits=q)
            self.sampler = cp.PasqalSampler(remote_host='http://example.invalid', access_token='t', device=dev)
            self.dummy = cirq.to_json(cirq.ResultDict(params=cirq.ParamResolver({}), measurements={'z': np.zeros((1, self.k), dtype=np.uint8)}))
        elif v == 'aqt':
            self.sampler = mods['cirq_aqt'].AQTSampler('workspace', 'resource', 'token')
        elif v == 'aqt_local':
            rec = self.local_posts = []

            class Local(mods['cirq_aqt'].AQTSamplerLocalSimulator):
                def _send_json(self, *, json_str, id_str, repetitions=1, num_qubits=1):
                    rec.append(dict(json_str=json_str, num_qubits=num_qubits, repetitions=repetitions))
                    return super()._send_json(json_str=json_str, id_str=id_str, repetitions=repetitions, num_qubits=num_qubits)
            self.sampler = Local(simulate_ideal=True)
        else:
            self.service = mods['cirq_ionq'].Service(remote_host='http://example.invalid', api_key='k', default_target=case['target'])
            self.sampler = self.service.sampler(target=case['target'], seed=Picks([0]))

    # ---- the caller's side -------------------------------------------------------------------------------------
    def content(self, circuit):
        """Operation identifiers of a live circuit: gates in program order, then measurements."""
        cirq = self.cirq
        gs, ms = [], []
        for op in circuit.all_operations():
            if cirq.is_measurement(op):
                ms.append(next((MEAS0 + i for i, m in enumerate(self.mops) if m == op), UNKNOWN))
            else:
                # the caller's circuits hold the vocabulary's own operation objects (identity first: cirq_ionq.MSGate's == ignores theta)
                gs.append(next((i for i, v in enumerate(self.vops) if v is op), next((i for i, v in enumerate(self.vops) if v == op), UNKNOWN)))
        return gs + ms

    def new_circuit(self, ids, m):
        cirq = self.cirq
        strat = cirq.InsertStrategy.NEW if self.case['mode'] == 'flat' else cirq.InsertStrategy.EARLIEST
        c = cirq.Circuit()
        for i in ids:
            c.append(self.vops[i], strategy=strat)
        if m is not None:
            c.append(self.mops[m], strategy=cirq.InsertStrategy.NEW)
        return c

    def edit(self, c, st):
        """In-place edit of the caller's circuit.  Returns (Gallina edit term or None for an opaque edit / nothing done, description)."""
        cirq = self.cirq
        how, nv = st['how'], len(self.vops)
        has_m = bool(self.mops) and len(c) > 0 and any(cirq.is_measurement(op) for op in c[-1])
        L = len(c) - (1 if has_m else 0)                 # gate moments are c[0:L]
        x, y = st['x'] % nv, st['y'] % nv
        op, op2 = self.vops[x], self.vops[y]
        nx, ny = self.nm(x), self.nm(y)
        NEW, EARLIEST, INLINE = cirq.InsertStrategy.NEW, cirq.InsertStrategy.EARLIEST, cirq.InsertStrategy.INLINE
        flat = self.case['mode'] == 'flat'
        i = st['i'] % (L + 1)
        if how in ('ins', 'ins_n'):
            c.insert(i, op, strategy=NEW)
            return [f'EdInsert {i} {x}'], f'insert({i}, {nx}, NEW)'
        if how == 'app':
            if has_m:
                c.insert(L, op, strategy=NEW)
            else:
                c.append(op, strategy=NEW)
            return [f'EdInsert {L} {x}'], f'append({nx}, NEW)'
        if how == 'slice_ins':
            c[i:i] = [cirq.Moment(op), cirq.Moment(op2)]
            return [f'EdInsert {i} {x}', f'EdInsert {i + 1} {y}'], f'c[{i}:{i}] = [Moment({nx}), Moment({ny})]'
        if how == 'mset':
            if not has_m:
                return None, 'nothing'
            mid = st['m'] % len(self.mops)
            old = [o for o in c[-1] if cirq.is_measurement(o)][0]
            if st['j'] % 2:
                c[len(c) - 1] = cirq.Moment(self.mops[mid])
            else:
                try:
                    c.batch_replace([(len(c) - 1, old, self.mops[mid])])
                except ValueError:                       # the new measurement overlaps a gate of that moment: Cirq refuses the edit
                    return None, 'nothing'
            return [f'EdSet {L} {MEAS0 + mid}'], f'{"c[-1] = Moment" if st["j"] % 2 else "batch_replace measurement by "}({self.nm(MEAS0 + mid)})'
        if how in ('ins_e', 'ins_i', 'app_e'):
            if how == 'app_e' and not has_m:
                c.append(op, strategy=EARLIEST)
            else:
                c.insert(L if how == 'app_e' else i, op, strategy=EARLIEST if how != 'ins_i' else INLINE)
            return None, f'insert({L if how == "app_e" else i}, {nx}, {"INLINE" if how == "ins_i" else "EARLIEST"})'
        if how == 'binsert':
            c.batch_insert([(i, op), (st['j'] % (L + 1), op2)])
            return None, f'batch_insert([({i}, {nx}), ({st["j"] % (L + 1)}, {ny})])'
        if L == 0:
            return None, 'nothing'
        i = st['i'] % L
        if how == 'binto':
            try:
                c.batch_insert_into([(i, op)])
            except ValueError:
                return None, 'nothing'
            return None, f'batch_insert_into([({i}, {nx})])'
        gates_left = sum(1 for o in c.all_operations() if not cirq.is_measurement(o))
        if how in ('set', 'brep'):
            if flat:
                if how == 'set':
                    c[i] = cirq.Moment(op)
                else:
                    c.batch_replace([(i, c[i].operations[0], op)])
                return [f'EdSet {i} {x}'], f'{"c[" + str(i) + "] = Moment" if how == "set" else "batch_replace moment " + str(i) + " by "}({nx})'
            cand = [(mi, o) for mi in range(L) for o in c[mi] if set(o.qubits) == set(op.qubits)]
            if not cand:
                return None, 'nothing'
            mi, old = cand[st['j'] % len(cand)]
            c.batch_replace([(mi, old, op)])
            return None, f'batch_replace([({mi}, {old}, {nx})])'
        if how == 'del':
            if flat:
                if L < 2:
                    return None, 'nothing'
                del c[i]
                return [f'EdDelete {i}'], f'del c[{i}]'
            if gates_left - len(c[i]) < 1:
                return None, 'nothing'
            del c[i]
            return None, f'del c[{i}]'
        if how == 'bremove':
            ops = [(mi, o) for mi in range(L) for o in c[mi]]
            if len(ops) < 2:
                return None, 'nothing'
            mi, old = ops[st['j'] % len(ops)]
            c.batch_remove([(mi, old)])
            return None, f'batch_remove([({mi}, {old})])'
        if how == 'clear':
            qs = [self.qubits[st['j'] % self.k]]
            hit = sum(1 for mi in range(L) for o in c[mi] if set(o.qubits) & set(qs) and mi in (i, (i + 1) % L))
            if gates_left - hit < 1 or hit == 0:
                return None, 'nothing'
            c.clear_operations_touching(qs, [i, (i + 1) % L])
            return None, f'clear_operations_touching({qs}, [{i}, {(i + 1) % L}])'
        raise KeyError(how)

    def nm(self, x):
        return describe_ids(self.case, [(x, 0)])[1:-1]

    def resolver(self, j, form):
        cirq = self.cirq
        d = {'a': HVALS[j - 1]}
        return d if form == 'dict' else cirq.ParamResolver({self.sym: HVALS[j - 1]}) if form == 'resolver' else cirq.ParamResolver(d)

    # ---- the property's reading of one submission ---------------------------------------------------------------
    def meaning(self, circuit, j):
        """(unitary on the k-wire register, [(key, wires)]) of the caller's circuit as it is now, resolved at resolver j."""
        cirq = self.cirq
        c = cirq.resolve_parameters(circuit, {'a': HVALS[j - 1]})
        gs = cirq.Circuit(op for op in c.all_operations() if not cirq.is_measurement(op))
        u = gs.unitary(qubit_order=self.qubits, qubits_that_should_be_present=self.qubits)
        ms = sorted((cirq.measurement_key_name(op), [self.qubits.index(x) for x in op.qubits]) for op in c.all_operations() if cirq.is_measurement(op))
        used = sorted(self.qubits.index(x) for x in c.all_qubits())
        # AQT sizes the register by the NUMBER of qubits in the circuit (qubits are meant to be 0..n-1): no demand on a circuit with gaps
        return u, ms, (1 + used[-1] if used == list(range(len(used))) or not self.vendor.startswith('aqt') else 0)

    def match(self, m, wires):
        try:
            e = np_embed(m, list(wires), self.k)
        except Exception:
            return (UNKNOWN, 0)
        ws = frozenset(wires)
        for i, j, w, t in self.table:
            if w == ws and np_phase_dist(e, t) < 1e-6:
                return (i, j)
        return (UNKNOWN, 0)

    def match_meas(self, key, wires):
        return next(((MEAS0 + i, 0) for i, m in enumerate(self.case['meas']) if m['key'] == key and list(m['w']) == list(wires)), (UNKNOWN, 0))

    # ---- the sampler's side: real call, stand-in HTTP layer ------------------------------------------------------
    def call(self, entry, circuits, js, form):
        """Runs the real entry point; returns the raw request bodies it produced, one per (circuit, resolver) submission."""
        from unittest import mock
        cirq, v, reps = self.cirq, self.vendor, self.case['reps']
        rs = [self.resolver(j, form) for j in js]
        sweep = cirq.Points('a', [HVALS[j - 1] for j in js]) if form == 'points' else rs
        if v == 'pasqal':
            import cirq_pasqal.pasqal_sampler as pm
            seen = []

            def post(url, headers=None, data=None, **kw):
                seen.append(dict(data=data, reps=(headers or {}).get('Repetitions')))
                return _TextResp('task-1')

            with mock.patch.object(pm.requests, 'post', post), mock.patch.object(pm.requests, 'get', lambda url, headers=None, **kw: _TextResp(self.dummy)):
                self.sampler_call(entry, circuits, rs, sweep, reps)
            return seen
        if v == 'aqt':
            import cirq_aqt.aqt_sampler as am
            seen = []

            def post(url, json=None, headers=None, **kw):
                import json as J
                seen.append(J.loads(J.dumps(json)))
                return _Resp({'job': {'job_id': 'job-7'}, 'response': {'status': 'queued'}})

            def get(url, headers=None, **kw):
                n = seen[-1]['payload']['circuits'][0]['repetitions']
                return _Resp({'job': {'job_id': 'job-7'}, 'response': {'status': 'finished', 'result': {'0': [[0] * 16] * n}}})

            with mock.patch.object(am, 'post', post), mock.patch.object(am, 'get', get), mock.patch.object(am.time, 'sleep', lambda s: None):
                out = self.sampler_call(entry, circuits, rs, sweep, reps)
            return seen
        if v == 'aqt_local':
            del self.local_posts[:]
            self.sampler_call(entry, circuits, rs, sweep, reps)
            return list(self.local_posts)
        import cirq_ionq.ionq_client as ic
        srv = _RecVendor()
        target = self.case['target']
        shots = reps if target == 'simulator' else 100
        with mock.patch.object(ic.requests, 'post', srv.post), mock.patch.object(ic.requests, 'get', srv.get):
            if entry == 'svc_run':
                self.service.run(circuits[0], repetitions=shots, target=target, param_resolver=rs[0], seed=Picks([0]))
            elif entry == 'sampler':
                self.sampler.run_sweep(circuits[0], params=sweep, repetitions=shots)
            else:
                # create_job / run_batch take circuits without symbols: the caller resolves (an unparametrised circuit is handed over as it is)
                rc = [c if not cirq.is_parameterized(c) else cirq.resolve_parameters(c, r) for c, r in zip(circuits, rs)]
                if entry == 'svc_create_job':
                    self.service.create_job(circuit=rc[0], repetitions=shots, target=target)
                else:
                    self.service.run_batch(rc, repetitions=shots, target=target, seed=Picks([0]))
        out = []
        for b in srv.bodies:
            inp, md = b.get('input', {}), b.get('metadata', {})
            if 'circuits' in inp:
                try:
                    mds = json.loads(md.get('measurements', '[]'))
                except Exception:
                    mds = []
                for i, c in enumerate(inp['circuits']):
                    out.append(dict(gateset=inp.get('gateset'), qubits=inp.get('qubits'), circuit=c.get('circuit'), metadata=mds[i] if i < len(mds) else {}))
            else:
                out.append(dict(gateset=inp.get('gateset'), qubits=inp.get('qubits'), circuit=inp.get('circuit'), metadata=md))
        return out

    def sampler_call(self, entry, circuits, rs, sweep, reps):
        if entry == 'run_sweep':
            return self.sampler.run_sweep(circuits[0], params=sweep, repetitions=reps)
        if entry == 'run':
            return [self.sampler.run(circuits[0], param_resolver=rs[0], repetitions=reps)]
        if entry == 'run_batch':
            return self.sampler.run_batch(circuits, params_list=rs, repetitions=reps)
        raise KeyError(entry)

    def decode(self, raw):
        """A raw request body -> ([(matrix, wires)] of its gates in order, [(key, wires)] measured, register size or None, well-formed?)."""
        cirq, v = self.cirq, self.vendor
        if v == 'pasqal':
            sent = cirq.read_json(json_text=raw['data'])
            gs, ms = [], []
            for op in sent.all_operations():
                ws = [self.qubits.index(x) if x in self.qubits else 99 for x in op.qubits]
                if cirq.is_measurement(op):
                    ms.append((cirq.measurement_key_name(op), ws))
                else:
                    gs.append((cirq.unitary(op, None), ws))
            return gs, ms, None, raw['reps'] == str(self.case['reps']) and not cirq.is_parameterized(sent)
        if v == 'aqt':
            c = raw['payload']['circuits'][0]
            qc = c['quantum_circuit']
            ok = bool(qc) and qc[-1] == {'operation': 'MEASURE'} and c['repetitions'] == self.case['reps'] and len(raw['payload']['circuits']) == 1
            return [np_aqt_gate(op) if op.get('operation') != 'MEASURE' else (None, []) for op in qc[:-1]], [], c['number_of_qubits'], ok
        if v == 'aqt_local':
            leg = json.loads(raw['json_str'])
            v1 = [dict(operation='RZ', phi=o[1], qubit=o[2][0]) if o[0] == 'Z' else dict(operation='R', theta=o[1], phi=o[2], qubit=o[3][0]) if o[0] == 'R'
                  else dict(operation='RXX', theta=o[1], qubits=o[2]) if o[0] == 'MS' else dict(operation='MEASURE') for o in leg]
            return [np_aqt_gate(op) if op['operation'] != 'MEASURE' else (None, []) for op in v1], [], raw['num_qubits'], raw['repetitions'] == self.case['reps']
        native = raw['gateset'] == 'native'
        ok = raw['gateset'] == ('native' if v == 'ionq_native' else 'qis') and isinstance(raw['qubits'], int)
        gs = []
        for op in raw['circuit'] or []:
            try:
                gs.append(np_ionq_gate(op, native))
            except Exception:
                gs.append((None, []))
        ms = []
        try:
            text = ''.join(meta_chunks({k2: v2 for k2, v2 in raw['metadata'].items() if k2.startswith('measurement')}))
            for rec in (text.split(chr(30)) if text else []):
                key, ts = rec.split(chr(31))
                ms.append((key, [int(t) for t in ts.split(',')]))
        except Exception:
            ok = False
        return gs, ms, raw['qubits'], ok

    def judge(self, raw, want):
        """(decoded (id, resolver) list for the model, holds?, text) of one request body against the circuit's meaning at the time of the call."""
        u, ms, need = want
        try:
            gs, got_ms, reg, ok = self.decode(raw)
        except Exception as e:
            return [(UNKNOWN, 0)], False, f'body cannot be read: {type(e).__name__}: {e}'
        ids = [self.match(m, w) if m is not None else (UNKNOWN, 0) for m, w in gs] + [self.match_meas(k2, w) for k2, w in got_ms]
        try:
            got_u = np_prog_unitary([(m, list(w)) for m, w in gs], self.k)
            same = np_phase_dist(got_u, u) < 1e-6
        except Exception:
            same = False
        holds = bool(ok and same and sorted(got_ms) == ms and (reg is None or need <= reg <= 16))
        return ids, holds, ''


def measured_then_touched(cirq, circuit):
    """Some operation acts on a qubit after that qubit was measured (the measurement is not terminal)."""
    measured = set()
    for moment in circuit:
        for op in moment:
            if measured & set(op.qubits):
                return True
        for op in moment:
            if cirq.is_measurement(op):
                measured |= set(op.qubits)
    return False


def run_history(cirq, mods, case):
    """Runs the whole history on the real code.  Returns dict(events=[Gallina event], posted=[[(id, r)]], calls=[...per submission...])."""
    h = Hist(cirq, mods, case)
    events, posted, calls, log = [], [], [], []
    oid, cur, cur_id = 0, None, None

    def bind(c):
        nonlocal oid
        h.keep.append(c)
        oid += 1
        events.append(f'ENew {oid} {gates.nlist(h.content(c))}')
        return oid

    for si, st in enumerate(case['steps']):
        t = st['t']
        if t == 'new':
            cur = h.new_circuit(st['ids'], st['m'])
            cur_id = bind(cur)
            log.append(f'c = Circuit{describe_ids(case, [(x, 0) for x in h.content(cur)])}')
        elif t == 'rebind':
            cur = cur.copy() if st['how'] == 'copy' else cur.freeze().unfreeze()
            cur_id = bind(cur)
            log.append('c = c.copy()')
        elif t == 'edit':
            term, text = h.edit(cur, st)
            if text == 'nothing':
                continue
            if term is None or case['mode'] != 'flat':
                term = ['EdSnap ' + gates.nlist(h.content(cur))]          # an opaque edit is recorded by the content it leaves behind
            for e in term:
                events.append(f'EEdit {cur_id} ({e})')
            log.append('c.' + text)
        else:
            entry, js = st['entry'], list(st['res'])
            hows = list(st['objs'])
            used = sorted(h.qubits.index(x) for x in cur.all_qubits())
            if case['vendor'] == 'aqt_local' and used != list(range(len(used))):
                continue                 # the local AQT simulator takes circuits on qubits 0..n-1 only (it rejects the others: stream aqt_reject)
            if entry in ('run_batch', 'svc_run_batch'):
                n = min(len(hows), len(js))
                hows, js = hows[:n], js[:n]
                subs = list(zip(hows, js))
            else:
                hows = hows[:1]
                if entry in ('run', 'svc_run', 'svc_create_job'):
                    js = js[:1]
                subs = [(hows[0], j) for j in js]
            objs, ids = {}, {}
            for how in set(hows):
                if how == 'same':
                    objs[how], ids[how] = cur, cur_id
                else:
                    objs[how] = cur.copy() if how == 'copy' else cur.freeze()
                    ids[how] = bind(objs[how])
            wants = [h.meaning(objs[how], j) for how, j in subs]
            exp = [[(x, j if x in h.params else 0) for x in h.content(objs[how])] for how, j in subs]
            for how, j in subs:
                events.append(f'ESubmit {ids[how]} {j}')
            text = f'{entry}({", ".join("c" if x == "same" else "c.copy()" if x == "copy" else "c.freeze()" for x in hows)}; a = {[HVALS[j - 1] for j in js]})'
            log.append(text)
            try:
                raws = h.call(entry, [objs[x] for x in hows], js, st['form'])
                err = None
            except Exception as e:
                raws, err = [], f'{type(e).__name__}: {e}'
            if err is not None and not raws and any(measured_then_touched(cirq, objs[x]) for x in hows):
                # in-place edits may leave an operation on a qubit AFTER its measurement (batch_insert at or behind the measurement's
                # moment): content no vendor job can express.  Refused before anything was posted: nothing was altered, nothing to judge.
                del events[len(events) - len(subs):]
                log[-1] = text + f' -> refused ({err[:80]}): an operation follows a measurement on its qubit'
                continue
            for n, ((how, j), want, ex) in enumerate(zip(subs, wants, exp)):
                if n < len(raws):
                    got, holds, why = h.judge(raws[n], want)
                else:
                    got, holds, why = [(UNKNOWN, 0)], False, err or 'no request body was posted for this submission'
                posted.append(got)
                calls.append(dict(step=si, n=n, entry=entry, how=how, res=j, holds=holds, expected=ex, got=got, why=why, at=len(log)))
            for extra in raws[len(subs):]:
                posted.append([(UNKNOWN, 0)])
                calls.append(dict(step=si, n=-1, entry=entry, how='-', res=0, holds=False, expected=None, got=None, why='a request body nobody asked for', at=len(log)))
    return dict(events=events, posted=posted, calls=calls, params=h.params, log=log)


def history_oracle(cirq, mods, rep):
    return all(c['holds'] for c in run_history(cirq, mods, rep)['calls'])


def shrink_history(cirq, mods, case):
    steps = list(case['steps'])
    changed = True
    while changed:
        changed = False
        for i in range(len(steps) - 1, 0, -1):
            trial = dict(case, steps=steps[:i] + steps[i + 1:])
            try:
                if not history_oracle(cirq, mods, trial):
                    steps = trial['steps']
                    changed = True
                    break
            except Exception:
                pass
    # then the circuits the history starts from: drop operations one at a time
    changed = True
    while changed:
        changed = False
        for si, st in enumerate(steps):
            if st['t'] != 'new' or len(st['ids']) < 2:
                continue
            for i in range(len(st['ids'])):
                trial_steps = steps[:si] + [dict(st, ids=st['ids'][:i] + st['ids'][i + 1:])] + steps[si + 1:]
                try:
                    if not history_oracle(cirq, mods, dict(case, steps=trial_steps)):
                        steps, changed = trial_steps, True
                        break
                except Exception:
                    pass
            if changed:
                break
    return dict(case, steps=steps)


def describe_ids(case, ids):
    out = []
    for x, j in ids:
        if x == UNKNOWN:
            out.append('?')
        elif x >= MEAS0:
            m = case['meas'][x - MEAS0]
            out.append(f'measure@{"".join(map(str, m["w"]))}:{m["key"]}')
        else:
            o = case['vocab'][x]
            out.append(f'{o["g"]}{"(a=" + str(HVALS[j - 1]) + ")" if j else "^" + str(o["e"])}@{"".join(map(str, o["w"]))}')
    return '[' + ', '.join(out) + ']'


def report_history(ctx, cirq, mods, rep, run=None):
    small = shrink_history(cirq, mods, rep)
    r = run_history(cirq, mods, small)
    bad = next((c for c in r['calls'] if not c['holds']), None)
    if bad is None:
        return False
    v = rep['vendor']
    name = {'pasqal': 'PasqalSampler', 'aqt': 'AQTSampler', 'aqt_local': 'AQTSamplerLocalSimulator'}.get(v, 'cirq_ionq.Service')
    earlier = [c for c in r['calls'] if c is not bad and c['expected'] is not None and c['got'] == bad['got'] and r['calls'].index(c) < r['calls'].index(bad)]
    kind = 'stale_payload' if earlier and bad['got'] != bad['expected'] else 'payload'
    got = describe_ids(small, bad['got']) if bad['got'] else '?'
    exp = describe_ids(small, bad['expected']) if bad['expected'] is not None else 'nothing'
    ename = {'svc_run': 'run', 'svc_create_job': 'create_job', 'svc_run_batch': 'run_batch', 'sampler': 'sampler().run_sweep'}.get(bad['entry'], bad['entry'])
    what = (f'{name}.{ename} posts a request body that does not describe the circuit as it is at the time of the call'
            f'{" (it re-posts the body of an EARLIER call on the same object)" if kind == "stale_payload" else ""}: body means {got}, circuit is {exp}'
            f'{" (" + bad["why"] + ")" if bad["why"] else ""}. History on ONE {name} object, a = {HVALS[bad["res"] - 1] if bad["res"] else "-"}: '
            + '; '.join(r['log'][:bad['at']]) + f'{" [submission " + str(bad["n"]) + " of the last call]" if bad["n"] > 0 else ""}')
    _disagree(ctx, f'correspondence:history_{v}', what[:400], f'history:{v}:{kind}', what, small)
    return True


def history_stream(ctx, cirq, mods, dchecks, n_random):
    rng = ctx.rng
    for vendor in ('pasqal', 'aqt', 'aqt_local', 'ionq', 'ionq_native'):
        stream = f'history_{vendor}'
        fixed = [(e, how) for e in H_ENTRIES[vendor] for how in sorted(set(H_FLAT_EDITS + H_FREE_EDITS))
                 if not (vendor.startswith('aqt') and how == 'mset')]
        plan = [(vendor, f) for f in fixed] + [(vendor, None)] * (n_random if not vendor.endswith(('local', 'native')) else max(4, n_random // 3))
        for vnd, f in plan:
            rep = gen_history(rng, cirq, mods, vnd, fixed=f)
            try:
                r = run_history(cirq, mods, rep)
            except Exception as e:
                ctx.mark_broken(f'correspondence:{stream}', f'history harness failed: {type(e).__name__}: {e} on {json.dumps(rep)[:400]}')
                continue
            nsub = len(r['calls'])
            edits = sum(1 for e in r['events'] if e.startswith('EEdit'))
            ctx.count(stream, rep, nsub >= 2 and edits >= 1, sample=dict(log=r['log'], posted=[describe_ids(rep, p) for p in r['posted']][:6]))
            ctx.cov.setdefault('history_edit_kinds', {}).setdefault(vendor, {})
            for st in rep['steps']:
                if st['t'] == 'edit':
                    ctx.cov['history_edit_kinds'][vendor][st['how']] = ctx.cov['history_edit_kinds'][vendor].get(st['how'], 0) + 1
            posted = '[' + '; '.join('[' + '; '.join(f'({x}, {j})' for x, j in p) + ']' for p in r['posted']) + ']'
            dchecks.append((stream, f'history_ok {gates.nlist(r["params"])} [{"; ".join(r["events"])}] {posted}', rep, 'history'))
            # the property's own reading (meaning of every body against the circuit at the time of the call) is judged on every history
            if not all(c['holds'] for c in r['calls']):
                rep['_reported'] = report_history(ctx, cirq, mods, rep)


def evaluate_history(ctx, cirq, mods, hchecks, SH=60):
    shards = []
    for s0 in range(0, len(hchecks), SH):
        part = hchecks[s0:s0 + SH]
        text = PRE_H + 'Definition checks : list bool := [\n' + ';\n'.join(c[1] for c in part) + '].\nEval vm_compute in failing (fun b => b) checks.\n'
        shards.append((f'c17h_{ctx.seed}_{s0 // SH}', text))
    outs = coq.coq_eval_many(shards, workers=12)
    for si, out in enumerate(outs):
        vals = coq.parse_evals(out)
        if not vals:
            ctx.mark_broken('correspondence:history', f'history cases did not evaluate: {out[-400:]}')
            continue
        for idx in coq.parse_nat_list(vals[0]):
            stream, expr, rep, what = hchecks[si * SH + idx]
            if rep.pop('_reported', False):
                continue
            try:
                holds = history_oracle(cirq, mods, rep)
            except Exception as e:
                ctx.mark_broken(f'correspondence:{stream}', f'oracle failed: {type(e).__name__}: {e}')
                continue
            if holds:
                ctx.mark_broken(f'correspondence:{stream}', 'the decoded request bodies differ from the history model although every body means the circuit '
                                f'at the time of its call: {json.dumps(rep)[:500]}')
            else:
                report_history(ctx, cirq, mods, rep)


def run(ctx):
    mods = env.import_cirq(('cirq_ionq', 'cirq_aqt', 'cirq_pasqal'))
    cirq = mods['cirq']
    ctx.rule = ('IonQ: generated circuits over the serializer vocabulary (X/Y/Z powers, rx/ry/rz, XX/YY/ZZ powers, ms, CNOT/H/SWAP at '
                'exponent = 1 mod 2, PauliStringPhasorGate; exponents at the special values, just inside/outside the 1e-8 window and generic; '
                'global shifts) on every subset of up to 4-5 LineQubits with terminal measurements under generated keys; '
                'non-trivial = >= 2 operations sharing a wire and >= 1 non-diagonal gate; distinct by canonical case. Histories: per vendor, for every entry '
                'point x every kind of in-place edit the fixed pattern submit / edit / submit-with-an-equal-resolver (every VERIF_SEED), plus random histories; '
                'non-trivial = >= 2 submissions and >= 1 in-place edit. AQT measurements: for n = 1..3 x 15 layouts (no measurement / in the middle / first / '
                'terminal under m or another key / subset / reversed order / invert mask / confusion map / two keys / measurement only) x basis-state and '
                'superposition gates x 3 entries (every VERIF_SEED), plus random gate lists with 0-2 measurements anywhere. Edge of the IonQ vocabulary: '
                '(CZ, CY, iSWAP, CCZ, CCX, CCY, H, CNOT, SWAP powers; controlled X/Y/Z/H powers, rotations and two-qubit powers built by .controlled() '
                'and by ControlledGate with 1-2 controls) x 18 exponents (special, window boundaries, generic) x wire layouts after a superposition '
                'preparation (835 circuits, every VERIF_SEED) plus random ones; refused or accepted-with-the-same-unitary. Batch results: 4 fixed batches '
                '(children differing in outcome / width+keys / position of the excitation / weights only) x 6 child-id schemes x QPU and simulator through '
                'Job.results, 3 fixed classical batches x 6 schemes x 2 targets through Service.run_batch (every VERIF_SEED), plus random batches of 1-4 '
                'children; non-trivial = >= 2 children that differ')
    ctx.assumptions += ['vendor gate definitions transcribed in coq/Vendor/IonQ.v (trusted text)',
                        'adapters: JSON fields copied verbatim, angles turned into unit complex numbers by Python cos/sin',
                        'float instance tolerance 1e-9 (5e-7 when an exponent lies inside the serializer window)']
    err = tables.regenerate(['EigenTables', 'IonqDispatch'])
    for name, e in err.items():
        if e:
            ctx.mark_broken(f'table:{name}', e)
    ctx.set_obligations(coq.compile_props('C17'))
    q = ctx.tier == 'quick'
    checks, dchecks = [], []
    ionq_payload_stream(ctx, cirq, mods, checks, dchecks, 200 if q else 3000)
    ionq_payload_stream(ctx, cirq, mods, checks, dchecks, 40 if q else 600, long=True)
    ionq_payload_stream(ctx, cirq, mods, checks, dchecks, 80 if q else 1200, native=True)
    ionq_many_stream(ctx, cirq, mods, checks, dchecks, 50 if q else 700)
    metadata_stream(ctx, cirq, mods, dchecks, 300 if q else 4000)
    results_stream(ctx, cirq, mods, dchecks, 200 if q else 3000)
    e2e_stream(ctx, cirq, mods, 60 if q else 800)
    reject_stream(ctx, cirq, mods, 3 if q else 30)
    aqt_payload_stream(ctx, cirq, mods, checks, 160 if q else 2500)
    aqt_results_stream(ctx, cirq, mods, 60 if q else 800)
    aqt_reject_stream(ctx, cirq, mods, 2 if q else 20)
    pasqal_stream(ctx, cirq, mods, 40 if q else 500)
    hchecks = []
    history_stream(ctx, cirq, mods, hchecks, 24 if q else 400)
    mchecks = []
    aqt_meas_stream(ctx, cirq, mods, mchecks, 60 if q else 1500)
    ionq_edge_stream(ctx, cirq, mods, checks, dchecks, 60 if q else 1500)
    batch_results_stream(ctx, cirq, mods, dchecks, 60 if q else 1500)
    e2e_batch_stream(ctx, cirq, mods, 20 if q else 400)
    evaluate(ctx, cirq, mods, checks)
    evaluate_discrete(ctx, cirq, mods, dchecks)
    evaluate_history(ctx, cirq, mods, hchecks)
    evaluate_aqt_meas(ctx, cirq, mods, mchecks)


def replay(ctx, data):
    mods = env.import_cirq(('cirq_ionq', 'cirq_aqt', 'cirq_pasqal'))
    cirq = mods['cirq']
    kind = data.get('kind')
    if kind == 'ionq_payload':
        case = data['case']
        try:
            prog = serialize_case(cirq, mods, case)
        except Exception as e:
            print('serializer raised', type(e).__name__, e)
            if case.get('edge'):
                print('content outside the accepted vocabulary was refused: nothing was altered')
                return True
            return False
        print('payload:', json.dumps(prog.input), prog.metadata)
        holds, _ = payload_oracle(cirq, mods, data)
        checks, dchecks = [], []
        recs = circuit_recs(cirq, mods, case)
        add_prog_checks(ctx, mods, checks, dchecks, 'replay', case, prog.input['circuit'], prog.input['qubits'], True, prog.metadata, data, recs)
        out = coq.parse_evals(coq.coq_eval('c17_replay', PRE + f'Eval vm_compute in ({checks[0][1]}).\n'))
        print('vendor semantics evaluated in Coq agree with the reference unitary:', out[0].strip())
        dout = coq.parse_evals(coq.coq_eval('c17_replay_d', PRE_D + 'Eval vm_compute in [' + '; '.join(c[1] for c in dchecks) + '].\n')) if dchecks else ['[]']
        print('metadata against the codec model:', dout[0])
        meta_ok = 'false' not in dout[0] and (impl_measurement_dict(mods, prog.metadata) == recs or len({k for k, _ in recs}) != len(recs))
        return holds and out[0].strip() == 'true' and meta_ok
    if kind == 'ionq_many':
        holds, small = payload_oracle(cirq, mods, data)
        print('batch payload holds:', holds, '' if holds else small)
        return holds
    if kind in ('ionq_metadata', 'ionq_results', 'ionq_batch_results', 'ionq_e2e', 'ionq_reject', 'aqt_payload', 'aqt_results', 'aqt_reject', 'aqt_meas', 'pasqal', 'history'):
        ok = replay_discrete(cirq, mods, data)
        return bool(ok)
    print('nothing to replay for', kind)
    return False
