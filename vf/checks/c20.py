"""C20 — asynchronous job orchestration resolves every job exactly once (DESIGN 5/C20)."""
import itertools
from .. import env, coq, runner, tables

LEVEL = 'proof'
META = dict(
    text='Coq theorems, for every completion schedule, every next_job oracle and every fault sequence (universally quantified lists, proved by invariants and induction): the collector loop never exceeds the concurrency, starts nothing once the budget is used, delivers every completed result exactly once to on_job_result with the right job, never blocks with nothing in flight and halts only when idle and out of work; the stream client routes a response to the waiter of its message id only, never reuses an id, creates the job at most once, returns only that job\'s result, terminates after finitely many retryable faults and surfaces non-retryable errors. The retry decision function is regenerated from _get_retry_request_or_raise/_is_retryable_error on every run; both hand-written models are compared event by event with the implementation under a deterministic driver of the duet scheduler and of an asyncio loop.',
    note='Trusted: Coq kernel; the Python drivers in vf/checks/c20.py (fake Sampler, fake Quantum Engine stream and server, hand-driven duet scheduler / asyncio loop, trace printing); vf/tables_c20.py (evaluating the retry functions on the working tree). The duet and asyncio runtimes, the thread hand-off of AsyncioExecutor and the behaviour of the real gRPC layer are driven, not verified: theorems are about the models, the models are tied to the code by the regenerated retry table and by the trace comparison on enumerated/sampled schedules.',
    technique='Rocq/Coq proof over executable Gallina state machines + regenerated decision table + vm_compute trace correspondence under a deterministic event-loop driver',
)

# ======================================================================================================================
# Collector: driver of the real collect_async under a hand-ticked duet scheduler
# ======================================================================================================================


class _Err(Exception):
    """The exception a fake sampler future fails with; carries the integer the schedule names it by."""

    def __init__(self, eid):
        super().__init__(f'job-error-{eid}')
        self.eid = eid


def _tree(rng_bits, jobs):
    """Present a flat list of jobs as one of the tree shapes next_job may return (exercises _flatten_jobs)."""
    k = rng_bits % 4
    if not jobs:
        return [None, [], [[]], ()][k]
    if len(jobs) == 1:
        return [jobs[0], [jobs[0]], [[jobs[0]]], (jobs[0],)][k]
    if k == 0:
        return list(jobs)
    if k == 1:
        return [jobs[0], list(jobs[1:])]
    if k == 2:
        return [[j] for j in jobs]
    return iter(list(jobs))


def run_collector(cirq, conc, budget, oracle, chooser, shape_bits=0):
    """Run Collector.collect_async on a fake sampler.

    oracle:  list of answers, each a list of (tag, reps).
    chooser: called at every quiescent point (no duet task ready) with the number of sampler futures in flight;
             returns a batch [(index, ('ok', payload) | ('err', eid)), ...] to complete now, or None to stop.
    Returns (trace, status, sched) where sched is the list of batches that were applied."""
    import duet
    from duet import impl
    trace = []
    sid_of_circuit, sid_of_job = {}, {}
    keep = []
    next_sid = [0]
    orc = list(oracle)
    ask_no = [0]

    class Job(cirq.CircuitSampleJob):
        # the loop reads .repetitions exactly when it charges the budget, immediately before spawning the task
        @property
        def repetitions(self):
            if id(self) not in sid_of_job:
                sid = next_sid[0]
                next_sid[0] += 1
                sid_of_job[id(self)] = sid
                sid_of_circuit[id(self.circuit)] = sid
                trace.append(('take', sid, self.tag, self._reps))
            return self._reps

        @repetitions.setter
        def repetitions(self, v):
            self._reps = v

    class Col(cirq.Collector):
        def next_job(self):
            ask_no[0] += 1
            ans = orc.pop(0) if orc else []
            jobs = []
            for (tg, r) in ans:
                j = Job(cirq.Circuit(), repetitions=r, tag=tg)
                keep.append(j)
                jobs.append(j)
            trace.append(('ask', [tg for tg, _ in ans]))
            return _tree((shape_bits >> (2 * (ask_no[0] % 8))) + ask_no[0], jobs)

        def on_job_result(self, job, result):
            trace.append(('result', sid_of_job.get(id(job), -1), job.tag, result))

    pending = []   # (sid, future) in run_async call order

    class Smp(cirq.Sampler):
        def run_sweep(self, *a, **k):
            raise NotImplementedError

        def run_async(self, program, *, repetitions):
            f = duet.AwaitableFuture()
            sid = sid_of_circuit.get(id(program), -1)
            pending.append((sid, f))
            trace.append(('start', sid))
            return f

    sch = impl.Scheduler()
    main = sch.spawn(Col().collect_async(Smp(), concurrency=conc, max_total_samples=budget))
    sched, status = [], None
    try:
        while sch.active_tasks:
            if not sch._ready_tasks._tasks:
                live = [(s, f) for s, f in pending if not f.done()]
                if len(live) != len(pending):      # a pending future was cancelled behind our back
                    status = ('broken', 'future cancelled while the loop is waiting')
                    break
                batch = chooser(len(pending))
                if batch is None:
                    status = ('waiting',)
                    break
                applied = []
                for n, o in batch:
                    if n >= len(pending):
                        continue
                    sid, f = pending.pop(n)
                    applied.append((n, o))
                    trace.append(('done', sid, o))
                    if o[0] == 'ok':
                        f.set_result(o[1])
                    else:
                        f.set_exception(_Err(o[1]))
                sched.append([(n, o) for n, o in batch])
                if not applied:
                    if not pending:
                        status = ('stuck',)        # loop is blocked and nothing is in flight: a lost wake-up
                        break
                    continue
            sch.tick()
        else:
            trace.append(('halt',))
            status = ('halted',)
    except NeedBranch:
        for t in list(sch.active_tasks):
            t.interrupt(None, RuntimeError('driver teardown'))
        for _ in range(50):
            if not sch.active_tasks:
                break
            try:
                sch.tick()
            except BaseException:
                pass
        raise
    except _Err as e:
        trace.append(('raise', e.eid))
        status = ('raised', e.eid)
    except BaseException as e:   # anything else escaping the loop
        trace.append(('raise', -1))
        status = ('raised', -1, repr(e))
    # tear down whatever is still alive (scope interrupts, cancelled futures); nothing may be delivered any more
    n_before = len(trace)
    for t in list(sch.active_tasks):
        t.interrupt(None, RuntimeError('driver teardown'))
    for _ in range(50):
        if not sch.active_tasks:
            break
        try:
            sch.tick()
        except BaseException:
            pass
    late = trace[n_before:]
    del trace[n_before:]
    return trace, status, sched, late, len(pending)


def collector_oracles(conc, budget, trace, status, late, n_pending):
    """The property's own statement, checked on the real trace (no model involved). Returns a list of failures."""
    bad = []
    take = start = done = result = 0
    charged = 0
    taken, done_at, results = {}, {}, {}
    err_pos = None
    last_ask = None
    for pos, ev in enumerate(trace):
        k = ev[0]
        if k == 'ask':
            last_ask = ev[1]
        elif k == 'take':
            if budget is not None and not (charged < budget):
                bad.append(('budget', f'job sid={ev[1]} started after {charged} of {budget} samples were requested'))
            charged += ev[3]
            take += 1
            taken[ev[1]] = ev[2]
            last_ask = 'take'
        elif k == 'start':
            start += 1
        elif k == 'done':
            done += 1
            done_at[ev[1]] = (pos, ev[2])
            if ev[2][0] == 'err' and err_pos is None:
                err_pos = pos
        elif k == 'result':
            result += 1
            sid = ev[1]
            if sid in results:
                bad.append(('exactly-once', f'result of job sid={sid} delivered twice'))
            results[sid] = ev[3]
            d = done_at.get(sid)
            if d is None or d[1] != ('ok', ev[3]) or taken.get(sid) != ev[2]:
                bad.append(('routing', f'on_job_result(job sid={sid} tag={ev[2]}, {ev[3]}) but that job completed with {d}'))
            elif err_pos is not None and d[0] > err_pos:
                bad.append(('after-error', f'result of job sid={sid} delivered although it completed after a job failed'))
        if start - done > conc or take - result > conc:
            bad.append(('concurrency', f'{start - done} sampler calls in flight / {take - result} running jobs with concurrency={conc}'))
    if late:
        bad.append(('after-stop', f'events after collect_async finished: {late[:3]}'))
    if status[0] == 'stuck':
        bad.append(('progress', 'collect_async is blocked although no job is in flight'))
    if status[0] == 'broken':
        bad.append(('progress', status[1]))
    if status[0] == 'halted':
        if n_pending:
            bad.append(('progress', f'collect_async returned while {n_pending} jobs are in flight'))
        missing = sorted(set(taken) - set(results))
        if missing and err_pos is None:
            bad.append(('exactly-once', f'jobs sid={missing} were started but their results never delivered'))
    if status[0] == 'raised' and err_pos is None:
        bad.append(('progress', f'collect_async raised {status[1:]} although no job failed'))
    if status[0] in ('halted', 'waiting'):
        capacity = take - result < conc and (budget is None or charged < budget)
        if capacity and conc > 0 and last_ask != []:
            bad.append(('progress', f'loop idles with spare capacity although next_job was not asked / still had work (last: {last_ask})'))
    return bad


def _z(n):
    return f'({int(n)})%Z'


def _lit_outcome(o):
    return f'(Ok {_z(o[1])})' if o[0] == 'ok' else f'(Err {_z(o[1])})'


def _lit_tev(ev):
    k = ev[0]
    Z = _z
    if k == 'ask':
        return '(EAsk [' + '; '.join(str(t) for t in ev[1]) + '])'
    if k == 'take':
        return f'(ETake {ev[1]} {ev[2]} {Z(ev[3])})'
    if k == 'start':
        return f'(EStart {ev[1]})' if ev[1] >= 0 else '(EStart 999999)'
    if k == 'done':
        return f'(EDone {ev[1]} {_lit_outcome(ev[2])})'
    if k == 'result':
        return f'(EResult {max(ev[1], 0) if ev[1] >= 0 else 999999} {ev[2]} {Z(ev[3])})'
    if k == 'raise':
        return f'(ERaise {Z(ev[1])})'
    if k == 'halt':
        return 'EHalt'
    raise ValueError(ev)


def _lit_status(s):
    return {'halted': 'Halted', 'waiting': 'Waiting'}.get(s[0]) or (f'(Raised {_z(s[1])})' if s[0] == 'raised' else 'OutOfFuel')


def _lit_case(conc, budget, oracle, sched, trace, status):
    orc = '[' + '; '.join('[' + '; '.join(f'mkjob {t} {_z(r)}' for t, r in a) + ']' for a in oracle) + ']'
    sch = '[' + '; '.join('[' + '; '.join(f'({n}, {_lit_outcome(o)})' for n, o in b) + ']' for b in sched) + ']'
    tr = '[' + '; '.join(_lit_tev(e) for e in trace) + ']'
    return f'({conc}, {coq.opt(budget, _z)}, {orc}, {sch}, {tr}, {_lit_status(status)})'


COL_HEADER = ('From Coq Require Import ZArith List Bool.\nFrom VF Require Import Base.Harness Async.Collector.\n'
              'Import ListNotations.\nOpen Scope nat_scope.\n')


def collector_compare(ctx, name, cases):
    """cases: list of dict(conc, budget, oracle, sched, trace, status). Returns indices where model and code differ."""
    bad = []
    for lo in range(0, len(cases), 400):
        shard = cases[lo:lo + 400]
        text = COL_HEADER + 'Definition cases : list (nat * option Z * list (list job) * list (list (nat * outcome)) * list tev * status) := [\n'
        text += ';\n'.join(_lit_case(c['conc'], c['budget'], c['oracle'], c['sched'], c['trace'], c['status']) for c in shard) + '].\n'
        text += 'Eval vm_compute in failing agrees cases.\n'
        vals = coq.parse_evals(coq.coq_eval(f'c20_{name}_{ctx.seed}_{lo}', text))
        bad += [lo + i for i in coq.parse_nat_list(vals[0])]
    return bad


def _scripted_chooser(script, menu_fn, taken):
    """Chooser driven by a list of option numbers; raises NeedBranch when the script runs out at a choice point."""
    pos = [0]

    def choose(k):
        menu = menu_fn(k)
        if not menu:
            return []
        if pos[0] >= len(script):
            raise NeedBranch(len(menu))
        i = script[pos[0]]
        pos[0] += 1
        taken.append(i)
        return menu[i % len(menu)]
    return choose


class NeedBranch(Exception):
    def __init__(self, n):
        self.n = n


def menu_orders(k):
    """every single completion: all completion orders of the jobs in flight"""
    return [[(i, ('ok', 100 + i))] for i in range(k)]


def menu_batches(k):
    """single completions, ordered pairs completing between two activations of the loop, and failures"""
    m = [[(i, ('ok', 100 + i))] for i in range(k)]
    m += [[(i, ('ok', 200 + i)), (j if j < i else j - 1, ('ok', 300 + j))] for i in range(k) for j in range(k) if i != j]
    m += [[(i, ('err', 7 + i))] for i in range(k)]
    m += [[(i, ('err', 17)), (0, ('ok', 400))] for i in range(k) if k > 1]
    m += [[(0, ('ok', 500)), (i, ('err', 27))] for i in range(k - 1)]
    return m


def collector_case(cirq, conc, budget, oracle, chooser, shape_bits=0):
    trace, status, sched, late, n_pending = run_collector(cirq, conc, budget, oracle, chooser, shape_bits)
    return dict(conc=conc, budget=budget, oracle=oracle, sched=sched, trace=trace, status=status, late=late,
                n_pending=n_pending)


def enumerate_collector(cirq, conc, budget, oracle, menu_fn, limit):
    """DFS over every choice the environment has at every quiescent point (bounded by `limit` complete runs)."""
    out, stack = [], [[]]
    while stack and len(out) < limit:
        script = stack.pop()
        taken = []
        try:
            out.append(collector_case(cirq, conc, budget, oracle, _scripted_chooser(script, menu_fn, taken)))
        except NeedBranch as nb:
            for i in reversed(range(nb.n)):
                stack.append(script + [i])
    return out, not stack


def random_collector_case(cirq, rng):
    conc = rng.choice([1, 2, 2, 3, 3, 4]) if rng.random() < 0.96 else 0
    njobs = rng.randint(2, 8)
    tags = iter(range(1000))
    oracle, left = [], njobs
    while left > 0 or rng.random() < 0.25:
        k = rng.choice([0, 1, 1, 2, 3]) if (left > 0 and (oracle or rng.random() < 0.1)) else (rng.choice([1, 2, 3]) if left > 0 else 0)
        k = min(k, left)
        left -= k
        oracle.append([(next(tags) if rng.random() < 0.9 else 0, rng.choice([1, 1, 2, 3, 5, 0])) for _ in range(k)])
        if len(oracle) > 12:
            break
    r = rng.random()
    budget = None if r < 0.45 else (rng.randint(1, 14) if r < 0.93 else rng.choice([0, -1]))
    perr = rng.choice([0, 0, 0.1, 0.3])
    stop_at = rng.choice([None] * 7 + [rng.randint(1, 5)])
    step = [0]

    def chooser(k):
        step[0] += 1
        if stop_at is not None and step[0] > stop_at:
            return None
        if k == 0:
            return []
        b, kk = [], k
        for _ in range(rng.choice([1, 1, 1, 2, 2, 3])):
            n = rng.randrange(kk + (1 if rng.random() < 0.1 else 0))     # occasionally an index past the end: ignored
            o = ('err', rng.randint(1, 9)) if rng.random() < perr else ('ok', rng.randint(-5, 50))
            b.append((n, o))
            if n < kk:
                kk -= 1
            if kk == 0:
                break
        return b
    return collector_case(cirq, conc, budget, oracle, chooser, shape_bits=rng.getrandbits(16))


def collector_stream(ctx, cirq):
    rng = ctx.rng
    cases = []
    # (1) exhaustive: all completion orders, <= 4 jobs, concurrency 1..3, budgets none / tight / cutting
    sweeps = []
    for conc in (1, 2, 3):
        for budget in (None, 7, 5, 2):
            for jobs4 in ([[(0, 2), (1, 2)], [(2, 2)], [], [(3, 2)]], [[(0, 2), (1, 2), (2, 2), (3, 2)]]):
                sweeps.append((conc, budget, jobs4, menu_orders, 400))
    if ctx.tier == 'thorough':
        for conc in (1, 2, 3):
            for budget in (None, 6, 3):
                for orc in ([[(0, 2)], [(1, 2)], [(2, 2)], [(3, 2)]], [[(0, 1), (1, 1), (2, 1), (3, 1)]],
                            [[(0, 2), (1, 2), (2, 2)], [], [], [(3, 2)]]):
                    sweeps.append((conc, budget, orc, menu_batches, 4000))
    else:
        sweeps.append((2, None, [[(0, 2), (1, 2)], [(2, 2)]], menu_batches, 300))
        sweeps.append((3, 5, [[(0, 2), (1, 2), (2, 2)], [(3, 2)]], menu_batches, 300))
    exhaustive_complete = True
    for conc, budget, orc, menu, limit in sweeps:
        cs, complete = enumerate_collector(cirq, conc, budget, orc, menu, limit)
        exhaustive_complete &= complete
        for c in cs:
            c['stream'] = 'collector_enum'
        cases += cs
    ctx.cov['collector_enumeration_complete'] = exhaustive_complete
    # (2) sampled: random oracles, budgets, concurrency, batches, failures, early stops
    n = 300 if ctx.tier == 'quick' else 6000
    for _ in range(n):
        c = random_collector_case(cirq, rng)
        c['stream'] = 'collector_random'
        cases.append(c)
    for c in cases:
        ntake = sum(1 for e in c['trace'] if e[0] == 'take')
        ctx.count(c['stream'], (c['conc'], c['budget'], c['oracle'], c['sched']), nontrivial=ntake >= 2,
                  sample=dict(concurrency=c['conc'], budget=c['budget'], oracle=c['oracle'], schedule=c['sched'],
                              trace=c['trace'], status=c['status']))
        for kind, what in collector_oracles(c['conc'], c['budget'], c['trace'], c['status'], c['late'], c['n_pending']):
            ctx.violation(f'collector:{kind}', f'collect_async(concurrency={c["conc"]}, max_total_samples={c["budget"]}): {what}',
                          dict(kind='collector', conc=c['conc'], budget=c['budget'], oracle=c['oracle'], sched=c['sched'],
                               failed=kind))
    for idx in collector_compare(ctx, 'collector', cases):
        c = cases[idx]
        ctx.mark_broken('correspondence:collector',
                        f'model and collect_async differ: conc={c["conc"]} budget={c["budget"]} oracle={c["oracle"]} '
                        f'sched={c["sched"]} real trace={c["trace"]} status={c["status"]}')


def replay_collector(cirq, data):
    sched = [[(n, tuple(o)) for n, o in b] for b in data['sched']]
    it = iter(sched)
    c = collector_case(cirq, data['conc'], data['budget'], [[tuple(j) for j in a] for a in data['oracle']],
                       lambda k: next(it, None))
    bad = collector_oracles(c['conc'], c['budget'], c['trace'], c['status'], c['late'], c['n_pending'])
    print('trace:', c['trace'])
    print('status:', c['status'], 'oracle failures:', bad)
    return not bad


# ======================================================================================================================


def run(ctx):
    mods = env.import_cirq(('cirq_google',))
    cirq = mods['cirq']
    ctx.rule = ('collector: every completion order / batch / failure choice at every quiescent point of the loop for <=4 jobs x '
                'concurrency 1..3 x budgets (DFS), plus random oracles (nested job trees, 0..7 jobs, empty answers), budgets, '
                'batches, failures and early stops; non-trivial = at least two jobs started; distinct by (concurrency, budget, '
                'oracle, schedule)')
    ctx.assumptions += ['duet scheduler ticked by hand: completions are applied only when no task is ready (quiescent points)',
                        'the fake Sampler returns duet futures completed by the driver; results are integers']
    ctx.set_obligations(coq.compile_props('C20'))
    collector_stream(ctx, cirq)


def replay(ctx, data):
    mods = env.import_cirq(('cirq_google',))
    cirq = mods['cirq']
    if data.get('kind') == 'collector':
        return replay_collector(cirq, data)
    print('nothing to replay for kind', data.get('kind'))
    return False
