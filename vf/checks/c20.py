"""C20 — asynchronous job orchestration resolves every job exactly once (DESIGN 5/C20)."""
import itertools
from .. import env, coq, runner, tables

LEVEL = 'proof'
META = dict(
    text='Coq theorems, for every completion schedule, every next_job oracle and every fault sequence (universally quantified lists, proved by invariants and induction): the collector loop never exceeds the concurrency, starts nothing once the budget is used, delivers every completed result exactly once to on_job_result with the right job, never blocks with nothing in flight and halts only when idle and out of work, and the exception it raises is the failure of one of the jobs; cirq.PauliSumCollector as the source of work (its next_job reads nothing but its own count of samples handed out): for every number of terms, samples_per_term > 0 and max_samples_per_job > 0 the work list hands out exactly samples_per_term samples of every term, in jobs of 1..max_samples_per_job samples for terms of the observable, and ends with next_job answering None exactly when all of it was handed out; the stream client routes a response to the waiter of its message id only, completes a submit future only through an event of its own job (its own response, the failure of its stream, its own cancellation, stop()) so that a late reply for a cancelled request completes nobody, sends cancel_quantum_job in exactly the steps in which a submit future ends cancelled and cancels a running submit (future cancelled, remote job cancelled) at every cancellation point - cancel() while idle, while a reply of any content or a stream failure of any kind is being delivered to it, stop() -, hands the response to the current request of a waiting execution to that execution in the same step, never reuses an id, creates the job at most once, returns only that job\'s result, terminates after finitely many retryable faults and surfaces non-retryable errors; every already-exists / does-not-exist reply that makes sense for the request it answers is answered by the right next request (JOB_ALREADY_EXISTS to either create request -> get the result, ...), the model server answers with nothing else, and hence along every event sequence in which the server answers from its state no submit ever ends in a StreamError; a failure of the response stream that is not a google API error at all (unwrapped transport error, failed credential refresh, library error, BaseException) is never retried whatever the regenerated table says and reaches every submitter in flight as that very failure, after any non-retryable failure nobody is left waiting / subscribed / on the wire, and the next submit is alone on a new stream. ProcessorSampler(max_concurrent_jobs): for every run of callers, job creations, job completions and returns accepted by the model of duet.Limiter + _run_sweep_async, the unfinished jobs never exceed the limit provided no caller arrives between a release and the resumption of the woken waiter (the unconditional statement is refuted by a witness that the check replays), every caller\'s job is created once and its own outcome returned to it once, no caller is lost, nobody waits while a slot is free, and the run can always go on. The retry decision function is regenerated from _get_retry_request_or_raise/_is_retryable_error on every run; both hand-written models are compared event by event with the implementation under a deterministic driver of the duet scheduler and of an asyncio loop.',
    note='Trusted: Coq kernel; the Python drivers in vf/checks/c20.py (fake Sampler, fake Quantum Engine stream and server, hand-driven duet scheduler / asyncio loop, trace printing); vf/tables_c20.py (evaluating the retry functions on the working tree). The model processor / job objects and the observing subclass of ProcessorSampler (run_sweep_async delegates to super()). The duet and asyncio runtimes, the thread hand-off of AsyncioExecutor and the behaviour of the real gRPC layer are driven, not verified: theorems are about the models, the models are tied to the code by the regenerated retry table and by the trace comparison on enumerated/sampled schedules.',
    technique='Rocq/Coq proof over executable Gallina state machines + regenerated decision table + vm_compute trace correspondence under a deterministic event-loop driver',
)

# ======================================================================================================================
# Collector: driver of the real collect_async under a hand-ticked duet scheduler
# ======================================================================================================================


class _StopDriver(BaseException):
    """Raised by the driver out of duet.run when the schedule ends while collect() is still waiting."""


class _Err(Exception):
    """The exception a fake sampler future fails with; carries the integer the schedule names it by."""

    def __init__(self, eid):
        super().__init__(f'job-error-{eid}')
        self.eid = eid


def _tree(rng_bits, jobs):
    """Present a flat list of jobs as one of the tree shapes next_job may return (exercises _flatten_jobs)."""
    k = rng_bits % 4
    if not jobs:
        return [None, [], [[]], ()][k]
    if len(jobs) == 1:
        return [jobs[0], [jobs[0]], [[jobs[0]]], (jobs[0],)][k]
    if k == 0:
        return list(jobs)
    if k == 1:
        return [jobs[0], list(jobs[1:])]
    if k == 2:
        return [[j] for j in jobs]
    return iter(list(jobs))


PAULI_OBSERVABLES = 3
FOREIGN_TERM = 999999


def pauli_ones(p, reps):
    """how many of the `reps` samples of a result with payload p have odd parity"""
    return p % (reps + 1)


def pauli_setup(cirq, k):
    """State preparation circuit, observable, its non-identity terms [(normalised Pauli string, coefficient)], the identity
    offset, and term_of(circuit): the index of the term a job's circuit measures, decided by what the circuit does (the state
    preparation followed by a change of basis U and a measurement 'out' of the term's qubits with U P U^-1 = Z..Z), or
    FOREIGN_TERM."""
    import numpy as np
    q0, q1, q2 = cirq.LineQubit.range(3)
    if k == 0:
        base, obs = cirq.Circuit(cirq.H(q0)), 0.5 * cirq.Z(q0) - 0.25 * cirq.X(q1) * cirq.Z(q0) + 2
    elif k == 1:
        base, obs = cirq.Circuit(cirq.X(q0), cirq.I(q1)), 2 * cirq.Z(q0) + 3 * cirq.Z(q1) + 5 * cirq.Z(q0) * cirq.Z(q1)
    else:       # several terms on the same qubit (told apart by the basis only), a weight-3 term, a negative offset
        base = cirq.Circuit(cirq.H(q0), cirq.CNOT(q0, q1))
        obs = cirq.X(q0) - cirq.Y(q0) + 0.5 * cirq.Z(q0) + 1.5 * cirq.Y(q1) * cirq.X(q2) * cirq.Z(q0) - 1
    obs = cirq.PauliSum.wrap(obs)
    terms = [(p / p.coefficient, complex(p.coefficient)) for p in obs if p]
    offset = sum(complex(p.coefficient) for p in obs if not p)
    cache = {}

    def term_of(circuit):
        circuit = cirq.Circuit(circuit)
        if len(circuit) < len(base) or cirq.Circuit(circuit[:len(base)]) != base:
            return FOREIGN_TERM
        suffix = tuple(op for m in circuit[len(base):] for op in m)
        if suffix not in cache:
            meas = [op for op in suffix if cirq.is_measurement(op)]
            rest = [op for op in suffix if not cirq.is_measurement(op)]
            found = FOREIGN_TERM
            if len(meas) == 1 and suffix[-1] is meas[0] and cirq.measurement_key_names(meas[0]) == {'out'}:
                qs = list(meas[0].qubits)
                if all(set(op.qubits) <= set(qs) for op in rest):
                    u = cirq.Circuit(rest).unitary(qubit_order=qs) if rest else np.eye(2 ** len(qs))
                    zs = cirq.PauliString({x: cirq.Z for x in qs}).matrix(qs)
                    hits = [t for t, (ps, _) in enumerate(terms) if set(ps.qubits) == set(qs)
                            and np.allclose(u @ ps.matrix(qs) @ u.conj().T, zs, atol=1e-9)]
                    if len(hits) == 1:
                        found = hits[0]
            cache[suffix] = found
        return cache[suffix]
    return dict(base=base, observable=obs, terms=terms, offset=offset, term_of=term_of,
                names=[str(ps) for ps, _ in terms])


def run_collector(cirq, conc, budget, oracle, chooser, shape_bits=0, pauli=None, entry='async'):
    """Run Collector.collect_async on a fake sampler.

    oracle:  list of answers, each a list of (tag, reps).
    chooser: called at every quiescent point (no duet task ready) with the number of sampler futures in flight;
             returns a batch [(index, ('ok', payload) | ('err', eid)), ...] to complete now, or None to stop.
    pauli:   None, or dict(samples_per_term, max_samples_per_job): the collector is then the real cirq.PauliSumCollector
             (an adaptive next_job); its answers are recorded into `oracle` (which must be passed empty) for the model.
    entry:   'async' = collect_async spawned on a hand-ticked duet scheduler; 'sync' = Collector.collect() (duet.run), the
             same completions being injected whenever duet.run's scheduler has no ready task.
    Returns (trace, status, sched, late, n_pending, energy); sched is the list of batches that were applied, status[0] one of
    halted / waiting / stuck / broken / raised; ('raised', eid, sid, repr): sid names the job whose own exception object the
    caller received, None if it is no job's exception."""
    import duet
    from duet import impl
    trace = []
    sid_of_circuit, sid_of_job = {}, {}
    keep = []
    next_sid = [0]
    orc = list(oracle)
    ask_no = [0]

    class Job(cirq.CircuitSampleJob):
        # the loop reads .repetitions exactly when it charges the budget, immediately before spawning the task
        @property
        def repetitions(self):
            if id(self) not in sid_of_job:
                sid = next_sid[0]
                next_sid[0] += 1
                sid_of_job[id(self)] = sid
                sid_of_circuit[id(self.circuit)] = sid
                trace.append(('take', sid, self.tag, self._reps))
            return self._reps

        @repetitions.setter
        def repetitions(self, v):
            self._reps = v

    class Col(cirq.Collector):
        def next_job(self):
            ask_no[0] += 1
            ans = orc.pop(0) if orc else []
            jobs = []
            for (tg, r) in ans:
                j = Job(cirq.Circuit(), repetitions=r, tag=tg)
                keep.append(j)
                jobs.append(j)
            trace.append(('ask', [tg for tg, _ in ans]))
            return _tree((shape_bits >> (2 * (ask_no[0] % 8))) + ask_no[0], jobs)

        def on_job_result(self, job, result):
            trace.append(('result', sid_of_job.get(id(job), -1), job.tag, result))

    pending = []   # (sid, future) in run_async call order
    payload_of = {}
    err_objs = {}  # sid -> the exception object the sampler raised for that job

    class PCol(cirq.PauliSumCollector):
        """The real PauliSumCollector; only its job objects are re-wrapped so that the trace can name them."""

        def next_job(self):
            ask_no[0] += 1
            j = super().next_job()
            jobs = []
            if j is not None:
                tg = setup['term_of'](j.circuit)
                w = Job(j.circuit, repetitions=j.repetitions, tag=tg)
                w.original = j
                keep.append(w)
                jobs.append(w)
                oracle.append([(tg, j.repetitions)])
            else:
                oracle.append([])
            trace.append(('ask', [x.tag for x in jobs]))
            return jobs[0] if jobs else None

        def on_job_result(self, job, result):
            trace.append(('result', sid_of_job.get(id(job), -1), job.tag, payload_of.get(id(result), -999)))
            super().on_job_result(job.original, result)

    class Smp(cirq.Sampler):
        def run_sweep(self, *a, **k):
            raise NotImplementedError

        def run_async(self, program, *, repetitions):
            f = duet.AwaitableFuture()
            sid = sid_of_circuit.get(id(program), -1)
            f.program, f.reps = program, repetitions
            pending.append((sid, f))
            trace.append(('start', sid))
            return f

    def make_result(f, p):
        if pauli is None:
            return p
        import numpy as np
        nq = len([op for op in f.program.all_operations() if cirq.is_measurement(op)][0].qubits)
        # the payload decides the samples: pauli_ones(p, reps) rows of odd parity, the others of even parity
        ones = pauli_ones(p, f.reps)
        bits = np.zeros((f.reps, nq), dtype=np.int8)
        for row in range(f.reps):
            if row < ones:
                bits[row, :(3 if nq >= 3 and row % 2 else 1)] = 1
            elif nq >= 2 and row % 2:
                bits[row, nq - 2:] = 1
        r = cirq.ResultDict(params=cirq.ParamResolver({}), measurements={'out': bits})
        payload_of[id(r)] = p
        keep.append(r)
        return r

    if pauli is not None:
        setup = pauli_setup(cirq, pauli.get('obs', 0))
        the_col = PCol(setup['base'], setup['observable'],
                       samples_per_term=pauli['samples_per_term'], max_samples_per_job=pauli['max_samples_per_job'])
    else:
        the_col = Col()
    sched, box = [], dict(status=None)

    def quiescent():
        """No duet task is ready: complete the chooser's next batch. False = stop driving (box['status'] says why)."""
        while True:
            live = [(s, f) for s, f in pending if not f.done()]
            if len(live) != len(pending):      # a pending future was cancelled behind our back
                box['status'] = ('broken', 'future cancelled while the loop is waiting')
                return False
            batch = chooser(len(pending))
            if batch is None:
                box['status'] = ('waiting',)
                return False
            applied = []
            for n, o in batch:
                if n >= len(pending):
                    continue
                sid, f = pending.pop(n)
                applied.append((n, o))
                trace.append(('done', sid, o))
                if o[0] == 'ok':
                    f.set_result(make_result(f, o[1]))
                else:
                    err_objs[sid] = _Err(o[1])
                    f.set_exception(err_objs[sid])
            sched.append([(n, o) for n, o in batch])
            if applied:
                return True
            if not pending:
                box['status'] = ('stuck',)        # loop is blocked and nothing is in flight: a lost wake-up
                return False

    def received(e):
        """what the caller receives: (eid, sid of the job whose own exception object it is, repr)"""
        owner = [sid for sid, x in err_objs.items() if x is e]
        eid = e.eid if isinstance(e, _Err) and owner else -1
        trace.append(('raise', eid))
        box['status'] = ('raised', eid, owner[0] if owner else None, repr(e))

    if entry == 'sync':
        # Collector.collect(): duet.run with its own scheduler and teardown; the driver only injects the completions when
        # that scheduler is about to block (no task ready)
        tearing = [None]

        class Driven(impl.Scheduler):
            def tick(self):
                if tearing[0] is None and self.active_tasks and not self._ready_tasks._tasks:
                    try:
                        go = quiescent()
                    except NeedBranch:
                        tearing[0] = len(trace)
                        raise
                    if not go:
                        tearing[0] = len(trace)
                        raise _StopDriver()
                try:
                    super().tick()
                except BaseException:
                    if tearing[0] is None:
                        tearing[0] = len(trace)
                    raise

        saved = impl.Scheduler
        impl.Scheduler = Driven
        try:
            the_col.collect(Smp(), concurrency=conc, max_total_samples=budget)
            trace.append(('halt',))
            box['status'] = ('halted',)
        except (NeedBranch, KeyboardInterrupt):
            raise
        except _StopDriver:
            pass
        except BaseException as e:
            n = tearing[0] if tearing[0] is not None else len(trace)
            tail = trace[n:]
            del trace[n:]
            received(e)
            trace.extend(tail)
            tearing[0] = n + 1
        finally:
            impl.Scheduler = saved
        n_before = tearing[0] if tearing[0] is not None else len(trace)
    else:
        sch = impl.Scheduler()
        sch.spawn(the_col.collect_async(Smp(), concurrency=conc, max_total_samples=budget))

        def teardown():
            for t in list(sch.active_tasks):
                t.interrupt(None, RuntimeError('driver teardown'))
            for _ in range(50):
                if not sch.active_tasks:
                    break
                try:
                    sch.tick()
                except BaseException:
                    pass
        try:
            while sch.active_tasks:
                if not sch._ready_tasks._tasks and not quiescent():
                    break
                sch.tick()
            else:
                trace.append(('halt',))
                box['status'] = ('halted',)
        except (NeedBranch, KeyboardInterrupt):
            teardown()
            raise
        except BaseException as e:
            received(e)
        # tear down whatever is still alive (scope interrupts, cancelled futures); nothing may be delivered any more
        n_before = len(trace)
        teardown()
    status = box['status']
    late = trace[n_before:]
    del trace[n_before:]
    energy = the_col.estimated_energy() if pauli is not None else None
    return trace, status, sched, late, len(pending), energy


def collector_oracles(conc, budget, trace, status, late, n_pending):
    """The property's own statement, checked on the real trace (no model involved). Returns a list of failures."""
    bad = []
    take = start = done = result = 0
    charged = 0
    taken, done_at, results = {}, {}, {}
    err_pos = None
    last_ask = None
    for pos, ev in enumerate(trace):
        k = ev[0]
        if k == 'ask':
            last_ask = ev[1]
        elif k == 'take':
            if budget is not None and not (charged < budget):
                bad.append(('budget', f'job sid={ev[1]} started after {charged} of {budget} samples were requested'))
            charged += ev[3]
            take += 1
            taken[ev[1]] = ev[2]
            last_ask = 'take'
        elif k == 'start':
            start += 1
        elif k == 'done':
            done += 1
            done_at[ev[1]] = (pos, ev[2])
            if ev[2][0] == 'err' and err_pos is None:
                err_pos = pos
        elif k == 'result':
            result += 1
            sid = ev[1]
            if sid in results:
                bad.append(('exactly-once', f'result of job sid={sid} delivered twice'))
            results[sid] = ev[3]
            d = done_at.get(sid)
            if d is None or d[1] != ('ok', ev[3]) or taken.get(sid) != ev[2]:
                bad.append(('routing', f'on_job_result(job sid={sid} tag={ev[2]}, {ev[3]}) but that job completed with {d}'))
            elif err_pos is not None and d[0] > err_pos:
                bad.append(('after-error', f'result of job sid={sid} delivered although it completed after a job failed'))
        if start - done > conc or take - result > conc:
            bad.append(('concurrency', f'{start - done} sampler calls in flight / {take - result} running jobs with concurrency={conc}'))
    if late:
        bad.append(('after-stop', f'events after collect_async finished: {late[:3]}'))
    if status[0] == 'stuck':
        bad.append(('progress', 'collect_async is blocked although no job is in flight'))
    if status[0] == 'broken':
        bad.append(('progress', status[1]))
    if status[0] == 'halted':
        if n_pending:
            bad.append(('progress', f'collect_async returned while {n_pending} jobs are in flight'))
        missing = sorted(set(taken) - set(results))
        if missing and err_pos is None:
            bad.append(('exactly-once', f'jobs sid={missing} were started but their results never delivered'))
    if status[0] == 'raised' and err_pos is None:
        bad.append(('progress', f'collect_async raised {status[1:]} although no job failed'))
    if status[0] == 'raised' and err_pos is not None:
        # the error of a submitted job reaches the submitter: what the caller receives is the very exception object the
        # sampler raised for one of the jobs that failed - nothing else, whatever else completed in the same turn
        failed = {sid: o[1] for sid, (_, o) in done_at.items() if o[0] == 'err'}
        lo = hi = err_pos
        while lo > 0 and trace[lo - 1][0] == 'done':
            lo -= 1
        while hi + 1 < len(trace) and trace[hi + 1][0] == 'done':
            hi += 1
        same_turn = [(ev[1], ev[2]) for ev in trace[lo:hi + 1]]
        first = min(failed, key=lambda x: done_at[x][0])
        if status[2] is None or status[2] not in failed:
            bad.append(('foreign-error', f'the caller received {status[3]} instead of the failed job\'s own exception '
                                         f'(job sid={first} failed with job-error-{failed[first]}; completed in that scheduler '
                                         f'turn, in order: {same_turn})'))
    if status[0] in ('halted', 'waiting'):
        capacity = take - result < conc and (budget is None or charged < budget)
        if capacity and conc > 0 and last_ask != []:
            bad.append(('progress', f'loop idles with spare capacity although next_job was not asked / still had work (last: {last_ask})'))
    return bad


def pauli_reference_energy(setup, trace):
    """energy estimate from the results that were delivered: term = the one the job's circuit measures, samples = payload"""
    reps_of = {ev[1]: ev[3] for ev in trace if ev[0] == 'take'}
    zeros, ones = {}, {}
    for ev in trace:
        if ev[0] == 'result' and ev[1] in reps_of and ev[2] < len(setup['terms']):
            o = pauli_ones(ev[3], reps_of[ev[1]])
            ones[ev[2]] = ones.get(ev[2], 0) + o
            zeros[ev[2]] = zeros.get(ev[2], 0) + reps_of[ev[1]] - o
    e = setup['offset']
    for t, (_, coef) in enumerate(setup['terms']):
        a, b = zeros.get(t, 0), ones.get(t, 0)
        if a + b:
            e += coef * (a - b) / (a + b)
    return e


def paulisum_oracles(setup, c):
    """cirq.PauliSumCollector as the source of work, judged by what it promises: samples_per_term samples of every term, asked
    for in jobs of at most max_samples_per_job - every unit of work handed out exactly once however many jobs are in flight
    and whatever order they complete in - and an estimate made of exactly the results that were delivered."""
    bad = []
    spt, mj = c['pauli']['samples_per_term'], c['pauli']['max_samples_per_job']
    names, n = setup['names'], len(setup['terms'])
    trace, status, budget = c['trace'], c['status'], c['budget']
    req, njobs, charged, inflight = {}, {}, 0, 0
    jobs = [(ev[2], ev[3]) for ev in trace if ev[0] == 'take']
    over = set()
    flying = {}
    for ev in trace:
        if ev[0] == 'take':
            _, sid, t, reps = ev
            if t >= n:
                bad.append(('foreign-job', f'job sid={sid} measures none of the observable\'s terms'))
                continue
            if not 1 <= reps <= mj:
                bad.append(('job-size', f'job sid={sid} for term {t} ({names[t]}) asks for {reps} samples, max_samples_per_job={mj}'))
            req[t] = req.get(t, 0) + reps
            njobs[t] = njobs.get(t, 0) + 1
            charged += reps
            if req[t] > spt and t not in over:
                over.add(t)
                others = sorted(s for s, tt in flying.items() if tt == t)
                bad.append(('work-once', f'term {t} ({names[t]}): {req[t]} samples requested from the sampler, samples_per_term={spt}: '
                                         f'job sid={sid} repeats work that was already handed out (jobs for that term in flight when '
                                         f'it was started: sid={others}, {len(flying)} jobs in flight in all)'))
            flying[sid] = t
        elif ev[0] == 'done':
            flying.pop(ev[1], None)
    failed = any(ev[0] == 'done' and ev[2][0] == 'err' for ev in trace)
    if status[0] == 'halted' and not failed and (budget is None or charged < budget):
        for t in range(n):
            if req.get(t, 0) < spt:
                bad.append(('work-once', f'collect finished with work left: term {t} ({names[t]}) was requested {req.get(t, 0)} of '
                                         f'samples_per_term={spt} samples'))
            elif req.get(t, 0) == spt and njobs[t] != -(-spt // mj):
                bad.append(('work-split', f'term {t} ({names[t]}): {spt} samples requested in {njobs[t]} jobs, max_samples_per_job={mj}'))
    ref = pauli_reference_energy(setup, trace)
    if status[0] != 'broken' and abs(complex(c['energy']) - ref) > 1e-9:
        bad.append(('tally', f'estimated_energy() = {c["energy"]}, but the delivered results (term measured by the job\'s circuit, '
                             f'parities of its samples) give {ref}'))
    return [(k, w + f' [jobs (term, repetitions) in dispatch order: {jobs}]') for k, w in bad]


def _z(n):
    return f'({int(n)})%Z'


def _lit_outcome(o):
    return f'(Ok {_z(o[1])})' if o[0] == 'ok' else f'(Err {_z(o[1])})'


def _lit_tev(ev):
    k = ev[0]
    Z = _z
    if k == 'ask':
        return '(EAsk [' + '; '.join(str(t) for t in ev[1]) + '])'
    if k == 'take':
        return f'(ETake {ev[1]} {ev[2]} {Z(ev[3])})'
    if k == 'start':
        return f'(EStart {ev[1]})' if ev[1] >= 0 else '(EStart 999999)'
    if k == 'done':
        return f'(EDone {ev[1]} {_lit_outcome(ev[2])})'
    if k == 'result':
        return f'(EResult {max(ev[1], 0) if ev[1] >= 0 else 999999} {ev[2]} {Z(ev[3])})'
    if k == 'raise':
        return f'(ERaise {Z(ev[1])})'
    if k == 'halt':
        return 'EHalt'
    raise ValueError(ev)


def _lit_status(s):
    return {'halted': 'Halted', 'waiting': 'Waiting'}.get(s[0]) or (f'(Raised {_z(s[1])})' if s[0] == 'raised' else 'OutOfFuel')


def _lit_case(conc, budget, oracle, sched, trace, status):
    orc = '[' + '; '.join('[' + '; '.join(f'mkjob {t} {_z(r)}' for t, r in a) + ']' for a in oracle) + ']'
    sch = '[' + '; '.join('[' + '; '.join(f'({n}, {_lit_outcome(o)})' for n, o in b) + ']' for b in sched) + ']'
    tr = '[' + '; '.join(_lit_tev(e) for e in trace) + ']'
    return f'({conc}, {coq.opt(budget, _z)}, {orc}, {sch}, {tr}, {_lit_status(status)})'


COL_HEADER = ('From Coq Require Import ZArith List Bool.\nFrom VF Require Import Base.Harness Async.Collector.\n'
              'Import ListNotations.\nOpen Scope nat_scope.\n')


def collector_compare(ctx, name, cases):
    """cases: list of dict(conc, budget, oracle, sched, trace, status). Returns indices where model and code differ."""
    bad = []
    for lo in range(0, len(cases), 400):
        shard = cases[lo:lo + 400]
        text = COL_HEADER + 'Definition cases : list (nat * option Z * list (list job) * list (list (nat * outcome)) * list tev * status) := [\n'
        text += ';\n'.join(_lit_case(c['conc'], c['budget'], c['oracle'], c['sched'], c['trace'], c['status']) for c in shard) + '].\n'
        text += 'Eval vm_compute in failing agrees cases.\n'
        vals = coq.parse_evals(coq.coq_eval(f'c20_{name}_{ctx.seed}_{lo}', text))
        bad += [lo + i for i in coq.parse_nat_list(vals[0])]
    return bad


def pauli_compare(ctx, cases):
    """cases: (number of terms, pauli dict, recorded next_job answers). Indices where the answers are not the model's."""
    bad = []
    hdr = COL_HEADER.replace('Async.Collector.', 'Async.Collector Async.PauliWork.')
    for lo in range(0, len(cases), 400):
        shard = cases[lo:lo + 400]
        text = hdr + 'Definition cases : list (Z * Z * Z * list (list job)) := [\n'
        text += ';\n'.join(
            f'({_z(n)}, {_z(pl["samples_per_term"])}, {_z(pl["max_samples_per_job"])}, ['
            + '; '.join('[' + '; '.join(f'mkjob {t} {_z(r)}' for t, r in a) + ']' for a in orc) + '])' for n, pl, orc in shard) + '].\n'
        text += 'Eval vm_compute in failing pagrees cases.\n'
        vals = coq.parse_evals(coq.coq_eval(f'c20_pauliwork_{ctx.seed}_{lo}', text))
        bad += [lo + i for i in coq.parse_nat_list(vals[0])]
    return bad


def _scripted_chooser(script, menu_fn, taken):
    """Chooser driven by a list of option numbers; raises NeedBranch when the script runs out at a choice point."""
    pos = [0]

    def choose(k):
        menu = menu_fn(k)
        if not menu:
            return []
        if pos[0] >= len(script):
            raise NeedBranch(len(menu))
        i = script[pos[0]]
        pos[0] += 1
        taken.append(i)
        return menu[i % len(menu)]
    return choose


class NeedBranch(Exception):
    def __init__(self, n):
        self.n = n


def menu_orders(k):
    """every single completion: all completion orders of the jobs in flight"""
    return [[(i, ('ok', 100 + i))] for i in range(k)]


def menu_batches(k):
    """single completions, ordered pairs completing between two activations of the loop, and failures"""
    m = [[(i, ('ok', 100 + i))] for i in range(k)]
    m += [[(i, ('ok', 200 + i)), (j if j < i else j - 1, ('ok', 300 + j))] for i in range(k) for j in range(k) if i != j]
    m += [[(i, ('err', 7 + i))] for i in range(k)]
    m += [[(i, ('err', 17)), (0, ('ok', 400))] for i in range(k) if k > 1]
    m += [[(0, ('ok', 500)), (i, ('err', 27))] for i in range(k - 1)]
    return m


def collector_case(cirq, conc, budget, oracle, chooser, shape_bits=0, pauli=None, entry='async'):
    trace, status, sched, late, n_pending, energy = run_collector(cirq, conc, budget, oracle, chooser, shape_bits, pauli, entry)
    return dict(conc=conc, budget=budget, oracle=oracle, sched=sched, trace=trace, status=status, late=late,
                n_pending=n_pending, energy=energy, pauli=pauli, entry=entry)


def sid_chooser(groups, outcomes):
    """Chooser for a schedule written by job: groups = scheduler turns, each a list of sids (start order) completing together,
    in that order; outcomes[sid] = ('ok', payload) | ('err', eid). A sid that is not in flight (any more / yet) is skipped."""
    it = iter(groups)
    completed = set()

    def choose(k):
        g = next(it, None)
        if g is None:
            return None
        pend = [x for x in range(k + len(completed)) if x not in completed]     # sids are handed out in start order
        b = []
        for sid in g:
            if sid in pend:
                b.append((pend.index(sid), outcomes[sid]))
                pend.remove(sid)
                completed.add(sid)
        return b
    return choose


def _ordered_partitions(seq):
    """every way of cutting the sequence into consecutive non-empty groups"""
    for cuts in itertools.product((False, True), repeat=len(seq) - 1):
        groups, cur = [], [seq[0]]
        for x, cut in zip(seq[1:], cuts):
            if cut:
                groups.append(cur)
                cur = [x]
            else:
                cur.append(x)
        groups.append(cur)
        yield groups


def failure_turn_grid(quick):
    """Several jobs in flight, some of them failing: every assignment of success / failure to the jobs, every completion
    order and every grouping of the completions into scheduler turns (jobs of one group complete before the loop or any job
    coroutine runs again). Schedules are cut after the first turn that contains a failure (nothing runs after it) and
    deduplicated. Yields (conc, budget, oracle, groups, outcomes)."""
    configs = [(2, None, [[(0, 1), (1, 1)]]),                          # both from one next_job answer
               (3, None, [[(0, 1)], [(1, 1)], [(2, 1)]]),             # three jobs, one per answer, all in flight
               (2, None, [[(0, 2), (1, 2), (2, 2)]]),                 # the third starts when the first result was consumed
               (3, 7, [[(0, 2), (1, 2)], [(2, 2), (3, 2)]])]          # budget admits four, at most three in flight
    if not quick:
        configs += [(4, None, [[(0, 1), (1, 1)], [(2, 1), (3, 1)]]), (2, None, [[(0, 1)], [(1, 1)], [(2, 1)], [(3, 1)]])]
    for conc, budget, oracle in configs:
        n = sum(len(a) for a in oracle)
        seen = set()
        for fails in itertools.product((False, True), repeat=n):
            outcomes = [('err', 40 + sid) if f else ('ok', 600 + sid) for sid, f in enumerate(fails)]
            for order in itertools.permutations(range(n)):
                for groups in _ordered_partitions(list(order)):
                    cut = []
                    for g in groups:
                        cut.append(g)
                        if any(fails[sid] for sid in g):
                            break
                    key = (fails, tuple(map(tuple, cut)))
                    if key not in seen:
                        seen.add(key)
                        yield conc, budget, oracle, cut, outcomes


PAULI_POLICIES = ('oldest', 'youngest', 'alternate', 'pairs', 'all-reversed')


def policy_chooser(policy, fail_at=None):
    """Completion order by rule, k = jobs in flight: the oldest / the youngest / alternately / the two oldest in one scheduler
    turn / everything in flight in one turn, youngest first. Payloads differ from completion to completion; the fail_at-th
    completion (if any) is a failure."""
    step = [0]

    def outcome():
        step[0] += 1
        return ('err', 30 + step[0]) if step[0] == fail_at else ('ok', 5 * step[0] + 2)

    def choose(k):
        if k == 0:
            return []
        if policy == 'oldest':
            return [(0, outcome())]
        if policy == 'youngest':
            return [(k - 1, outcome())]
        if policy == 'alternate':
            return [(0 if step[0] % 2 else k - 1, outcome())]
        if policy == 'pairs':
            return [(0, outcome())] + ([(0, outcome())] if k > 1 else [])
        return [(i, outcome()) for i in reversed(range(k))]
    return choose


def pauli_grid(quick):
    """PauliSumCollector with several jobs in flight, every seed: concurrency 1..4 x (samples_per_term, max_samples_per_job)
    {one job per term, uneven split, one sample per job, larger numbers} x three observables x five completion orders, through
    collect_async and collect(); with max_total_samples cutting the work; with a failing job.
    Yields (conc, budget, pauli, policy, fail_at, entry)."""
    sizes = [(4, 100), (5, 2), (3, 1), (40, 15), (30, 10)]
    for conc in (1, 2, 3, 4):
        for spt, mj in sizes:
            for obs in range(PAULI_OBSERVABLES):
                for policy in PAULI_POLICIES:
                    pauli = dict(samples_per_term=spt, max_samples_per_job=mj, obs=obs)
                    yield conc, None, pauli, policy, None, 'async'
                    if policy in ('oldest', 'all-reversed') or not quick:
                        yield conc, None, pauli, policy, None, 'sync'
    for conc in (2, 3):
        for budget in (4, 7, 11, 16):
            for policy in ('youngest', 'pairs'):
                yield conc, budget, dict(samples_per_term=5, max_samples_per_job=2, obs=1), policy, None, 'async'
    for conc in (2, 4):
        for obs in range(PAULI_OBSERVABLES):
            for fail_at in (1, 3, 4):
                yield conc, None, dict(samples_per_term=5, max_samples_per_job=2, obs=obs), 'alternate', fail_at, 'async'


def enumerate_collector(cirq, conc, budget, oracle, menu_fn, limit):
    """DFS over every choice the environment has at every quiescent point (bounded by `limit` complete runs)."""
    out, stack = [], [[]]
    while stack and len(out) < limit:
        script = stack.pop()
        taken = []
        try:
            out.append(collector_case(cirq, conc, budget, oracle, _scripted_chooser(script, menu_fn, taken)))
        except NeedBranch as nb:
            for i in reversed(range(nb.n)):
                stack.append(script + [i])
    return out, not stack


def random_collector_case(cirq, rng):
    conc = rng.choice([1, 2, 2, 3, 3, 4]) if rng.random() < 0.96 else 0
    njobs = rng.randint(2, 8)
    tags = iter(range(1000))
    oracle, left = [], njobs
    while left > 0 or rng.random() < 0.25:
        k = rng.choice([0, 1, 1, 2, 3]) if (left > 0 and (oracle or rng.random() < 0.1)) else (rng.choice([1, 2, 3]) if left > 0 else 0)
        k = min(k, left)
        left -= k
        oracle.append([(next(tags) if rng.random() < 0.9 else 0, rng.choice([1, 1, 2, 3, 5, 0])) for _ in range(k)])
        if len(oracle) > 12:
            break
    r = rng.random()
    budget = None if r < 0.45 else (rng.randint(1, 14) if r < 0.93 else rng.choice([0, -1]))
    perr = rng.choice([0, 0, 0.1, 0.3])
    stop_at = rng.choice([None] * 7 + [rng.randint(1, 5)])
    step = [0]

    def chooser(k):
        step[0] += 1
        if stop_at is not None and step[0] > stop_at:
            return None
        if k == 0:
            return []
        b, kk = [], k
        for _ in range(rng.choice([1, 1, 1, 2, 2, 3])):
            n = rng.randrange(kk + (1 if rng.random() < 0.1 else 0))     # occasionally an index past the end: ignored
            o = ('err', rng.randint(1, 9)) if rng.random() < perr else ('ok', rng.randint(-5, 50))
            b.append((n, o))
            if n < kk:
                kk -= 1
            if kk == 0:
                break
        return b
    return collector_case(cirq, conc, budget, oracle, chooser, shape_bits=rng.getrandbits(16),
                          entry='sync' if rng.random() < 0.2 else 'async')


def collector_stream(ctx, cirq):
    rng = ctx.rng
    cases = []
    # (1) exhaustive: all completion orders, <= 4 jobs, concurrency 1..3, budgets none / tight / cutting
    sweeps = []
    for conc in (1, 2, 3):
        for budget in (None, 7, 5, 2):
            for jobs4 in ([[(0, 2), (1, 2)], [(2, 2)], [], [(3, 2)]], [[(0, 2), (1, 2), (2, 2), (3, 2)]]):
                sweeps.append((conc, budget, jobs4, menu_orders, 400))
    if ctx.tier == 'thorough':
        for conc in (1, 2, 3):
            for budget in (None, 6, 3):
                for orc in ([[(0, 2)], [(1, 2)], [(2, 2)], [(3, 2)]], [[(0, 1), (1, 1), (2, 1), (3, 1)]],
                            [[(0, 2), (1, 2), (2, 2)], [], [], [(3, 2)]]):
                    sweeps.append((conc, budget, orc, menu_batches, 4000))
    else:
        sweeps.append((2, None, [[(0, 2), (1, 2)], [(2, 2)]], menu_batches, 300))
        sweeps.append((3, 5, [[(0, 2), (1, 2), (2, 2)], [(3, 2)]], menu_batches, 300))
    exhaustive_complete = True
    for conc, budget, orc, menu, limit in sweeps:
        cs, complete = enumerate_collector(cirq, conc, budget, orc, menu, limit)
        exhaustive_complete &= complete
        for c in cs:
            c['stream'] = 'collector_enum'
        cases += cs
    ctx.cov['collector_enumeration_complete'] = exhaustive_complete
    # (2) sampled: random oracles, budgets, concurrency, batches, failures, early stops
    n = 300 if ctx.tier == 'quick' else 6000
    for _ in range(n):
        c = random_collector_case(cirq, rng)
        c['stream'] = 'collector_random'
        cases.append(c)
    # (2b) fixed grid, every seed: failures among several jobs in flight x completion order x grouping into scheduler turns,
    #      through collect_async (hand-ticked scheduler) and through collect() (duet.run)
    for conc, budget, orc, groups, outcomes in failure_turn_grid(ctx.tier == 'quick'):
        for entry in ('async', 'sync'):
            c = collector_case(cirq, conc, budget, orc, sid_chooser(groups, outcomes), entry=entry)
            c['stream'] = 'collector_failure_turns'
            cases.append(c)
    # (3) the real PauliSumCollector as the (adaptive) source of jobs: fixed grid (every seed) + random completion orders
    setups = [pauli_setup(cirq, k) for k in range(PAULI_OBSERVABLES)]
    pcases = []
    for conc, budget, pauli, policy, fail_at, entry in pauli_grid(ctx.tier == 'quick'):
        c = collector_case(cirq, conc, budget, [], policy_chooser(policy, fail_at), pauli=pauli, entry=entry)
        c['stream'] = 'collector_paulisum_grid'
        pcases.append(c)
    for i in range(40 if ctx.tier == 'quick' else 600):
        pauli = dict(samples_per_term=rng.choice([3, 5, 8, 12]), max_samples_per_job=rng.choice([1, 2, 3, 5, 100]),
                     obs=rng.randrange(PAULI_OBSERVABLES))
        conc = rng.choice([1, 2, 3, 4])
        budget = rng.choice([None, None, None, 4, 7, 13])
        perr = rng.choice([0, 0, 0, 0.1])

        def chooser(k, rng=rng, perr=perr):
            if k == 0:
                return []
            b, kk = [], k
            for _ in range(rng.choice([1, 1, 2, 3])):
                b.append((rng.randrange(kk), ('err', rng.randint(1, 9)) if rng.random() < perr else ('ok', rng.randint(0, 50))))
                kk -= 1
                if kk == 0:
                    break
            return b
        c = collector_case(cirq, conc, budget, [], chooser, pauli=pauli, entry='sync' if rng.random() < 0.2 else 'async')
        c['stream'] = 'collector_paulisum'
        pcases.append(c)
    for c in pcases:
        fn = 'collect' if c['entry'] == 'sync' else 'collect_async'
        pl = c['pauli']
        for kind, what in paulisum_oracles(setups[pl['obs']], c):
            ctx.violation(f'collector:paulisum-{kind}',
                          f'PauliSumCollector(observable #{pl["obs"]} with terms {setups[pl["obs"]]["names"]}, samples_per_term='
                          f'{pl["samples_per_term"]}, max_samples_per_job={pl["max_samples_per_job"]}).{fn}(concurrency={c["conc"]}, '
                          f'max_total_samples={c["budget"]}): {what} [completions per scheduler turn (index in flight, outcome): '
                          f'{c["sched"]}]',
                          dict(kind='collector_paulisum', entry=c['entry'], conc=c['conc'], budget=c['budget'], pauli=pl,
                               sched=c['sched'], failed=kind))
    for idx in pauli_compare(ctx, [(len(setups[c['pauli']['obs']]['terms']), c['pauli'], c['oracle']) for c in pcases]):
        c = pcases[idx]
        ctx.mark_broken('correspondence:paulisum_work',
                        f'model work list and PauliSumCollector.next_job differ: {c["pauli"]} conc={c["conc"]} budget={c["budget"]} '
                        f'answers (term, repetitions)={c["oracle"]} sched={c["sched"]}')
    cases += pcases
    for c in cases:
        ntake = sum(1 for e in c['trace'] if e[0] == 'take')
        ctx.count(c['stream'], (c['entry'], c['conc'], c['budget'], c['oracle'], c['sched']), nontrivial=ntake >= 2,
                  sample=dict(entry=c['entry'], concurrency=c['conc'], budget=c['budget'], oracle=c['oracle'], schedule=c['sched'],
                              trace=c['trace'], status=c['status']))
        fn = 'collect' if c['entry'] == 'sync' else 'collect_async'
        for kind, what in collector_oracles(c['conc'], c['budget'], c['trace'], c['status'], c['late'], c['n_pending']):
            ctx.violation(f'collector:{kind}', f'{fn}(concurrency={c["conc"]}, max_total_samples={c["budget"]}): {what} [next_job '
                          f'answers (tag, repetitions): {c["oracle"]}; completions per scheduler turn (index in flight, outcome): '
                          f'{c["sched"]}]',
                          dict(kind='collector', entry=c['entry'], conc=c['conc'], budget=c['budget'], oracle=c['oracle'],
                               sched=c['sched'], failed=kind))
    for idx in collector_compare(ctx, 'collector', cases):
        c = cases[idx]
        ctx.mark_broken('correspondence:collector',
                        f'model and collect_async differ: conc={c["conc"]} budget={c["budget"]} oracle={c["oracle"]} '
                        f'sched={c["sched"]} real trace={c["trace"]} status={c["status"]}')


def replay_collector(cirq, data):
    sched = [[(n, tuple(o)) for n, o in b] for b in data['sched']]
    it = iter(sched)
    c = collector_case(cirq, data['conc'], data['budget'], [[tuple(j) for j in a] for a in data['oracle']],
                       lambda k: next(it, None), entry=data.get('entry', 'async'))
    bad = collector_oracles(c['conc'], c['budget'], c['trace'], c['status'], c['late'], c['n_pending'])
    print('trace:', c['trace'])
    print('status:', c['status'], 'oracle failures:', bad)
    return not bad


# ======================================================================================================================
# Stream manager: the real StreamManager on an asyncio loop that only the driver turns, a fake Quantum Engine behind it
# ======================================================================================================================

PROJECT = 'projects/proj'
REQ_FIELDS = (('CreateProgJob', 'create_quantum_program_and_job'), ('CreateJob', 'create_quantum_job'),
              ('GetResult', 'get_quantum_result'))


def _prog_name(p):
    return f'{PROJECT}/programs/g{p}'


def _job_name(p, e):
    return f'{PROJECT}/programs/g{p}/jobs/j{e}'


def _parse_job(name):
    """job name -> (program index, execution index) or None"""
    import re
    m = re.fullmatch(PROJECT + r'/programs/g(\d+)/jobs/j(\d+)', name)
    return (int(m.group(1)), int(m.group(2))) if m else None


# Exceptions of a broken stream that are not google API errors at all: a transport failure that was not wrapped (OS level,
# grpc), a failed credential refresh, an error raised by the client library itself, a BaseException that is no Exception.
# The Coq models distinguish exceptions only through is_api / is_retryable, so all of them are presented to the models as
# the one exception that is not a GoogleAPICallError (XRuntimeError); the oracles judge the very exception object.
NONAPI = ['ConnectionResetError', 'EOFError', 'TimeoutError', 'ValueError', 'RpcError', 'TransportError', 'RetryError',
          'StreamAbort']


class StreamAbort(BaseException):
    """A failure of the response stream that is not even an Exception."""


def nonapi_classes():
    """name -> class (constructed with one message argument); fail-closed: none of them may be a GoogleAPICallError."""
    import grpc
    import google.auth.exceptions as gauth
    import google.api_core.exceptions as gexc
    retry_error = type('RetryError', (gexc.RetryError,), {'__init__': lambda self, m: gexc.RetryError.__init__(self, m, None)})
    out = dict(ConnectionResetError=ConnectionResetError, EOFError=EOFError, TimeoutError=TimeoutError, ValueError=ValueError,
               RpcError=grpc.RpcError, TransportError=gauth.TransportError, RetryError=retry_error, StreamAbort=StreamAbort)
    for n, c in out.items():
        if issubclass(c, gexc.GoogleAPICallError) or n not in NONAPI:
            raise RuntimeError(f'harness: {n} is expected not to be a google API call error')
    return out


def _xmodel(name):
    """the model's name of an exception kind"""
    return 'RuntimeError' if name in NONAPI else name


class _DriverStall(Exception):
    """The asyncio loop of the driven StreamManager never becomes idle."""


class StreamRun:
    """One run of the real StreamManager, event by event. All observations are tagged with the step number."""

    def __init__(self, mods, pre_progs=(), pre_jobs=(), fails=()):
        import asyncio
        import duet
        from cirq_google.cloud import quantum
        from cirq_google.engine import stream_manager as sm
        from cirq_google.engine.asyncio_executor import AsyncioExecutor
        from .. import tables_c20
        self.asyncio, self.quantum, self.sm, self.AsyncioExecutor = asyncio, quantum, sm, AsyncioExecutor
        self.exn_classes = dict(tables_c20.exception_classes(), **nonapi_classes())
        run = self

        class DrivenExecutor(AsyncioExecutor):
            """AsyncioExecutor.submit unchanged (run_coroutine_threadsafe + duet wrapper) on a loop nobody else runs."""

            def __init__(self):
                self.loop = asyncio.new_event_loop()

            def submit(self, func, *args, **kw):
                f = super().submit(func, *args, **kw)
                if getattr(func, '__name__', '') == '_make_request_queue':
                    run.settle()
                return f

        class FakeClient:
            async def quantum_run_stream(self, requests, **kw):
                q = asyncio.Queue()
                no = len(run.streams)
                run.streams.append(q)

                async def reader():
                    async for r in requests:
                        run.on_request(no, r)

                async def responses():
                    asyncio.get_running_loop().create_task(reader())
                    while True:
                        msg = await q.get()
                        if isinstance(msg, BaseException):
                            raise msg
                        yield msg
                return responses()

            async def cancel_quantum_job(self, request):
                run.on_cancel_rpc(request.name)
                await asyncio.sleep(0)

        self.ex = DrivenExecutor()
        self.saved_instance = AsyncioExecutor._instance
        AsyncioExecutor._instance = self.ex
        self.step = 0
        self.delivered = None
        self.closed = False
        self.streams = []
        self.wire = []        # [stream no, message id, request, kind, (p, e), live]
        self.pending = []     # (message id, response, payload)
        self.progs, self.jobs, self.fails = set(pre_progs), set(pre_jobs), set(fails)
        self.pre_jobs0 = set(pre_jobs)
        self.creates = []
        self.futs = []
        self.exec_prog = []
        self.owner = {}       # message id -> execution
        self.reqs, self.replies, self.dones, self.cancels, self.subs = [], [], [], [], []
        self.anomalies = []
        self.live_exc = {}    # step -> exception object published at that step
        self.got_exc = {}     # id -> exception object a submit future ended with
        self.reorder = None
        self.manager = sm.StreamManager(FakeClient())

    # ---- the loop ----
    def turn(self):
        loop = self.ex.loop
        loop.call_soon(loop.stop)
        loop.run_forever()

    def settle(self, limit=500):
        for _ in range(limit):
            self.turn()
            if not self.ex.loop._ready:
                return
        raise _DriverStall('asyncio loop does not settle')

    def close(self):
        self.closed = True
        try:
            self.manager.stop()
            self.settle()
        except _DriverStall:
            pass
        finally:
            self.AsyncioExecutor._instance = self.saved_instance
            loop = self.ex.loop
            for t in self.asyncio.all_tasks(loop):
                t.cancel()
            try:
                self.settle()
            except Exception:
                pass
            loop.close()

    # ---- observations ----
    def on_request(self, stream_no, r):
        if self.closed:
            return
        kinds = [k for k, f in REQ_FIELDS if f in r]
        try:
            mid = int(r.message_id)
        except ValueError:
            mid = -1
        if len(kinds) != 1:
            self.anomalies.append(('request-kind', self.step, str(r)))
            return
        kind = kinds[0]
        if kind == 'CreateProgJob':
            x = r.create_quantum_program_and_job
            pj = _parse_job(x.quantum_job.name)
            ok = pj is not None and x.quantum_program.name == _prog_name(pj[0]) and x.parent == PROJECT
        elif kind == 'CreateJob':
            x = r.create_quantum_job
            pj = _parse_job(x.quantum_job.name)
            ok = pj is not None and x.parent == _prog_name(pj[0])
        else:
            pj = _parse_job(r.get_quantum_result.parent)
            ok = pj is not None
        if not ok or r.parent != PROJECT:
            self.anomalies.append(('request-names', self.step, str(r)))
            return
        if stream_no != len(self.streams) - 1:
            self.anomalies.append(('request-on-dead-stream', self.step, mid))
        self.wire.append([stream_no, mid, r, kind, pj, True])
        self.owner.setdefault(mid, pj[1])
        self.reqs.append((self.step, pj[1], mid, kind))

    def on_cancel_rpc(self, name):
        if self.closed:
            return
        pj = _parse_job(name)
        self.cancels.append((self.step, pj[1] if pj else -1))

    def on_done(self, e, fut):
        if self.closed:
            return
        if fut.cancelled():
            o = ('cancelled',)
        else:
            exc = fut.exception()
            if exc is None:
                r = fut.result()
                if isinstance(r, self.quantum.QuantumResult):
                    pj = _parse_job(r.parent)
                    o = ('result', pj[1] if pj else -1)
                elif isinstance(r, self.quantum.QuantumJob):
                    pj = _parse_job(r.name)
                    o = ('job', pj[1] if pj else -1)
                else:
                    o = ('other', repr(r))
            elif isinstance(exc, self.sm.StreamError):
                o = ('stream', str(exc))
            else:
                names = [n for n, c in self.exn_classes.items() if type(exc).__name__ == c.__name__ and isinstance(exc, c)]
                self.got_exc[id(exc)] = exc
                o = ('exn', names[0] if names else 'other:' + type(exc).__name__, id(exc))
        self.dones.append((self.step, e, o))

    # ---- the fake Quantum Engine ----
    def serve(self, kind, pj):
        p, e = pj
        Code = self.quantum.StreamError.Code
        if kind == 'CreateProgJob':
            if p in self.progs:
                return ('err', 'PROGRAM_ALREADY_EXISTS')
            if e in self.jobs:
                return ('err', 'JOB_ALREADY_EXISTS')
        elif kind == 'CreateJob':
            if p not in self.progs:
                return ('err', 'PROGRAM_DOES_NOT_EXIST')
            if e in self.jobs:
                return ('err', 'JOB_ALREADY_EXISTS')
        else:
            if e not in self.jobs:
                return ('err', 'JOB_DOES_NOT_EXIST')
            return ('job' if e in self.fails else 'result', e)
        self.progs.add(p)
        self.jobs.add(e)
        self.creates.append(e)
        return ('job' if e in self.fails else 'result', e)

    def response(self, mid, pj, payload):
        q = self.quantum
        if payload[0] == 'err':
            return q.QuantumRunStreamResponse(message_id=str(mid), error=q.StreamError(
                code=getattr(q.StreamError.Code, payload[1]), message=payload[1]))
        name = _job_name(*pj)
        if payload[0] == 'job':
            return q.QuantumRunStreamResponse(message_id=str(mid), job=q.QuantumJob(name=name))
        return q.QuantumRunStreamResponse(message_id=str(mid), result=q.QuantumResult(parent=name))

    # ---- events ----
    def apply(self, ev):
        self.step += 1
        self.delivered = None     # (message id, payload, execution that sent the request, its waiter was still waiting)
        k = ev[0]
        loop = self.ex.loop
        if k == 'Submit':
            e = len(self.futs)
            p = ev[1]
            self.exec_prog.append(p)
            q = self.quantum
            fut = self.manager.submit(PROJECT, q.QuantumProgram(name=_prog_name(p)), q.QuantumJob(name=_job_name(p, e)))
            self.futs.append(fut)
            fut.add_done_callback(lambda f, e=e: self.on_done(e, f))
        elif k in ('Process', 'RejectReq'):
            if 0 <= ev[1] < len(self.wire):
                _, mid, r, kind, pj, live = self.wire.pop(ev[1])
                payload = self.serve(kind, pj) if k == 'Process' else ('err', ev[2])
                if live:     # a request overtaken by a stream break is still handled, but its response goes nowhere
                    self.pending.append((mid, self.response(mid, pj, payload), payload))
                    self.replies.append((self.step, mid, payload))
        elif k in ('Respond', 'RespondCancel'):
            if 0 <= ev[1] < len(self.pending):
                mid, resp, payload = self.pending.pop(ev[1])
                waiter = self.manager._response_demux._subscribers.get(str(mid))
                e = self.owner.get(mid)
                self.delivered = (mid, payload, e, waiter is not None and not waiter.done())
                loop.call_soon(self.streams[-1].put_nowait, resp)
                if k == 'RespondCancel' and waiter is not None and not waiter.done() and e is not None \
                        and not self.futs[e].done():
                    # the cancellation is queued behind the stream coroutine's wake-up: it runs after publish() has
                    # fulfilled the waiter and before the execution coroutine resumes
                    self.turn()
                    self.futs[e].cancel()
        elif k in ('Break', 'BreakCancel'):
            exc = self.exn_classes[ev[1]](f'stream broke at step {self.step}')
            self.live_exc[self.step] = exc
            loop.call_soon(self.streams[-1].put_nowait, exc) if self.streams else None
            for w in self.wire:
                w[5] = False
            self.pending.clear()
            if k == 'BreakCancel' and self.streams and ev[2] < len(self.futs) and not self.futs[ev[2]].done():
                # as for RespondCancel: the cancellation runs after publish_exception() has failed the waiters and before
                # the execution coroutines resume
                self.turn()
                self.futs[ev[2]].cancel()
        elif k == 'Cancel':
            if ev[1] < len(self.futs):
                self.futs[ev[1]].cancel()
        elif k == 'Stop':
            # ('Stop',) | ('Stop', e, 'before'|'after'): submit e is cancelled by its submitter in the same loop turn, just
            # before / after stop() is called
            if len(ev) == 3:
                self.reorder = [self.owner.get(int(key)) for key in self.manager._response_demux._subscribers.keys()
                                if key.isdigit()]
            if len(ev) == 3 and ev[2] == 'before' and ev[1] < len(self.futs):
                self.futs[ev[1]].cancel()
            self.manager.stop()
            if len(ev) == 3 and ev[2] == 'after' and ev[1] < len(self.futs):
                self.futs[ev[1]].cancel()
            for w in self.wire:
                w[5] = False
            self.pending.clear()
        else:
            raise ValueError(ev)
        self.settle()
        if self.reorder is not None:
            # stop() and one submitter's own cancel() in the same turn: everybody ends cancelled in this step; which future
            # is marked first is not part of the statement, the step's completions are recorded in subscription order
            order = self.reorder
            now = [d for d in self.dones if d[0] == self.step]
            now.sort(key=lambda d: order.index(d[1]) if d[1] in order else len(order))
            self.dones = [d for d in self.dones if d[0] != self.step] + now
            self.reorder = None
        subs = []
        for key in self.manager._response_demux._subscribers.keys():
            try:
                subs.append(int(key))
            except ValueError:
                subs.append(-1)
        self.subs.append(subs)

    def running(self, e):
        return e < len(self.futs) and not self.futs[e].done()

    def same_failure(self, got_id, exc):
        """The exception a submit future ended with is the failure `exc` of the stream: the very object - except that asyncio,
        chaining a task's future to a concurrent future, re-creates an instance of the builtin TimeoutError (same arguments);
        the message names the step of the failure."""
        got = self.got_exc.get(got_id)
        return exc is not None and (got is exc or (type(got) is TimeoutError and type(exc) is TimeoutError and got.args == exc.args))


def drain_event(run):
    """The undisturbed server: handle the oldest request, else deliver the oldest response; None when nothing is left."""
    if not any(run.running(e) for e in range(len(run.futs))):
        return None
    if run.wire:
        return ('Process', 0)
    if run.pending:
        return ('Respond', 0)
    return None


def job_first(run, ev):
    """The server flavour that reports the most specific conflict: a create-program-and-job request for a job that exists is
    answered JOB_ALREADY_EXISTS even when the program exists as well (state unchanged). For the model that is the event
    RejectReq k JOB_ALREADY_EXISTS."""
    if ev is not None and ev[0] == 'Process' and ev[1] < len(run.wire):
        _, _, _, kind, pj, _ = run.wire[ev[1]]
        if kind == 'CreateProgJob' and pj[1] in run.jobs:
            return ('RejectReq', ev[1], 'JOB_ALREADY_EXISTS')
    return ev


def run_stream_case(mods, pre_progs, pre_jobs, fails, chooser, drain=False, conflict='program'):
    """chooser(run) -> next event or None. Returns the observation record of the whole run.

    conflict: which conflict the server reports for a create-program-and-job request when program and job both exist:
    'program' (PROGRAM_ALREADY_EXISTS) or 'job' (JOB_ALREADY_EXISTS, see job_first).

    drain: after the chooser's events the server is left undisturbed (every request handled, every response delivered, oldest
    first) and every submit still running must then finish (with an outcome the step oracles accept: its own)."""
    run = StreamRun(mods, pre_progs, pre_jobs, fails)
    events, checks, waiting = [], [], []
    n_script = None
    try:
        while True:
            ev = chooser(run) if n_script is None else None
            if ev is None and drain:
                if n_script is None:
                    n_script = len(events)
                    waiting = [e for e in range(len(run.futs)) if run.running(e)]
                    budget = len(events) + len(run.wire) + len(run.pending) + 12 * len(waiting) + 4
                ev = drain_event(run) if len(events) < budget else None
            if ev is None:
                break
            if conflict == 'job':
                ev = job_first(run, ev)
            before = [e for e in range(len(run.futs)) if run.running(e)]
            try:
                run.apply(ev)
            except _DriverStall:
                events.append(ev)
                checks.append(('livelock', f'after the events {events} the stream client never becomes idle again (its asyncio '
                                           f'loop always has a callback ready): it spins instead of waiting for the server'))
                break
            events.append(ev)
            checks += stream_step_oracles(run, ev, before, events)
        checks += stream_final_oracles(run)
        if drain:
            for e in waiting:
                if run.running(e):
                    mine = [(mid, kind) for s, x, mid, kind in run.reqs if x == e]
                    checks.append(('starved', f'submit {e} (job j{e}) never received its outcome although, after the first {n_script} '
                                              f'events, the server handled every request and every response was delivered (its '
                                              f'requests: {mine}, {len(run.wire)} requests / {len(run.pending)} responses left)'))
    finally:
        run.close()
    return dict(pre_progs=sorted(pre_progs), pre_jobs=sorted(pre_jobs), fails=sorted(fails), events=events,
                reqs=run.reqs, replies=run.replies, dones=[(s, e, o[:2]) for s, e, o in run.dones], cancels=run.cancels,
                subs=run.subs, creates=run.creates, anomalies=run.anomalies, bad=checks,
                drain=(n_script if drain else None), conflict=conflict)


# what a reply about the existence of the program / the job means for the request it answers, and hence which next request
# is right (reference semantics of the codes, independent of the implementation's table): the job exists -> fetch its result;
# the program exists -> fetch the result (the job may exist too) or create the job; the job does not exist -> create it; the
# program does not exist -> create program and job. Other (kind, code) pairs make no sense for that request and may be raised.
RIGHT_NEXT = {('CreateProgJob', 'JOB_ALREADY_EXISTS'): ('GetResult',),
              ('CreateJob', 'JOB_ALREADY_EXISTS'): ('GetResult',),
              ('CreateProgJob', 'PROGRAM_ALREADY_EXISTS'): ('GetResult', 'CreateJob'),
              ('CreateJob', 'PROGRAM_DOES_NOT_EXIST'): ('CreateProgJob',),
              ('GetResult', 'JOB_DOES_NOT_EXIST'): ('CreateJob', 'CreateProgJob')}


def stream_step_oracles(run, ev, before, history=()):
    """The property's statement on the real run, step by step (no model involved)."""
    from .. import tables_c20
    bad = []
    step = run.step
    done_now = {e: o for s, e, o in run.dones if s == step}
    reqs_now = [(e, mid, kind) for s, e, mid, kind in run.reqs if s == step]
    victim = ev[2] if ev[0] == 'BreakCancel' else None
    if ev[0] in ('Break', 'BreakCancel') and run.streams:
        exc = run.live_exc.get(step)
        import google.api_core.exceptions as gexc
        retry = isinstance(exc, gexc.GoogleAPICallError) and run.sm._is_retryable_error(exc)
        # whatever the code's list says, these are never transient: client errors and non-API exceptions must surface
        must_surface = not isinstance(exc, gexc.GoogleAPICallError) or isinstance(exc, gexc.ClientError)
        for e in before:
            if e == victim:
                continue
            o = done_now.get(e)
            if retry and not must_surface:
                if e in done_now or not any(x == e for x, _, kind in reqs_now):
                    bad.append(('retry', f'execution {e}: after a retryable {ev[1]} it did not re-send a request on the new stream '
                                         f'(done={done_now.get(e)}, requests={reqs_now})'))
            elif o is None or o[0] != 'exn' or not run.same_failure(o[2], exc):
                what = ('a google API error that is not retryable' if isinstance(exc, gexc.GoogleAPICallError) else
                        'not a google API error, hence not retryable')
                mine = [(mid, kind) for s, x, mid, kind in run.reqs if x == e]
                got = ('its future is still pending and it sent no new request: the submitter waits forever' if o is None and
                       not any(x == e for x, _, _ in reqs_now) else f'its future is still pending, it re-sent {reqs_now}' if o is None
                       else f'it got {o[:2]}')
                bad.append(('surface', f'submit {e} (job j{e}) was in flight (last request {mine[-1:]}) when the response stream failed '
                                       f'with {type(exc).__name__} ({what}) at step {step}, but the failure was not delivered to the '
                                       f'submitter: {got}; history: {list(history)}'))
    if ev[0] == 'Cancel' and ev[1] in before:
        rpcs = [x for s, x in run.cancels if s == step]
        if rpcs != [ev[1]] or done_now.get(ev[1], ('?',))[0] != 'cancelled':
            bad.append(('cancel', f'cancelling submit {ev[1]}: cancel_quantum_job calls for executions {rpcs}, future {done_now.get(ev[1])}'))
    if ev[0] not in ('Cancel', 'RespondCancel', 'BreakCancel', 'Stop') and any(s == step for s, _ in run.cancels):
        bad.append(('cancel', f'cancel_quantum_job sent at step {step} ({ev}) although nothing was cancelled'))
    # cancellation cancels the remote job: whenever a submit future ends cancelled - by its submitter's cancel() at any
    # point (idle, while the server's reply or a stream failure is being delivered to it) or by stop() - a CancelQuantumJob
    # for its job reaches the server; and the server is asked to cancel only jobs whose submit ended cancelled
    rpcs_now = [x for s, x in run.cancels if s == step]
    withdrawn = (list(before) if ev[0] == 'Stop' else [victim] if ev[0] == 'BreakCancel' and run.streams else
                 [run.delivered[2]] if ev[0] == 'RespondCancel' and run.delivered is not None and run.delivered[3] else [])
    for e in withdrawn:
        if e in before and done_now.get(e, ('?',))[0] != 'cancelled':
            bad.append(('cancel', f'submit {e} was running and was withdrawn by the event {ev} at step {step}, but its future did not end '
                                  f'cancelled (got {done_now.get(e)})'))
    for e, o in done_now.items():
        if o[0] == 'cancelled' and e not in rpcs_now:
            dl = run.delivered
            racing = (f' while the reply {dl[1]} to its message {dl[0]} was being delivered' if ev[0] == 'RespondCancel' and dl is not None
                      else f' while the stream failure {ev[1]} was being delivered' if ev[0] == 'BreakCancel' else '')
            bad.append(('cancel-remote', f'the future of submit {e} ended cancelled at step {step} (event {ev}{racing}) but no '
                                         f'CancelQuantumJob for its job j{e} reached the server (cancel RPCs at this step: for jobs of '
                                         f'submits {rpcs_now}): the remote job keeps running'))
    for e in rpcs_now:
        if done_now.get(e, ('?',))[0] != 'cancelled':
            bad.append(('cancel-remote', f'CancelQuantumJob for job j{e} was sent at step {step} (event {ev}) although submit {e} did '
                                         f'not end cancelled (it got {done_now.get(e)})'))
    # a finished execution got its own job's result
    for e, o in done_now.items():
        if o[0] in ('result', 'job') and o[1] != e:
            bad.append(('routing', f'submit {e} was completed with the result of job {o[1]}'))
        if o[0] in ('result', 'job') and run.creates.count(e) != (0 if e in run.pre_jobs0 else 1):
            bad.append(('once', f'submit {e} returned a result but its job was created {run.creates.count(e)} times'))
    # provenance: an outcome reaches a submitter only through an event that concerns its own job - the response to its own
    # request, a failure of the stream (that very exception), its own cancellation, or stop()
    dl = run.delivered
    for e, o in done_now.items():
        if o[0] in ('result', 'job'):
            ok = ev[0] == 'Respond' and dl is not None and dl[2] == e and tuple(dl[1]) == (o[0], o[1])
        elif o[0] == 'stream':
            ok = ev[0] == 'Respond' and dl is not None and dl[2] == e and tuple(dl[1]) == ('err', o[1])
        elif o[0] == 'exn':
            ok = ev[0] in ('Break', 'BreakCancel') and e != victim and run.same_failure(o[2], run.live_exc.get(step))
        elif o[0] == 'cancelled':
            ok = ((ev[0] == 'Cancel' and ev[1] == e) or ev[0] == 'Stop' or (ev[0] == 'RespondCancel' and dl is not None and dl[2] == e)
                  or (ev[0] == 'BreakCancel' and e == victim))
        else:
            ok = False
        if not ok:
            about = (f'delivers the server\'s reply {dl[1]} to message {dl[0]} of submit {dl[2]}' if dl is not None
                     else 'concerns no job of this submitter')
            bad.append(('foreign', f'submit {e} (job j{e}) was completed with {o[:2]} at step {step} by the event {ev}, which {about}: '
                                   f'an outcome that belongs to another job (or to none) was delivered to this submitter'))
    # the response to the current request of a waiting execution takes effect at that execution: result / job are returned,
    # an error code is raised or answered by the next request
    if ev[0] == 'Respond' and dl is not None and dl[3] and dl[2] in before:
        mid, payload, e, _ = dl
        mine = [m for s, x, m, kind in run.reqs if x == e and s < step]
        if mine and mine[-1] == mid:
            o = done_now.get(e)
            if payload[0] in ('result', 'job'):
                served = o is not None and o[:2] == (payload[0], payload[1])
            else:
                served = (o is not None and o[:2] == ('stream', payload[1])) or any(x == e for x, _, _ in reqs_now)
            if not served:
                bad.append(('undelivered', f'the reply {payload} to message {mid}, the current request of submit {e}, was put on the '
                                           f'stream but submit {e} neither finished with it nor sent a next request (got {o})'))
            # after an 'already exists / does not exist' reply the client re-sends the right request (it does not give up): the
            # submitter is to receive its job's result
            kind_of = [kind for s, x, m, kind in run.reqs if m == mid]
            right = RIGHT_NEXT.get((kind_of[0], payload[1])) if payload[0] == 'err' and kind_of else None
            if right is not None:
                nxt = [kind for x, _, kind in reqs_now if x == e]
                exists = (f'job j{e} exists on the server (created {run.creates.count(e)} time(s) by this client'
                          f'{", present before" if e in run.pre_jobs0 else ""})' if e in run.jobs
                          else f'job j{e} does not exist on the server')
                if o is not None:
                    got = 'raised StreamError(' + o[1] + ')' if o[0] == 'stream' else f'finished with {o[:2]}'
                    bad.append(('state-reply', f'the server answered {payload[1]} to the {kind_of[0]} request (message {mid}) of submit {e} '
                                               f'and submit {e} {got} instead of re-sending {" or ".join(right)}: the submitter does '
                                               f'not receive the result of its job although {exists}; history: {list(history)}'))
                elif nxt and nxt[-1] not in right:
                    bad.append(('state-reply', f'the server answered {payload[1]} to the {kind_of[0]} request (message {mid}) of submit {e} '
                                               f'and the client re-sent {nxt[-1]} instead of {" or ".join(right)} ({exists}); '
                                               f'history: {list(history)}'))
    # every execution still running has its current request subscribed and in flight (nothing lost)
    subs = run.subs[-1]
    inflight = {w[1] for w in run.wire if w[5]} | {mid for mid, _, _ in run.pending}
    for e in range(len(run.futs)):
        if run.running(e):
            mine = [mid for s, x, mid, kind in run.reqs if x == e]
            if not mine or mine[-1] not in subs or mine[-1] not in inflight:
                bad.append(('orphan', f'execution {e} is running but its last request {mine[-1:]} is not subscribed / in flight '
                                      f'(subscribers {subs}, in flight {sorted(inflight)}) after the events {list(history)}: no '
                                      f'reply can reach it any more'))
    return bad


def stream_final_oracles(run):
    bad = []
    ids = [mid for _, _, mid, _ in run.reqs]
    if any(b <= a for a, b in zip(ids, ids[1:])) or len(set(ids)) != len(ids):
        bad.append(('ids', f'message ids are reused / not increasing: {ids}'))
    for e in set(run.creates):
        if run.creates.count(e) > 1:
            bad.append(('once', f'job of submit {e} created {run.creates.count(e)} times'))
    for s, e in run.cancels:
        if sum(1 for _, x in run.cancels if x == e) > 1:
            bad.append(('cancel', f'cancel_quantum_job sent more than once for submit {e}'))
    for a in run.anomalies:
        bad.append(('request', f'malformed / misplaced request: {a}'))
    return bad


# ---- Gallina literals ----
def _lit_event(ev):
    k = ev[0]
    if k == 'Submit':
        return f'(Submit {ev[1]})'
    if k == 'RejectReq':
        return f'(RejectReq {ev[1]} {ev[2]})'
    if k == 'Break':
        return f'(Break X{_xmodel(ev[1])})'
    if k == 'BreakCancel':
        return f'(BreakCancel X{_xmodel(ev[1])} {ev[2]})'
    if k == 'Stop':
        return 'Stop'       # a simultaneous cancel() of one submitter changes nothing: stop() cancels everybody
    return f'({k} {ev[1]})'


def _lit_payload(p):
    if p[0] == 'err':
        return f'(MErr {p[1]})'
    return f'(MRes ({"RJob" if p[0] == "job" else "RResult"} {p[1]}))'


def _lit_eoutcome(o):
    from .. import tables_c20
    if o[0] in ('result', 'job'):
        return f'(OReturned ({"RJob" if o[0] == "job" else "RResult"} {o[1] if o[1] >= 0 else 999999}))'
    if o[0] == 'stream':
        return f'(ORaisedStream {o[1]})' if o[1] in tables_c20.CODES else '(ORaisedStream CODE_UNSPECIFIED)'
    if o[0] == 'exn' and _xmodel(o[1]) in tables_c20.EXNS:
        return f'(ORaisedExn X{_xmodel(o[1])})'
    if o[0] == 'cancelled':
        return 'OCancelled'
    return '(OReturned (RResult 999998))'      # something the model never produces


def _nl(xs):
    return '[' + '; '.join(str(x) for x in xs) + ']'


def _lit_mcase(c):
    n = lambda x: x if x >= 0 else 999999
    return ('(mkmcase ' + _nl(c['pre_progs']) + ' ' + _nl(c['pre_jobs']) + ' ' + _nl(c['fails']) + '\n  ['
            + '; '.join(_lit_event(e) for e in c['events']) + ']\n  ['
            + '; '.join(f'({s}, {n(e)}, {n(i)}, {k})' for s, e, i, k in c['reqs']) + ']\n  ['
            + '; '.join(f'({s}, {n(i)}, {_lit_payload(p)})' for s, i, p in c['replies']) + ']\n  ['
            + '; '.join(f'({s}, {e}, {_lit_eoutcome(o)})' for s, e, o in c['dones']) + ']\n  ['
            + '; '.join(f'({s}, {n(e)})' for s, e in c['cancels']) + ']\n  ['
            + '; '.join(_nl([n(x) for x in ss]) for ss in c['subs']) + ']\n  ' + _nl(c['creates']) + ')')


STREAM_HEADER = ('From Coq Require Import List Bool.\nFrom VF Require Import Base.Harness Async.StreamTypes Async.Stream.\n'
                 'Import ListNotations.\n')


def stream_compare(ctx, name, cases):
    bad = []
    for lo in range(0, len(cases), 300):
        shard = cases[lo:lo + 300]
        text = STREAM_HEADER + 'Definition cases : list mcase := [\n' + ';\n'.join(_lit_mcase(c) for c in shard) + '].\n'
        text += 'Eval vm_compute in failing magrees cases.\n'
        vals = coq.parse_evals(coq.coq_eval(f'c20_{name}_{ctx.seed}_{lo}', text))
        bad += [lo + i for i in coq.parse_nat_list(vals[0])]
    return bad


# ---- generators ----
RETRYABLE = ['InternalServerError', 'ServiceUnavailable', 'Unknown', 'SubServiceUnavailable']
FATAL = ['BadGateway', 'DeadlineExceeded', 'DataLoss', 'Aborted', 'Cancelled', 'NotFound', 'PermissionDenied',
         'ResourceExhausted', 'InvalidArgument', 'RuntimeError']
STATE_CODES = ['PROGRAM_ALREADY_EXISTS', 'JOB_ALREADY_EXISTS', 'PROGRAM_DOES_NOT_EXIST', 'JOB_DOES_NOT_EXIST']
OTHER_CODES = ['CODE_UNSPECIFIED', 'INTERNAL', 'INVALID_ARGUMENT', 'PERMISSION_DENIED', 'PROCESSOR_DOES_NOT_EXIST',
               'INVALID_PROCESSOR_FOR_JOB']


def random_stream_chooser(rng, max_submits, length):
    n = [0]

    def choose(run):
        n[0] += 1
        if n[0] > length:
            return None
        nw, npend, ne = len(run.wire), len(run.pending), len(run.futs)
        live = [e for e in range(ne) if run.running(e)]
        opts = []
        if ne < max_submits:
            opts += [('Submit', rng.choice([0, 0, 1]))] * (4 if not live else 2)
        if nw:
            opts += [('Process', rng.randrange(nw))] * 6
            opts += [('RejectReq', rng.randrange(nw), rng.choice(STATE_CODES * 2 + OTHER_CODES))]
        if npend:
            opts += [('Respond', rng.randrange(npend))] * 6
            opts += [('RespondCancel', rng.randrange(npend))]
        if run.streams:
            opts += [('Break', rng.choice(RETRYABLE))] * 3
            opts += [('Break', rng.choice(FATAL + NONAPI))]
        if ne:
            opts += [('Cancel', rng.randrange(ne))]
        if ne and run.streams:
            opts += [('BreakCancel', rng.choice(RETRYABLE * 2 + FATAL + NONAPI), rng.randrange(ne))]
        if rng.random() < 0.03:
            opts += [('Stop',)]
        if ne and rng.random() < 0.03:
            opts += [('Stop', rng.randrange(ne), rng.choice(['before', 'after']))]
        if rng.random() < 0.05:
            opts += [rng.choice([('Process', nw + 1), ('Respond', npend), ('Cancel', ne + 2)])]   # no-ops
        return rng.choice(opts) if opts else None
    return choose


def scripted_stream_chooser(script, menu_fn):
    pos = [0]

    def choose(run):
        if pos[0] >= len(script):
            return None
        menu = menu_fn(run)
        if not menu:
            return None
        ev = menu[script[pos[0]] % len(menu)]
        pos[0] += 1
        return ev
    return choose


def stream_menu(max_submits):
    def menu(run):
        nw, npend, ne = len(run.wire), len(run.pending), len(run.futs)
        m = []
        if ne < max_submits:
            m.append(('Submit', 0))
        m += [('Process', k) for k in range(nw)]
        m += [('Respond', k) for k in range(npend)]
        if any(run.running(e) for e in range(ne)):
            m += [('Break', 'ServiceUnavailable'), ('Break', 'NotFound'), ('Break', 'ConnectionResetError')]
            m += [('Cancel', e) for e in range(ne) if run.running(e)]
        return m
    return menu


def enumerate_stream(mods, pre_progs, pre_jobs, max_submits, depth, limit):
    """All event sequences of the given depth over the state-dependent menu (DFS, bounded by `limit`)."""
    out = []
    stack = [[]]
    menu = stream_menu(max_submits)
    complete = True
    while stack:
        if len(out) >= limit:
            complete = False
            break
        script = stack.pop()
        width = [None]

        def chooser(run, script=script):
            if len(run_events) == len(script):
                width[0] = len(menu(run))
                return None
            mm = menu(run)
            if not mm:
                return None
            ev = mm[script[len(run_events)]]
            run_events.append(ev)
            return ev
        run_events = []
        c = run_stream_case(mods, pre_progs, pre_jobs, (), chooser)
        if len(script) == depth or not width[0]:
            out.append(c)
        else:
            for i in reversed(range(width[0])):
                stack.append(script + [i])
    return out, complete


def fault_case(mods, rng, sprog, sjob, faults, conflict='program'):
    """Part A: one submit along a fault sequence; events are derived from the faults while the execution runs.

    conflict='job': the server reports JOB_ALREADY_EXISTS for a create-program-and-job request whose job exists (also when the
    program exists); an undisturbed exchange that meets this conflict is the model's fault Reject JOB_ALREADY_EXISTS."""
    it = iter(faults)
    todo = []
    n = [0]
    used = []
    stalled = []

    def chooser(run):
        if todo:
            return todo.pop(0)
        if not run.futs:
            return ('Submit', 0)
        if not run.running(0) or n[0] > len(faults) + 6:
            return None
        n[0] += 1
        f = next(it, ('NoFault',))
        used.append(f)
        live = len(run.wire) - 1          # the current request is the last one on the wire, the overtaken ones precede it
        if live < 0 or not run.wire[live][5]:
            # the execution is running but has no request on the current stream: nothing the server could do will ever
            # reach it (judged by the step oracles `surface` / `orphan` and by `termination` below)
            used.pop()
            stalled.append(len(used))
            return None
        if f[0] == 'NoFault':
            todo.append(('Respond', 0))
            ev = job_first(run, ('Process', live)) if conflict == 'job' else ('Process', live)
            if ev[0] == 'RejectReq':
                used[-1] = ('Reject', ev[2])
            return ev
        if f[0] == 'Reject':
            todo.append(('Respond', 0))
            return ('RejectReq', live, f[1])
        if f[0] == 'BreakBefore':
            return ('Break', f[1])
        if f[0] == 'Late':
            return ('Process', f[1] if f[1] < live else 99)
        todo.append(('Break', f[1]))
        return ('Process', live)
    c = run_stream_case(mods, [0] if sprog else [], [0] if sjob else [], (), chooser, conflict=conflict)
    c['faults'] = used[:max(len(faults), max([i + 1 for i, f in enumerate(used) if f[0] != 'NoFault'], default=0))]
    c['sprog'], c['sjob'] = sprog, sjob
    if not c['dones'] and stalled:
        c['bad'].append(('termination', f'after the faults {used[:stalled[0]]} the submit neither finished nor has a request on the '
                                        f'current stream: the submitter waits forever (requests so far: '
                                        f'{[k for _, _, _, k in c["reqs"]]}; events: {c["events"]})'))
    elif not c['dones']:
        c['bad'].append(('termination', f'the execution did not finish within 6 undisturbed exchanges after the faults {list(faults)} '
                                        f'(requests so far: {[k for _, _, _, k in c["reqs"]]})'))
    return c


def symbolic_chooser(ops):
    """Events named by the execution they concern; the positions on the wire / among the responses are looked up in the run.

    ('submit', p) ('process', e) ('reject', e, code) ('respond', e) ('respondcancel', e) ('cancel', e) ('break', X)
    ('breakcancel', X, e) ('stop',) ('stop', e, 'before'|'after') ('late', e).
    process/reject address the live (current stream) request of e, respond/respondcancel the outstanding response to e."""
    it = iter(ops)

    def choose(run):
        for op in it:
            k = op[0]
            if k == 'submit':
                return ('Submit', op[1])
            if k in ('process', 'reject'):
                idx = [i for i, w in enumerate(run.wire) if w[4][1] == op[1] and w[5]]
                if idx:
                    return ('Process', idx[-1]) if k == 'process' else ('RejectReq', idx[-1], op[2])
            elif k in ('respond', 'respondcancel'):
                idx = [i for i, (mid, _, _) in enumerate(run.pending) if run.owner.get(mid) == op[1]]
                if idx:
                    return ('Respond' if k == 'respond' else 'RespondCancel', idx[-1])
            elif k == 'late':          # the server handles the oldest request of e that was overtaken by a stream break
                idx = [i for i, w in enumerate(run.wire) if w[4][1] == op[1] and not w[5]]
                if idx:
                    return ('Process', idx[0])
            elif k == 'cancel':
                return ('Cancel', op[1])
            elif k == 'break':
                return ('Break', op[1])
            elif k == 'breakcancel':
                return ('BreakCancel', op[1], op[2])
            elif k == 'stop':
                return ('Stop',) if len(op) == 1 else ('Stop', op[1], op[2])
            # an op whose target does not exist (any more) is skipped
        return None
    return choose


def cancel_race_grid(quick):
    """A submitter withdraws (cancel) while the server's reply to its request is under way and other jobs are in flight.

    n jobs, victim v; the others' requests untouched / handled (responses outstanding) / already answered once with
    already-exists; before or after a retryable stream break (ids of retry requests); the victim's reply a result, a failed job,
    an already-exists / does-not-exist / fatal code; cancel before the server handled the request, after, while the response is
    being delivered (RespondCancel), twice, or by stop(). Afterwards the server is left undisturbed (drain)."""
    out = []
    for n in (2, 3):
        for v in range(n):
            for shared in (False, True):
                for pre in ('none', 'break', 'handled+break'):
                    for timing in ('cancel,process,respond', 'process,cancel,respond', 'process,respondcancel',
                                   'process,cancel,cancel,respond'):
                        for reply in ('result', 'job', 'JOB_ALREADY_EXISTS', 'PROGRAM_ALREADY_EXISTS', 'PROGRAM_DOES_NOT_EXIST',
                                      'INTERNAL'):
                            for others in ('untouched', 'handled'):
                                if quick and n == 3 and (timing.count('cancel,') == 2 or
                                                         reply in ('PROGRAM_DOES_NOT_EXIST', 'PROGRAM_ALREADY_EXISTS')):
                                    continue
                                ops = [('submit', 0 if shared else e) for e in range(n)]
                                if pre == 'handled+break':
                                    ops += [('process', e) for e in range(n)]
                                if pre != 'none':
                                    ops += [('break', 'ServiceUnavailable')]
                                if others == 'handled':
                                    ops += [('process', e) for e in range(n) if e != v]
                                for t in timing.split(','):
                                    if t == 'process':
                                        ops.append(('process', v) if reply in ('result', 'job') else ('reject', v, reply))
                                    else:
                                        ops.append((t, v))
                                out.append((dict(n=n, victim=v, shared=shared, pre=pre, timing=timing, reply=reply, others=others),
                                            [v] if reply == 'job' else [], ops))
    # the cancel arrives while a failure of the stream is being delivered (retryable: the client would have re-sent its
    # request; fatal: it would have raised), or together with stop(), or stop() alone; the victim's request untouched, handled
    # (response outstanding), answered with a code it would retry on
    for n in (2, 3):
        for v in range(n):
            for shared in (False, True):
                for pre in ('none', 'break', 'handled+break'):
                    for others in ('untouched', 'handled'):
                        for mine in ('untouched', 'handled', 'PROGRAM_ALREADY_EXISTS'):
                            for how in ([('breakcancel', x, v) for x in ('ServiceUnavailable', 'InternalServerError', 'NotFound',
                                                                         'RuntimeError')]
                                        + [('stop',), ('stop', v, 'before'), ('stop', v, 'after')]):
                                if quick and n == 3 and (how[1:2] in (('InternalServerError',), ('RuntimeError',)) or
                                                         (pre == 'handled+break' and mine != 'untouched')):
                                    continue
                                ops = [('submit', 0 if shared else e) for e in range(n)]
                                if pre == 'handled+break':
                                    ops += [('process', e) for e in range(n)]
                                if pre != 'none':
                                    ops += [('break', 'ServiceUnavailable')]
                                if others == 'handled':
                                    ops += [('process', e) for e in range(n) if e != v]
                                if mine != 'untouched':
                                    ops.append(('process', v) if mine == 'handled' else ('reject', v, mine))
                                ops.append(how)
                                if how[0] == 'stop':          # the manager is usable again afterwards
                                    ops += [('submit', 0), ('process', n), ('respond', n)]
                                out.append((dict(n=n, victim=v, shared=shared, pre=pre, others=others, mine=mine, how=how), [], ops))
    # the same races ended by stop() instead of a single cancel, and two victims
    for pre in ('none', 'break'):
        for tail in ([('process', 0), ('stop',), ('submit', 1), ('submit', 1)],
                     [('process', 0), ('process', 1), ('cancel', 0), ('cancel', 1), ('respond', 1), ('respond', 0)],
                     [('process', 1), ('cancel', 1), ('process', 0), ('respondcancel', 0), ('respond', 1)]):
            ops = [('submit', 0), ('submit', 1), ('submit', 0)] + ([('break', 'Unknown')] if pre == 'break' else []) + tail
            out.append((dict(pre=pre, tail=tail), [], ops))
    return out


def recreate_fault_grid():
    """Part A, fixed grid: the stream breaks with the create request (and possibly the next requests) unhandled, the client
    re-creates step by step (get-result -> create-job -> create-program-and-job), and the overtaken requests are handled late,
    after 0..4 exchanges of that retry chain - in particular just before the re-sent create arrives."""
    out = []
    for x in ('ServiceUnavailable', 'InternalServerError'):
        for breaks in (1, 2):
            for lates in range(1, breaks + 1):
                for i in range(5):
                    out.append([('BreakBefore', x)] * breaks + [('NoFault',)] * i + [('Late', 0)] * lates + [('NoFault',)] * (4 - i))
        for i in range(4):       # a second break in the middle of the retry chain: its request is overtaken as well
            out.append([('BreakBefore', x), ('NoFault',), ('BreakBefore', x)] + [('NoFault',)] * i + [('Late', 0), ('Late', 0)]
                       + [('NoFault',)] * (4 - i))
    return out


def recreate_race_grid(quick):
    """Manager, fixed grid: n submits (own / shared program); the stream breaks before the server handled submit v's create
    request (the others untouched as well, or already finished); v's retry chain runs for `late_at` exchanges, then the
    overtaken create is handled, then the undisturbed server. And resubmission: the job (and its program) exist on the server
    before the submit. Both server flavours. Yields (params, pre_progs, pre_jobs, ops, conflict)."""
    out = []
    for conflict in ('program', 'job'):
        for n in (1, 2):
            for shared in ((False,) if n == 1 else (False, True)):
                for v in range(n):
                    for others in (('untouched',) if n == 1 else ('untouched', 'done')):
                        for late_at in range(5):
                            ops = [('submit', 0 if shared else e) for e in range(n)]
                            if others == 'done':
                                ops += [op for e in range(n) if e != v for op in (('process', e), ('respond', e))]
                            ops += [('break', 'ServiceUnavailable')]
                            for i in range(5):
                                if i == late_at:
                                    ops += [('late', v)]
                                ops += [('process', v), ('respond', v)]
                            out.append((dict(n=n, victim=v, shared=shared, others=others, late_at=late_at), [], [], ops, conflict))
        for n in (1, 2):
            for pre_progs, pre_jobs in (([0], [0]), ([], [0]), ([0], [0, 1])):
                ops = [('submit', 0) for _ in range(n)]
                out.append((dict(n=n, resubmitted=pre_jobs), pre_progs, pre_jobs, ops, conflict))
                out.append((dict(n=n, resubmitted=pre_jobs, broken=True), pre_progs, pre_jobs,
                            ops + [('break', 'Unknown'), ('late', 0)], conflict))
    return out


def fatal_fault_grid():
    """Part A, fixed grid: the stream fails with each kind of exception that is not retryable - every non-retryable google API
    error and every exception that is not a google API error at all - before / after the server handled the current request,
    the current request being the first create, the get-result after a retryable break, or a later request of the retry chain
    (after an already-exists / does-not-exist reply)."""
    out = []
    for x in FATAL + NONAPI:
        for when in ('BreakBefore', 'BreakAfter'):
            for prefix in ([], [('BreakBefore', 'ServiceUnavailable')], [('NoFault',)], [('BreakAfter', 'Unknown'), ('NoFault',)]):
                out.append(prefix + [(when, x)])
    return out


def fatal_break_grid(quick):
    """Manager, fixed grid: the response stream fails with an exception that is not retryable while 1-3 jobs are in flight,
    for every kind of such exception (google API errors that are not retryable; exceptions that are no google API errors).

    n submits (own / shared program), after no / one retryable break; at the failure the requests are all untouched, all handled
    (responses outstanding), or the first job has already been answered; the failure is a plain break or coincides with the
    cancellation of one submit. Then the manager must still be usable: a further job is submitted (a new one, or the very job
    that failed: resubmission) and the server is left undisturbed - the in-flight jobs must have received that very failure,
    the later job its own result. Yields (params, ops)."""
    out = []
    kinds = FATAL + NONAPI
    for n in (1, 2, 3):
        for shared in ((False,) if n == 1 else (False, True)):
            for pre in ('none', 'break'):
                for state in ('untouched', 'handled', 'first-done'):
                    for x in kinds:
                        for how in ('break', 'breakcancel'):
                            for after in ('new', 'none'):
                                if how == 'breakcancel' and (n == 1 or after == 'none'):
                                    continue
                                if quick and n == 3 and (x in FATAL[3:] or how == 'breakcancel' or shared):
                                    continue
                                if quick and after == 'none' and (n != 2 or shared):
                                    continue
                                ops = [('submit', 0 if shared else e) for e in range(n)]
                                if pre == 'break':
                                    ops += [('break', 'InternalServerError')]
                                if state == 'handled':
                                    ops += [('process', e) for e in range(n)]
                                elif state == 'first-done':
                                    ops += [('process', 0), ('respond', 0)]
                                ops += [('break', x)] if how == 'break' else [('breakcancel', x, n - 1)]
                                if after == 'new':
                                    ops += [('submit', 0 if shared else n)]
                                out.append((dict(n=n, shared=shared, pre=pre, state=state, exception=x, how=how, after=after), ops))
    return out


def _lit_fault(f):
    if f[0] == 'NoFault':
        return 'NoFault'
    if f[0] == 'Late':
        return f'(Late {f[1]})'
    if f[0] == 'Reject':
        return f'(Reject {f[1]})'
    return f'({f[0]} X{_xmodel(f[1])})'


def _lit_fcase(c):
    from .. import tables_c20
    kinds = [k for _, _, _, k in c['reqs']]
    o = c['dones'][0][2] if c['dones'] else ('running',)
    if o[0] in ('result', 'job'):
        lo = 'Returned' if o[1] == 0 else 'OutOfFuel'
    elif o[0] == 'stream':
        lo = f'(RaisedStream {o[1]})'
    elif o[0] == 'exn':
        lo = f'(RaisedExn X{_xmodel(o[1])})' if _xmodel(o[1]) in tables_c20.EXNS else 'OutOfFuel'
    else:
        lo = 'OutOfFuel'
    b = lambda x: 'true' if x else 'false'
    return (f'({b(c["sprog"])}, {b(c["sjob"])}, [' + '; '.join(_lit_fault(f) for f in c['faults']) + '], ['
            + '; '.join(kinds) + f'], {lo}, {len(c["creates"])})')


def fault_compare(ctx, cases):
    bad = []
    for lo in range(0, len(cases), 400):
        shard = cases[lo:lo + 400]
        text = STREAM_HEADER + 'Definition cases : list (bool * bool * list fault * list req * outcome * nat) := [\n'
        text += ';\n'.join(_lit_fcase(c) for c in shard) + '].\nEval vm_compute in failing cagrees cases.\n'
        vals = coq.parse_evals(coq.coq_eval(f'c20_faults_{ctx.seed}_{lo}', text))
        bad += [lo + i for i in coq.parse_nat_list(vals[0])]
    return bad


def all_faults():
    return ([('NoFault',)] + [('BreakBefore', x) for x in ('ServiceUnavailable', 'NotFound')]
            + [('BreakAfter', x) for x in ('InternalServerError', 'RuntimeError')]
            + [('Reject', c) for c in STATE_CODES + ['INTERNAL']] + [('Late', 0)])


def stream_streams(ctx, mods):
    rng = ctx.rng
    quick = ctx.tier == 'quick'
    # (A) one execution, fault sequences: exhaustive up to length 2 (3 in thorough) over 9 fault kinds x 4 server states
    fcases = []
    depth = 2 if quick else 3
    alphabet = all_faults()
    for sprog, sjob in ((False, False), (True, False), (True, True), (False, True)):
        for L in range(depth + 1):
            for fs in itertools.product(alphabet, repeat=L):
                fcases.append(fault_case(mods, rng, sprog, sjob, fs))
    # the server that reports the job-level conflict first: it differs where program and job both exist
    for L in range(depth + 1):
        for fs in itertools.product(alphabet, repeat=L):
            fcases.append(fault_case(mods, rng, True, True, fs, conflict='job'))
    # fixed grid, every seed: the overtaken create request is handled late, at every point of the client's re-creation chain
    for conflict in ('program', 'job'):
        for sprog, sjob in ((False, False), (True, False)):
            for fs in recreate_fault_grid():
                fcases.append(fault_case(mods, rng, sprog, sjob, fs, conflict=conflict))
    # fixed grid, every seed: every kind of failure that is not retryable, before / after the server handled the request
    for sprog, sjob in ((False, False), (True, True)):
        for fs in fatal_fault_grid():
            fcases.append(fault_case(mods, rng, sprog, sjob, fs))
    for _ in range(150 if quick else 3000):
        L = rng.randint(3, 8)
        fs = [rng.choice(alphabet + [('BreakBefore', x) for x in RETRYABLE] + [('BreakAfter', x) for x in RETRYABLE]
                         + [('BreakAfter', rng.choice(FATAL + NONAPI)), ('BreakBefore', rng.choice(FATAL + NONAPI)),
                            ('Reject', rng.choice(OTHER_CODES)), ('Late', 0), ('Late', 1)])
              for _ in range(L)]
        fcases.append(fault_case(mods, rng, rng.random() < 0.4, rng.random() < 0.25, fs, conflict=rng.choice(['program', 'job'])))
    for c in fcases:
        c['stream'] = 'stream_faults'
    # (B) the manager: enumerated interleavings + random schedules
    mcases = []
    sweeps = [((), (), 2, 5, 1500)] if quick else [((), (), 2, 7, 20000), ((0,), (), 2, 6, 8000), ((), (), 3, 6, 20000)]
    complete = True
    for pre_progs, pre_jobs, subm, dep, limit in sweeps:
        cs, comp = enumerate_stream(mods, pre_progs, pre_jobs, subm, dep, limit)
        complete &= comp
        for c in cs:
            c['stream'] = 'stream_enum'
        mcases += cs
    ctx.cov['stream_enumeration_complete'] = complete
    # (C) cancellation racing with the server's reply while other jobs are in flight (fixed grid, every seed), then the
    #     undisturbed server: everybody else must still get their own result
    for params, fails, ops in cancel_race_grid(quick):
        c = run_stream_case(mods, [], [], fails, symbolic_chooser(ops), drain=True)
        c['stream'] = 'stream_cancel_race'
        c['params'] = params
        mcases.append(c)
    # (C2) fixed grid, every seed: the create request overtaken by a stream break is handled while the client re-creates;
    #      resubmission of an existing job; both server flavours; then the undisturbed server
    for params, pre_progs, pre_jobs, ops, conflict in recreate_race_grid(quick):
        c = run_stream_case(mods, pre_progs, pre_jobs, [], symbolic_chooser(ops), drain=True, conflict=conflict)
        c['stream'] = 'stream_recreate_race'
        c['params'] = params
        mcases.append(c)
    # (C3) fixed grid, every seed: the stream fails with every kind of exception that is not retryable while jobs are in flight;
    #      everybody in flight receives that failure, a job submitted afterwards its own result (undisturbed server)
    for params, ops in fatal_break_grid(quick):
        c = run_stream_case(mods, [], [], [], symbolic_chooser(ops), drain=True)
        c['stream'] = 'stream_fatal_break'
        c['params'] = params
        mcases.append(c)
    for _ in range(500 if quick else 8000):
        pre_progs = [p for p in (0, 1) if rng.random() < 0.25]
        pre_jobs = [e for e in (0, 1, 2) if rng.random() < 0.12]
        fails = [e for e in (0, 1, 2, 3) if rng.random() < 0.15]
        c = run_stream_case(mods, pre_progs, pre_jobs, fails, random_stream_chooser(rng, rng.choice([1, 2, 3, 3, 4]), rng.randint(4, 16)),
                            drain=rng.random() < 0.5, conflict=rng.choice(['program', 'job']))
        c['stream'] = 'stream_random'
        mcases.append(c)
    # report a state reply that is backed by the server's state (the job really exists) before one that is not
    backed = lambda c: any(k == 'state-reply' and ' exists on the server' in w for k, w in c['bad'])
    for c in sorted(fcases + mcases, key=lambda c: not backed(c)):
        nfault = sum(1 for e in c['events'] if e[0] in ('Break', 'BreakCancel', 'RejectReq', 'Cancel', 'RespondCancel', 'Stop'))
        nontrivial = (len(c['faults']) >= 1) if 'faults' in c else (len(c['reqs']) >= 2 and nfault >= 1)
        ctx.count(c['stream'], (c['pre_progs'], c['pre_jobs'], c['fails'], c['events']), nontrivial=nontrivial,
                  sample=dict(pre_programs=c['pre_progs'], pre_jobs=c['pre_jobs'], events=c['events'], requests=c['reqs'],
                              outcomes=c['dones'], cancel_rpcs=c['cancels']))
        for kind, what in c['bad']:
            extra = dict(kind='stream_faults', faults=c['faults'], sprog=c['sprog'], sjob=c['sjob']) if 'faults' in c else {}
            ctx.violation(f'stream:{kind}', f'StreamManager: {what}',
                          dict(dict(kind='stream', pre_progs=c['pre_progs'], pre_jobs=c['pre_jobs'], fails=c['fails'],
                                    events=c['events'], drain=c.get('drain'), conflict=c.get('conflict', 'program'), failed=kind),
                               **extra))
    for idx in fault_compare(ctx, fcases):
        c = fcases[idx]
        ctx.mark_broken('correspondence:stream_faults',
                        f'client model and _manage_execution differ: server(prog={c["sprog"]}, job={c["sjob"]}) faults={c["faults"]} '
                        f'requests={c["reqs"]} outcome={c["dones"]} creates={c["creates"]}')
    for idx in stream_compare(ctx, 'stream', fcases + mcases):
        c = (fcases + mcases)[idx]
        ctx.mark_broken('correspondence:stream',
                        f'manager model and StreamManager differ: pre_progs={c["pre_progs"]} pre_jobs={c["pre_jobs"]} '
                        f'fails={c["fails"]} events={c["events"]} requests={c["reqs"]} replies={c["replies"]} '
                        f'outcomes={c["dones"]} cancels={c["cancels"]} subscribers={c["subs"]} creates={c["creates"]}')


def replay_stream(mods, data):
    if data.get('kind') == 'stream_faults':
        import random
        c = fault_case(mods, random.Random(0), data['sprog'], data['sjob'], [tuple(f) for f in data['faults']],
                       conflict=data.get('conflict', 'program'))
        print('requests:', c['reqs'])
        print('outcomes:', c['dones'], 'oracle failures:', c['bad'])
        return not c['bad']
    evs = [tuple(e) for e in data['events']]
    drain = data.get('drain')
    it = iter(evs if drain is None else evs[:drain])      # a drained case: the scripted prefix, then the undisturbed server again
    c = run_stream_case(mods, data['pre_progs'], data['pre_jobs'], data['fails'], lambda run: next(it, None), drain=drain is not None,
                        conflict=data.get('conflict', 'program'))
    print('events:', c['events'])
    print('requests:', c['reqs'])
    print('outcomes:', c['dones'], 'cancel rpcs:', c['cancels'])
    print('oracle failures:', c['bad'])
    return not c['bad']


# ======================================================================================================================
# ProcessorSampler(max_concurrent_jobs): the real sampler on a hand-ticked duet scheduler, a model processor behind it
# ======================================================================================================================


class _JobFailed(Exception):
    """What results_async() of a failed model job raises; carries the job number."""

    def __init__(self, j):
        super().__init__(f'engine-job-{j}-failed')
        self.j = j


class _JobResult:
    """The result of one circuit of model job j."""

    def __init__(self, j, circ):
        self.j, self.circ = j, circ

    def __repr__(self):
        return f'result(job {self.j}, circuit {self.circ})'


def run_sampler(mods, limit, turns, jobs_per_batch=1):
    """cirq_google.ProcessorSampler(max_concurrent_jobs=limit) in front of a model processor whose jobs stay unfinished until
    the driver finishes them. `turns`: list of turns; the actions of a turn are applied at a quiescent point (no duet task
    ready), then the scheduler runs until the next quiescent point:
      ('batch', n)           a new caller awaits sampler.run_batch_async(n fresh circuits)
      ('call',)              a new caller awaits sampler.run_async(a fresh circuit)
      ('collect', conc, n)   a new caller awaits Collector.collect_async(sampler, concurrency=conc); next_job hands out n jobs
      ('finish', k)          the engine finishes the k-th unfinished job (creation order): results_async() completes
      ('fail', k)            ... the job fails: results_async() raises (only for jobs of ('call',) callers, else = finish)
    After the turns the engine finishes the oldest unfinished job, one per turn, until none is left.
    Returns dict(trace, applied, tops, deliveries, peaks, idle, circuits_of_call)."""
    import duet
    from duet import impl
    cirq, cg = mods['cirq'], mods['cirq_google']
    trace = []            # ('call', i) ('create', i, j) ('finish', j, ok) ('return', i, j, ok)
    calls = []            # call i -> circuit numbers
    call_of_circ = {}
    kind_of_circ = {}     # circuit number -> top-level caller (t, kind)
    jobs, unfinished = [], []
    peaks = []            # (position in the trace, unfinished jobs) whenever a job is created
    idle = []             # quiescent points at which a caller waits for a slot although fewer than `limit` jobs are unfinished
    deliveries = []       # ('collector', t, tag circuit, result)
    q = cirq.LineQubit(0)
    ncirc = [0]

    def new_circuit(owner):
        n = ncirc[0]
        ncirc[0] += 1
        kind_of_circ[n] = owner
        return cirq.Circuit(cirq.measure(q, key=f'c{n}'))

    def circ_no(c):
        return int(sorted(cirq.measurement_key_names(c))[0][1:])

    def numbers(program):
        if isinstance(program, dict):
            return [circ_no(c) for c in program.values()]
        if isinstance(program, (list, tuple)):
            return [circ_no(c) for c in program]
        return [circ_no(program)]

    class MJob:
        def __init__(self, j, circs):
            self.j, self.circs, self.f = j, circs, duet.AwaitableFuture()

        async def results_async(self):
            return await self.f

    class MProcessor:
        async def run_sweep_async(self, program, params, repetitions, **kw):
            nums = numbers(program)
            job = MJob(len(jobs), nums)
            jobs.append(job)
            unfinished.append(job)
            trace.append(('create', call_of_circ.get(nums[0], -1), job.j))
            peaks.append((len(trace), len(unfinished)))
            return job

    class Observed(cg.ProcessorSampler):
        """run_sweep_async unchanged; the call and its outcome are recorded."""

        async def run_sweep_async(self, program, params, repetitions=1):
            nums = numbers(program)
            i = len(calls)
            calls.append(nums)
            for n in nums:
                call_of_circ[n] = i
            trace.append(('call', i))
            try:
                r = await super().run_sweep_async(program, params, repetitions)
            except _JobFailed as e:
                trace.append(('return', i, e.j, False))
                raise
            trace.append(('return', i, r[0].j if len(r) and isinstance(r[0], _JobResult) else -1, True))
            return r

    sampler = Observed(processor=MProcessor(), max_concurrent_jobs=limit, jobs_per_batch=jobs_per_batch)
    sch = impl.Scheduler()
    tops = []             # per top-level caller: dict(kind, circuits, outcome)

    def spawn(kind, make, circuits, **info):
        t = len(tops)
        rec = dict(kind=kind, circuits=circuits, outcome=None, **info)
        tops.append(rec)

        async def top():
            try:
                rec['outcome'] = ('ok', await make(t))
            except Exception as e:  # noqa: BLE001
                rec['outcome'] = ('err', e)
        sch.spawn(top())

    def apply(action):
        k = action[0]
        if k == 'batch':
            t = len(tops)
            cs = [new_circuit((t, 'batch')) for _ in range(action[1])]
            spawn('batch', lambda t: sampler.run_batch_async(cs, repetitions=2), [circ_no(c) for c in cs])
        elif k == 'call':
            t = len(tops)
            c = new_circuit((t, 'call'))
            spawn('call', lambda t: sampler.run_async(c, repetitions=2), [circ_no(c)])
        elif k == 'collect':
            t = len(tops)
            conc, n = action[1], action[2]
            handed = []

            class Col(cirq.Collector):
                def next_job(self):
                    if len(handed) >= n:
                        return None
                    c = new_circuit((t, 'collect'))
                    handed.append(circ_no(c))
                    return cirq.CircuitSampleJob(c, repetitions=2, tag=circ_no(c))

                def on_job_result(self, job, result):
                    deliveries.append(('collector', t, job.tag, result))
            spawn('collect', lambda t: Col().collect_async(sampler, concurrency=conc), handed, conc=conc, n=n)
        elif k in ('finish', 'fail'):
            if not unfinished:
                return None
            idx = action[1] % len(unfinished)         # negative: counted from the youngest
            job = unfinished.pop(idx)
            ok = k == 'finish' or kind_of_circ[job.circs[0]][1] != 'call'
            trace.append(('finish', job.j, ok))
            if ok:
                job.f.set_result([_JobResult(job.j, c) for c in job.circs])
            else:
                job.f.set_exception(_JobFailed(job.j))
            return ('finish' if ok else 'fail', idx)
        else:
            raise ValueError(action)
        return action

    def waiting_calls():
        created = {ev[1] for ev in trace if ev[0] == 'create'}
        live = [t for t in tops if t['outcome'] is None]
        live_circs = {c for t in live for c in t['circuits']}
        return [i for i in range(len(calls)) if i not in created and calls[i][0] in live_circs]

    applied = []
    it = iter(turns)
    exhausted = False
    for _ in range(20000):
        if sch._ready_tasks._tasks:
            sch.tick()
            continue
        # quiescent point
        if waiting_calls() and len(unfinished) < limit:
            idle.append((len(trace), len(unfinished), waiting_calls()))
        turn = None if exhausted else next(it, None)
        if turn is None:
            exhausted = True
            if not unfinished:
                break
            turn = [('finish', 0)]
        applied.append([a for a in (apply(x) for x in turn) if a is not None])
    else:
        raise RuntimeError('sampler driver does not settle')
    pending_tops = [t for t, rec in enumerate(tops) if rec['outcome'] is None]
    # tear down whatever is still alive
    for task in list(sch.active_tasks):
        task.interrupt(None, RuntimeError('driver teardown'))
    for _ in range(50):
        if not sch.active_tasks:
            break
        try:
            sch.tick()
        except BaseException:  # noqa: BLE001
            pass
    return dict(limit=limit, jobs_per_batch=jobs_per_batch, turns=[list(t) for t in turns], applied=applied, trace=trace,
                calls=calls, tops=tops, deliveries=deliveries, peaks=peaks, idle=idle, pending_tops=pending_tops,
                job_circs=[j.circs for j in jobs])


def sampler_racing(applied):
    """A caller arrives in the same scheduler turn as (after) a job completion: it may run before the waiter that the completing
    job's caller releases."""
    for turn in applied:
        seen = False
        for a in turn:
            if a[0] in ('finish', 'fail'):
                seen = True
            elif seen:
                return True
    return False


def sampler_oracles(c):
    """The property's statement on the real run (no model involved). Returns [(kind, what)]."""
    bad = []
    limit, trace = c['limit'], c['trace']
    racing = sampler_racing(c['applied'])
    # bounded concurrency: never more unfinished jobs on the processor than max_concurrent_jobs
    over = [(pos, n) for pos, n in c['peaks'] if n > limit]
    if over:
        pos, n = max(over, key=lambda x: x[1])
        bad.append(('bounded-race' if racing else 'bounded',
                    f'{n} unfinished jobs on the processor at once with max_concurrent_jobs={limit} (after {trace[:pos]})'))
    # ... and a Collector on top never has more than its own concurrency in flight
    for t, rec in enumerate(c['tops']):
        if rec['kind'] == 'collect':
            mine = set(rec['circuits'])
            cur = peak = 0
            job_of = {}
            for ev in trace:
                if ev[0] == 'create' and ev[1] >= 0 and c['calls'][ev[1]][0] in mine:
                    job_of[ev[2]] = True
                    cur += 1
                    peak = max(peak, cur)
                elif ev[0] == 'finish' and ev[1] in job_of:
                    cur -= 1
            if peak > rec['conc']:
                bad.append(('collector-bound', f'{peak} unfinished jobs of one Collector with concurrency={rec["conc"]}'))
    # every call creates exactly one job; nobody waits for a slot while slots are free; everything completes in the end
    creates = [ev for ev in trace if ev[0] == 'create']
    per_call = {}
    for ev in creates:
        per_call[ev[1]] = per_call.get(ev[1], 0) + 1
    for i, n in per_call.items():
        if i < 0 or n != 1:
            bad.append(('exactly-once', f'{n} jobs were created for call {i} (circuits {c["calls"][i] if i >= 0 else "?"})'))
    if c['idle']:
        pos, n, who = c['idle'][0]
        bad.append(('progress', f'calls {who} wait for a slot although only {n} of {limit} jobs are unfinished (after {trace[:pos]})'))
    if c['pending_tops']:
        bad.append(('progress', f'callers {c["pending_tops"]} never finished although every job on the processor finished'))
    # routing: every caller receives the results of its own circuits, exactly once
    rets = {}
    for ev in trace:
        if ev[0] == 'return':
            if ev[1] in rets:
                bad.append(('exactly-once', f'call {ev[1]} returned twice'))
            rets[ev[1]] = ev
            made = [x for x in creates if x[2] == ev[2]]
            if not made or made[0][1] != ev[1]:
                bad.append(('routing', f'call {ev[1]} (circuits {c["calls"][ev[1]]}) received the outcome of job {ev[2]}, which was '
                                       f'created for call {made[0][1] if made else "nobody"}'))
            fin = [x for x in trace if x[0] == 'finish' and x[1] == ev[2]]
            if not fin or fin[0][2] != ev[3]:
                bad.append(('routing', f'call {ev[1]} {"returned" if ev[3] else "raised"} for job {ev[2]} which the engine '
                                       f'{"finished " + ("ok" if fin[0][2] else "with a failure") if fin else "has not finished"}'))
    failed_circs = {x for ev in trace if ev[0] == 'finish' and not ev[2] for x in c['job_circs'][ev[1]]}
    for t, rec in enumerate(c['tops']):
        if rec['outcome'] is None:
            continue
        tag, val = rec['outcome']
        if rec['kind'] == 'batch':
            want = rec['circuits']
            got = None
            if tag == 'ok':
                try:
                    got = [[r.circ for r in per] for per in val]
                except Exception:  # noqa: BLE001
                    got = repr(val)
            if got != [[n] for n in want]:
                bad.append(('routing', f'run_batch_async of circuits {want} returned {got if tag == "ok" else repr(val)}'))
        elif rec['kind'] == 'call':
            n = rec['circuits'][0]
            if n in failed_circs:
                ok = tag == 'err' and isinstance(val, _JobFailed) and c['job_circs'][val.j] == [n]
            else:
                ok = tag == 'ok' and isinstance(val, _JobResult) and val.circ == n
            if not ok:
                bad.append(('routing', f'run_async of circuit {n} ended with {val!r} '
                                       f'({"its job failed" if n in failed_circs else "its job finished"})'))
        else:
            got = [(tg, r.circ if isinstance(r, _JobResult) else repr(r)) for k, tt, tg, r in c['deliveries'] if tt == t]
            if tag != 'ok' or sorted(got) != [(n, n) for n in sorted(rec['circuits'])] or len(rec['circuits']) != rec['n']:
                bad.append(('routing', f'Collector over {rec["n"]} jobs (circuits {rec["circuits"]}): on_job_result received (job, result '
                                       f'circuit) {got}, collect_async ended with {rec["outcome"]}'))
    return bad


def _lit_lev(ev):
    b = lambda x: 'true' if x else 'false'
    n = lambda x: x if x >= 0 else 999999
    if ev[0] == 'call':
        return f'LCall {ev[1]}'
    if ev[0] == 'create':
        return f'LCreate {n(ev[1])} {ev[2]}'
    if ev[0] == 'finish':
        return f'LFinish {ev[1]} {b(ev[2])}'
    return f'LReturn {ev[1]} {n(ev[2])} {b(ev[3])}'


SAMPLER_HEADER = ('From Coq Require Import List Bool.\nFrom VF Require Import Base.Harness Async.Limiter.\n'
                  'Import ListNotations.\n')


def sampler_compare(ctx, cases):
    bad = []
    for lo in range(0, len(cases), 400):
        shard = cases[lo:lo + 400]
        text = SAMPLER_HEADER + 'Definition cases : list (nat * list lev) := [\n'
        text += ';\n'.join(f'({c["limit"]}, [' + '; '.join(_lit_lev(e) for e in c['trace']) + '])' for c in shard) + '].\n'
        text += 'Eval vm_compute in failing lagrees cases.\n'
        vals = coq.parse_evals(coq.coq_eval(f'c20_sampler_{ctx.seed}_{lo}', text))
        bad += [lo + i for i in coq.parse_nat_list(vals[0])]
    return bad


def sampler_orders(n_finishes, quick):
    """completion orders: which of the unfinished jobs (index in creation order) the engine finishes next"""
    orders = [(0,), (-1,), (1, 0), (0, -1), (2, 0, 1)]
    if not quick:
        orders += [(1,), (-1, 0, 0), (2, 1), (1, 1, 0), (3, 0)]
    return orders


def sampler_grid(quick):
    """Fixed grid, every seed. Yields (stream, limit, jobs_per_batch, turns)."""
    def finishes(order, count, per_turn=1, fail_every=0):
        turns, k = [], 0
        for i in range(0, count, per_turn):
            turn = []
            for _ in range(per_turn):
                kind = 'fail' if fail_every and (k + 1) % fail_every == 0 else 'finish'
                turn.append((kind, order[k % len(order)]))
                k += 1
            turns.append(turn)
        return turns
    orders = sampler_orders(0, quick)
    # an index is taken modulo the number of unfinished jobs (-1 = the youngest)
    for order in orders:
        # run_batch_async of more circuits than the limit
        for limit, n in ((1, 3), (2, 6), (3, 7)) + (() if quick else ((2, 9), (4, 6), (5, 12))):
            for per_turn in (1, 2):
                yield 'sampler_batch', limit, 1, [[('batch', n)]] + finishes(order, n, per_turn)
        # ... batched several circuits per job
        for limit, n, jpb in ((1, 5, 2), (2, 7, 3)):
            yield 'sampler_batch', limit, jpb, [[('batch', n)]] + finishes(order, n)
        # a Collector with a higher concurrency than the limit (and with a lower one)
        for limit, conc, n in ((2, 5, 8), (1, 3, 4), (3, 2, 6)) + (() if quick else ((2, 4, 12), (3, 6, 9))):
            for per_turn in (1, 2):
                yield 'sampler_collector', limit, 1, [[('collect', conc, n)]] + finishes(order, n, per_turn)
        # independent callers arriving over time (between the engine's completions), some of their jobs failing; two batches
        for limit in (1, 2):
            turns = [[('call',), ('call',), ('call',)]]
            for i, t in enumerate(finishes(order, 7, 1, fail_every=3)):
                turns += [t, [('call',)] if i < 4 else []]
            yield 'sampler_calls', limit, 1, turns
            yield 'sampler_calls', limit, 1, ([[('batch', 3)], [('batch', 2), ('call',)]] + finishes(order, 2) + [[('collect', 2, 3)]]
                                              + finishes(order, 7))
    # a caller arriving in the very turn in which a job completes while somebody waits for a slot (the witness of
    # C20_limiter_bounded_needs_calm, and its neighbours)
    for limit in (1, 2):
        for waiting in (1, 2):
            start = [('call',)] * (limit + waiting)
            yield 'sampler_race', limit, 1, [start, [('finish', 0), ('call',)]]
            yield 'sampler_race', limit, 1, [start, [('finish', 0), ('batch', 2)]]
            yield 'sampler_race', limit, 1, [start, [('call',), ('finish', 0)]]


def sampler_stream(ctx, mods):
    rng = ctx.rng
    quick = ctx.tier == 'quick'
    cases = []

    for stream, limit, jpb, turns in sampler_grid(quick):
        c = run_sampler(mods, limit, turns, jobs_per_batch=jpb)
        c['stream'] = stream
        cases.append(c)
    for _ in range(120 if quick else 2500):
        limit = rng.choice([1, 1, 2, 2, 3, 4])
        turns = [[rng.choice([('batch', rng.randint(1, 6)), ('collect', rng.randint(1, 5), rng.randint(1, 7)), ('call',)])
                  for _ in range(rng.choice([1, 1, 2]))]]
        for _ in range(rng.randint(2, 12)):
            r = rng.random()
            if r < 0.7:
                turn = [(rng.choice(['finish'] * 5 + ['fail']), rng.choice([0, 0, 1, 2, -1])) for _ in range(rng.choice([1, 1, 1, 2, 3]))]
            elif r < 0.9:
                turn = [rng.choice([('call',), ('call',), ('batch', rng.randint(1, 4)), ('collect', rng.randint(1, 4), rng.randint(1, 5))])]
            else:
                turn = [(rng.choice(['finish', 'finish', 'fail']), rng.choice([0, 1, -1])), ('call',)]      # racing arrival
            turns.append(turn)
        c = run_sampler(mods, limit, turns, jobs_per_batch=rng.choice([1, 1, 1, 2, 3]))
        c['stream'] = 'sampler_random'
        cases.append(c)
    for c in cases:
        ncre = sum(1 for e in c['trace'] if e[0] == 'create')
        ctx.count(c['stream'], (c['limit'], c['jobs_per_batch'], c['applied']), nontrivial=ncre > c['limit'],
                  sample=dict(max_concurrent_jobs=c['limit'], jobs_per_batch=c['jobs_per_batch'], turns=c['applied'], trace=c['trace']))
        for kind, what in sampler_oracles(c):
            ctx.violation(f'sampler:{kind}', f'ProcessorSampler(max_concurrent_jobs={c["limit"]}, jobs_per_batch={c["jobs_per_batch"]}): '
                          f'{what} [turns: {c["applied"]}]',
                          dict(kind='sampler', limit=c['limit'], jobs_per_batch=c['jobs_per_batch'], turns=c['applied'], failed=kind))
    for idx in sampler_compare(ctx, cases):
        c = cases[idx]
        ctx.mark_broken('correspondence:sampler',
                        f'limiter model does not accept the run of ProcessorSampler(max_concurrent_jobs={c["limit"]}, '
                        f'jobs_per_batch={c["jobs_per_batch"]}): turns={c["applied"]} trace={c["trace"]}')


def replay_sampler(mods, data):
    turns = [[tuple(a) for a in t] for t in data['turns']]
    c = run_sampler(mods, data['limit'], turns, jobs_per_batch=data.get('jobs_per_batch', 1))
    bad = sampler_oracles(c)
    print('turns:', c['applied'])
    print('trace:', c['trace'])
    print('oracle failures:', bad)
    return not bad


# ======================================================================================================================


def run(ctx):
    mods = env.import_cirq(('cirq_google',))
    cirq = mods['cirq']
    ctx.rule = ('collector: every completion order / batch / failure choice at every quiescent point of the loop for <=4 jobs x '
                'concurrency 1..3 x budgets (DFS), random oracles (nested job trees, 2..8 jobs, empty answers), budgets, batches, '
                'failures and early stops; the real PauliSumCollector as job source, fixed grid for every seed: concurrency 1..4 x '
                '(samples_per_term, max_samples_per_job) in {(4,100), (5,2), (3,1), (40,15), (30,10)} x three observables (two terms / three '
                'commuting terms / four terms, three of them on one qubit) x five completion orders (oldest, youngest, alternating, two per '
                'scheduler turn, everything in flight youngest first) through collect_async and collect(), plus max_total_samples cutting the '
                'work and a failing job, plus random ones; each job is attributed to the term its circuit measures, samples have payload-chosen '
                'parities: per term never more than samples_per_term samples requested, exactly that many when collect returns with budget '
                'left, jobs of 1..max_samples_per_job, estimated_energy() equal to the estimate from the delivered results, and the recorded '
                'next_job answers equal to the Coq work list; non-trivial = at least two jobs '
                'started. stream: (A) one submit along every fault sequence of length <=2 (quick) / <=3 (thorough) over {undisturbed, '
                'break before/after handling with a retryable and a fatal exception, reject with each already-exists/does-not-exist '
                'code and INTERNAL, late handling of an overtaken request} x 4 initial server states, plus random longer ones; '
                'non-trivial = at least one fault. (B) the whole manager: every event sequence of depth 5 (quick) / 6-7 (thorough) '
                'over the state-dependent menu {submit, handle k-th request, deliver k-th response, retryable / fatal break, cancel}, '
                'plus random schedules with up to 4 submits, shared programs, pre-existing programs/jobs, failing jobs, all error '
                'codes, all 14 exception kinds, cancel-while-response-pending, stop(), half of them followed by the undisturbed '
                'server (every request handled, every response delivered) after which nobody may be left waiting; non-trivial = '
                '>=2 requests and >=1 fault/cancel. (C) fixed grid, every seed: a submitter cancels while the reply to its request '
                'is under way and 1-2 other jobs are in flight: {2,3 jobs} x victim x shared/own program x {no break, retryable '
                'break, handled then break} x {cancel before / after the server handled the request, during delivery, twice} x '
                'reply {result, failed job, JOB_ALREADY_EXISTS, PROGRAM_DOES_NOT_EXIST, INTERNAL} x others {untouched, handled}, '
                'plus stop() and two-victim variants; and the cancel arriving while a stream failure is delivered to the victim '
                '(BreakCancel: 2 retryable + 2 fatal exceptions) or together with / replaced by stop() (cancel just before / after '
                'stop(), stop() alone) x victim\'s request {untouched, handled, answered PROGRAM_ALREADY_EXISTS} x the same '
                'surroundings; each followed by the undisturbed server. Every completion of a submit '
                'future is judged step by step: it must be caused by its own response / its stream\'s failure / its own '
                'cancellation / stop(); every future that ends cancelled must have its CancelQuantumJob at the server in the same '
                'step and vice versa. collector (2b) fixed grid, every seed: 2-4 jobs in flight x every success/failure assignment x '
                'every completion order x every grouping of the completions into scheduler turns (cut after the first failing '
                'turn), through collect_async and through collect(); the caller must receive the very exception object of a '
                'failed job. stream (A2/C2) fixed grids, every seed, both server flavours (the conflict reported when program and job '
                'both exist: PROGRAM_ALREADY_EXISTS or JOB_ALREADY_EXISTS): the create request overtaken by 1-2 stream breaks is handled '
                'late after 0..4 exchanges of the client\'s re-creation chain (one submit as fault sequence; 1-2 submits, own / shared '
                'program, the other untouched / finished, then the undisturbed server), resubmission of an existing job; every '
                'already-exists / does-not-exist reply that makes sense for its request must be followed by a right next request, '
                'never by a StreamError. stream (A3/C3) fixed grids, every seed: the response stream fails with every kind of exception that is not retryable - 9 non-retryable google API errors and 9 exceptions that are no google API errors (RuntimeError, '
                'ConnectionResetError, EOFError, TimeoutError, ValueError, grpc.RpcError, google.auth TransportError, api_core RetryError, a '
                'BaseException) - before / after the server handled the current request (first create, get-result after a retryable break, '
                'later request of the retry chain) for one submit, and for the manager with 1-3 jobs in flight (own / shared program, after '
                'no / one retryable break, requests untouched / handled / the first job already answered, plain failure or coinciding with '
                'one submitter\'s cancel), followed by a further submit and the undisturbed server: everybody in flight must receive that '
                'very failure, the later job its own result; the depth-5 enumeration menu also offers such a failure. sampler: ProcessorSampler(max_concurrent_jobs=1..5, jobs_per_batch=1..3) in front of a model '
                'processor whose jobs finish only when the driver says so: fixed grid x 5 (10) completion orders x 1-2 completions '
                'per scheduler turn: run_batch_async of more circuits than the limit, a Collector with higher (and lower) concurrency '
                'than the limit, independent run_async callers arriving between completions with failing jobs, several batches / '
                'collectors sharing the sampler, and callers arriving in the very turn of a completion (sampler_race); plus random '
                'turn lists; non-trivial = more jobs than the limit. distinct by canonical input')
    ctx.assumptions += ['duet scheduler ticked by hand: completions are applied only when no task is ready (quiescent points)',
                        'the fake Sampler returns duet futures completed by the driver; results are integers (for PauliSumCollector: cirq.ResultDict whose '
                        'number of odd-parity samples is the payload mod (repetitions + 1)); a PauliSumCollector job is attributed to the term P '
                        'for which its circuit is the state preparation followed by a basis change U with U P U^-1 = Z..Z and one measurement '
                        '\'out\' of P\'s qubits',
                        'StreamManager runs on an asyncio loop that only the driver turns (AsyncioExecutor.submit unchanged, no thread); '
                        'every event is followed by running the loop until no callback is ready',
                        'a cancel() racing with a reply / a stream failure is issued one loop turn after the message was put on the '
                        'stream (after publish / publish_exception, before the execution coroutine resumes); when stop() and a cancel() '
                        'fall into one turn the completions of that step are compared in subscription order',
                        'Collector.collect() is driven through duet.run with duet.impl.Scheduler replaced by a subclass that completes '
                        'the next batch whenever no task is ready',
                        'fake Quantum Engine: creation refused when the program/job exists, GetQuantumResult answers '
                        'JOB_DOES_NOT_EXIST whenever the job is missing; StreamError.message carries the code name',
                        'ProcessorSampler: the model processor creates a job synchronously inside run_sweep_async; a job\'s '
                        'results_async() completes only when the driver finishes the job at a quiescent point of the hand-ticked duet '
                        'scheduler; only jobs of independent run_async callers are made to fail (a failing job of a batch / Collector '
                        'cancels its siblings, whose engine jobs are then orphaned: outside the statement)',
                        'exceptions that are not google API errors are presented to the Coq models as the one such exception of the models '
                        '(XRuntimeError: the models distinguish exceptions only through is_api / is_retryable); the oracles compare the '
                        'exception object a submitter receives with the object the stream raised (for the builtin TimeoutError, which '
                        'asyncio re-creates when chaining futures: type and arguments, the message names the step)',
                        'the fake stream keeps draining the old request iterator until the None sentinel (as the upstream test fake '
                        'does); behaviour of the real gRPC layer is not modelled']
    err = tables.regenerate(['RetryTable'])
    if err['RetryTable']:
        ctx.mark_broken('table:RetryTable', err['RetryTable'])
    ctx.set_obligations(coq.compile_props('C20'))
    collector_stream(ctx, cirq)
    stream_streams(ctx, mods)
    sampler_stream(ctx, mods)


def replay(ctx, data):
    mods = env.import_cirq(('cirq_google',))
    cirq = mods['cirq']
    if data.get('kind') == 'collector':
        return replay_collector(cirq, data)
    if data.get('kind') == 'collector_paulisum':
        it = iter([[(n, tuple(o)) for n, o in b] for b in data['sched']])
        c = collector_case(cirq, data['conc'], data.get('budget'), [], lambda k: next(it, None), pauli=data['pauli'],
                           entry=data.get('entry', 'async'))
        bad = paulisum_oracles(pauli_setup(cirq, data['pauli'].get('obs', 0)), c)
        bad += collector_oracles(c['conc'], c['budget'], c['trace'], c['status'], c['late'], c['n_pending'])
        print('trace:', c['trace'], 'energy:', c['energy'])
        print('status:', c['status'], 'oracle failures:', bad)
        return not bad
    if data.get('kind') in ('stream', 'stream_faults'):
        return replay_stream(mods, data)
    if data.get('kind') == 'sampler':
        return replay_sampler(mods, data)
    print('nothing to replay for kind', data.get('kind'))
    return False
