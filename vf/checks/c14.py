"""C14 — Pauli-string algebra and expectation values match their matrices (DESIGN 5/C14)."""
import itertools, math
from fractions import Fraction as F
import numpy as np
from .. import env, coq, runner, tables

LEVEL = 'proof'
META = dict(
    text='Coq theorems over any ring with i*i = -1 (hence over C), for strings of any length: the product computed in the shape of MutablePauliString._imul_helper/_imul_atom_helper (regenerated atom table, left/right sign, phase_log_i & 3) and the dense pauli_mask arithmetic with _vectorized_pauli_mul_phase have as matrix the product of the operands\' matrices, coefficient and phase included; the commutation tests decide P Q = +-Q P; negation, scalar multiples, inverse, qubit remapping, dense<->sparse conversion and PauliSum +,-,* are matrix homomorphisms. A correspondence run compares every operator of PauliString / MutablePauliString / DensePauliString / PauliSum with the model evaluated inside Coq on exact Gaussian-rational coefficients (exhaustive pairs and triples on small registers, random up to 5 qubits), and numpy/scipy oracles check products, commutation, Clifford conjugation, PauliStringPhasor, PauliSumExponential and expectation values on the real objects.',
    note='Trusted: Coq kernel; the Python adapters in vf/checks/c14.py (calling Cirq, printing exact rationals; float coefficients are dyadic so Cirq\'s arithmetic is exact on them); vf/tables_c14.py. Conjugation by Cliffords, phasors, exponentials and expectation values are compared with numpy/scipy references on generated inputs (tolerance 1e-8), not proved. Theorems are closed under the global context (no axioms).',
    technique='Rocq/Coq proof over an executable Gallina model + regenerated finite tables + vm_compute correspondence and numpy oracles against the implementation',
)

LET = ['pI', 'pX', 'pY', 'pZ']
ATOL = 1e-8
HEADER = ('From Coq Require Import ZArith List Bool QArith Qcanon.\n'
          'From VF Require Import Base.RingOps Base.Mat Base.Harness Cliff.Pauli.\n'
          'Import ListNotations.\nOpen Scope Z_scope.\nNotation G := GQOps.\n')
Z = coq.zlit


# ---------------------------------------------------------------- exact numbers
def fz(c):
    """complex float -> exact Gaussian rational (pair of Fractions)."""
    c = complex(c)
    return (F(c.real), F(c.imag))


def cz(z):
    return complex(float(z[0]), float(z[1]))


def zmul(a, b):
    return (a[0] * b[0] - a[1] * b[1], a[0] * b[1] + a[1] * b[0])


def zinv(a):
    n = a[0] * a[0] + a[1] * a[1]
    return (a[0] / n, -a[1] / n)


def gq(z):
    return f'(gq {Z(z[0].numerator)} {z[0].denominator} {Z(z[1].numerator)} {z[1].denominator})'


UNITS = [(F(1), F(0)), (F(0), F(1)), (F(-1), F(0)), (F(0), F(-1))]


def rand_coef(rng, unit_p=0.45):
    """dyadic Gaussian rational: exactly representable, products of a few stay exact in binary64."""
    if rng.random() < unit_p:
        return rng.choice(UNITS)
    while True:
        e = rng.choice([0, 0, 1, 2])
        z = (F(rng.randint(-6, 6), 1 << e), F(rng.randint(-6, 6), 1 << e) if rng.random() < 0.6 else F(0))
        if z != (0, 0):
            return z


def rand_invertible(rng):
    """|c|^2 a power of two, so 1/c is exact in binary64."""
    k = rng.choice([-2, -1, 0, 0, 1, 2])
    s = F(2) ** k
    return rng.choice([(s, F(0)), (-s, F(0)), (F(0), s), (F(0), -s), (s, s), (s, -s), (-s, s)])


# ---------------------------------------------------------------- adapters
class A:
    """Conversions between the case language (coef pair, ordered [(qubit id, code)]) and Cirq objects."""

    def __init__(self, cirq):
        self.cirq = cirq
        self.gates = [cirq.I, cirq.X, cirq.Y, cirq.Z]
        self.idx = {cirq.I: 0, cirq.X: 1, cirq.Y: 2, cirq.Z: 3}

    def q(self, i):
        return self.cirq.LineQubit(i)

    def ps(self, s):
        c, items = s
        return self.cirq.PauliString(qubit_pauli_map={self.q(k): self.gates[p] for k, p in items}, coefficient=cz(c))

    def mps(self, s):
        c, items = s
        return self.cirq.MutablePauliString(coefficient=cz(c), pauli_int_dict={self.q(k): p for k, p in items})

    def out(self, p):
        return (fz(p.coefficient), [(q.x, self.idx[g]) for q, g in p.items()])

    def dps(self, d, mutable=False):
        c, mask = d
        cls = self.cirq.MutableDensePauliString if mutable else self.cirq.DensePauliString
        return cls(list(mask), coefficient=cz(c))

    def dout(self, d):
        return (fz(d.coefficient), [int(x) for x in d.pauli_mask])

    def psum(self, terms):
        return self.cirq.PauliSum.from_pauli_strings([self.ps(t) for t in terms])

    def sum_out(self, s):
        return [(fz(c), sorted((q.x, self.idx[g]) for q, g in k)) for k, c in s._linear_dict.items()]

    def mat(self, s, qs):
        """reference matrix of a case-language string, built with numpy only."""
        c, items = s
        d = dict(items)
        return cz(c) * kron_all([PM[d.get(k, 0)] for k in qs])


PM = [np.eye(2, dtype=complex), np.array([[0, 1], [1, 0]], dtype=complex),
      np.array([[0, -1j], [1j, 0]], dtype=complex), np.array([[1, 0], [0, -1]], dtype=complex)]


def kron_all(ms):
    r = np.ones((1, 1), dtype=complex)
    for m in ms:
        r = np.kron(r, m)
    return r


def c_pm(items):
    return '[' + '; '.join(f'({Z(k)}, {LET[p]})' for k, p in items) + ']'


def c_ps(s):
    return f'(mkP {gq(s[0])} {c_pm(s[1])})'


def c_mask(m):
    return '[' + '; '.join(LET[p] for p in m) + ']'


def c_ds(d):
    return f'(mkD {gq(d[0])} {c_mask(d[1])})'


def c_opt(x, f):
    return 'None' if x is None else f'(Some {f(x)})'


def c_list(xs, f=str):
    return '[' + '; '.join(f(x) for x in xs) + ']'


def coq_failing(ctx, name, ty, rows, pred, extra=''):
    """Evaluate `pred` (a Gallina fun on one row) on all rows with vm_compute; returns failing indices."""
    if not rows:
        return []
    bad = []
    shard = 400
    for s in range(0, len(rows), shard):
        part = rows[s:s + shard]
        text = HEADER + extra + f'Definition rows : list ({ty}) := [\n' + ';\n'.join(part) + '].\n'
        text += f'Eval vm_compute in failing ({pred}) rows.\n'
        vals = coq.parse_evals(coq.coq_eval(f'c14_{name}_{ctx.seed}_{s // shard}', text))
        assert len(vals) == 1, vals
        bad += [s + i for i in coq.parse_nat_list(vals[0])]
    return bad


# ---------------------------------------------------------------- generators
def rand_items(rng, n, p_present=0.65, allow=None):
    qs = list(range(n)) if allow is None else list(allow)
    rng.shuffle(qs)
    return [(k, rng.randint(1, 3)) for k in qs if rng.random() < p_present]


def rand_ps(rng, n, **kw):
    return (rand_coef(rng), rand_items(rng, n, **kw))


def all_masks(n):
    return list(itertools.product(range(4), repeat=n))


def mask_items(mask):
    return [(k, p) for k, p in enumerate(mask) if p]


# ---------------------------------------------------------------- streams: PauliString products
def stream_mul_exhaustive(ctx, ad, ns, triples_n):
    """All ordered pairs of letter patterns on n qubits (unit coefficients cycling), all triples on triples_n qubits."""
    cirq = ad.cirq
    rows, meta = [], []
    for n in ns:
        qs = list(range(n))
        masks = all_masks(n)
        for ia, ma in enumerate(masks):
            for ib, mb in enumerate(masks):
                a = (UNITS[(ia + ib) % 4], mask_items(ma))
                b = (UNITS[(ia * 3 + ib // 4) % 4], mask_items(mb))
                r = ad.ps(a) * ad.ps(b)
                out = ad.out(r)
                nontrivial = any(x and y for x, y in zip(ma, mb))
                ctx.count('ps_mul_exhaustive', (n, ma, mb), nontrivial,
                          sample=dict(a=str(ad.ps(a)), b=str(ad.ps(b)), product=str(r)))
                rows.append(f'({c_ps(a)}, {c_ps(b)}, {c_ps(out)})')
                meta.append(('mul', a, b, None, out, qs))
                check_product_matrix(ctx, ad, 'ps_mul', [a, b], r, qs)
    for n in triples_n:
        qs = list(range(n))
        masks = all_masks(n)
        for ma in masks:
            for mb in masks:
                for mc in masks:
                    a, b, c = (UNITS[1], mask_items(ma)), (UNITS[2], mask_items(mb)), (UNITS[3], mask_items(mc))
                    r = ad.ps(a) * ad.ps(b) * ad.ps(c)
                    out = ad.out(r)
                    ctx.count('ps_mul_triples', (n, ma, mb, mc), sum(1 for m in (ma, mb, mc) if any(m)) >= 2)
                    rows.append(f'({c_ps(a)}, {c_ps(b)}, {c_ps(c)}, {c_ps(out)})')
                    meta.append(('mul3', a, b, c, out, qs))
                    check_product_matrix(ctx, ad, 'ps_mul3', [a, b, c], r, qs)
    pair_rows = [r for r, m in zip(rows, meta) if m[0] == 'mul']
    pair_meta = [m for m in meta if m[0] == 'mul']
    tri_rows = [r for r, m in zip(rows, meta) if m[0] == 'mul3']
    tri_meta = [m for m in meta if m[0] == 'mul3']
    T = 'pstr (K:=GQ)'
    for idx in coq_failing(ctx, 'mulx', f'{T} * {T} * {T}', pair_rows,
                           'fun c => match c with (a, b, r) => ps_eqb (ps_mul G a b) r end'):
        _, a, b, _, out, qs = pair_meta[idx]
        ctx.mark_broken('correspondence:ps_mul', f'model and implementation differ on {a} * {b}: implementation gave {out}')
    for idx in coq_failing(ctx, 'mul3', f'{T} * {T} * {T} * {T}', tri_rows,
                           'fun c => match c with (a, b, c0, r) => ps_eqb (ps_mul G (ps_mul G a b) c0) r end'):
        _, a, b, c, out, qs = tri_meta[idx]
        ctx.mark_broken('correspondence:ps_mul3', f'model and implementation differ on {a} * {b} * {c}: implementation gave {out}')


def check_product_matrix(ctx, ad, stream, operands, result, qs):
    """Spec-level oracle on the real code: matrix(result) = product of the operands' reference matrices."""
    ref = np.eye(2 ** len(qs), dtype=complex)
    for s in operands:
        ref = ref @ ad.mat(s, qs)
    got = result.matrix([ad.q(k) for k in qs])
    if got.shape != ref.shape or not np.allclose(got, ref, atol=ATOL):
        ctx.violation(f'{stream}:matrix', f'{stream}: matrix of the product of {operands} on qubits {qs} differs from the product of the matrices',
                      dict(kind='product', operands=[ser_ps(s) for s in operands], qubits=qs))
        return False
    return True


def ser_ps(s):
    return dict(coef=[str(s[0][0]), str(s[0][1])], items=[[int(k), int(p)] for k, p in s[1]])


def deser_ps(d):
    return ((F(d['coef'][0]), F(d['coef'][1])), [(int(k), int(p)) for k, p in d['items']])


# ---------------------------------------------------------------- driver
def run(ctx):
    cirq = env.import_cirq()
    ad = A(cirq)
    ctx.rule = ('Pauli strings as (Gaussian-rational coefficient, ordered qubit->letter items); exhaustive ordered pairs of letter '
                'patterns on <=3 qubits and triples on <=2 qubits with unit coefficients, random strings on <=5 qubits with dyadic '
                'Gaussian coefficients and shuffled dict orders; results compared exactly (coefficient, letters per qubit) with '
                'the Gallina model by vm_compute, and as matrices with numpy references (tol 1e-8); non-trivial = operands share '
                'a qubit / result is not an operand; distinct by canonical input')
    ctx.assumptions += ['vf/checks/c14.py adapters calling Cirq and printing exact rationals',
                        'binary64 arithmetic is exact on the generated dyadic coefficients (checked: results are compared exactly)',
                        'numpy/scipy reference linear algebra for the matrix-level oracles (tolerance 1e-8)']
    err = tables.regenerate(['PauliTables'])
    if err['PauliTables']:
        ctx.mark_broken('table:PauliTables', err['PauliTables'])
    ctx.set_obligations(coq.compile_props('C14'))
    quick = ctx.tier == 'quick'
    stream_mul_exhaustive(ctx, ad, [1, 2, 3] if quick else [1, 2, 3], [1, 2] if quick else [1, 2])


def replay(ctx, data):
    cirq = env.import_cirq()
    ad = A(cirq)
    k = data.get('kind')
    if k == 'product':
        ops = [deser_ps(d) for d in data['operands']]
        qs = data['qubits']
        r = ad.ps(ops[0])
        for s in ops[1:]:
            r = r * ad.ps(s)
        print('product ->', r)
        ref = np.eye(2 ** len(qs), dtype=complex)
        for s in ops:
            ref = ref @ ad.mat(s, qs)
        return bool(np.allclose(r.matrix([ad.q(i) for i in qs]), ref, atol=ATOL))
    print('nothing to replay for kind', k)
    return False
