"""C14 — Pauli-string algebra and expectation values match their matrices (DESIGN 5/C14)."""
import itertools, math
from fractions import Fraction as F
import numpy as np
from .. import env, coq, runner, tables

LEVEL = 'proof'
META = dict(
    text='Coq theorems over any ring with i*i = -1 (hence over C), for strings of any length: the product computed in the shape of MutablePauliString._imul_helper/_imul_atom_helper (regenerated atom table, left/right sign, phase_log_i & 3) and the dense pauli_mask arithmetic with _vectorized_pauli_mul_phase have as matrix the product of the operands\' matrices, coefficient and phase included; the commutation tests decide P Q = +-Q P; negation, scalar multiples, inverse, qubit remapping, dense<->sparse conversion and PauliSum +,-,* are matrix homomorphisms. A correspondence run compares every operator of PauliString / MutablePauliString / DensePauliString / PauliSum with the model evaluated inside Coq on exact Gaussian-rational coefficients (exhaustive pairs and triples on small registers, random up to 5 qubits), and numpy/scipy oracles check products, commutation, Clifford conjugation, PauliStringPhasor, PauliSumExponential and expectation values on the real objects. Histories of in-place operations on one MutableDensePauliString / MutablePauliString / PauliSum (every view of the object read before and after every step; copies taken on the way and operands must keep their values) are compared step by step with the trace of the model (Cliff/PauliHist.v: a history of products and scalar multiples has as matrix the same history on the matrices, rejected steps change nothing, assignments replace exactly the addressed letters) and with the numpy matrix of the history. For a PauliSum the views that rely on the sum\'s own qubits (qubits, matrix(), sparse_matrix(), with_qubits, expectation values over a map listing exactly the qubits acted on, PauliSumExponential) are judged against the support of the reference matrix after every step, and the reported qubits are compared in Coq with psum_support of the model state (proved sorted, duplicate-free, exactly the qubits of the terms, and a register on which the product of two sums is the product of the matrices).',
    note='Trusted: Coq kernel; the Python adapters in vf/checks/c14.py (calling Cirq, printing exact rationals; float coefficients are dyadic so Cirq\'s arithmetic is exact on them); vf/tables_c14.py. Conjugation by Cliffords, phasors, exponentials and expectation values are compared with numpy/scipy references on generated inputs (tolerance 1e-8), not proved. Theorems are closed under the global context (no axioms).',
    technique='Rocq/Coq proof over an executable Gallina model + regenerated finite tables + vm_compute correspondence and numpy oracles against the implementation',
)

LET = ['pI', 'pX', 'pY', 'pZ']
ATOL = 1e-8
HEADER = ('From Coq Require Import ZArith List Bool QArith Qcanon.\n'
          'From VF Require Import Base.RingOps Base.Mat Base.Harness Cliff.Pauli Cliff.PauliHist.\n'
          'Import ListNotations.\nOpen Scope Z_scope.\nNotation G := GQOps.\n')
Z = coq.zlit


# ---------------------------------------------------------------- exact numbers
def fz(c):
    """complex float -> exact Gaussian rational (pair of Fractions)."""
    c = complex(c)
    return (F(c.real), F(c.imag))


def cz(z):
    return complex(float(z[0]), float(z[1]))


def zmul(a, b):
    return (a[0] * b[0] - a[1] * b[1], a[0] * b[1] + a[1] * b[0])


def zinv(a):
    n = a[0] * a[0] + a[1] * a[1]
    return (a[0] / n, -a[1] / n)


def gq(z):
    return f'(gq {Z(z[0].numerator)} {z[0].denominator} {Z(z[1].numerator)} {z[1].denominator})'


UNITS = [(F(1), F(0)), (F(0), F(1)), (F(-1), F(0)), (F(0), F(-1))]


def rand_coef(rng, unit_p=0.45):
    """dyadic Gaussian rational: exactly representable, products of a few stay exact in binary64."""
    if rng.random() < unit_p:
        return rng.choice(UNITS)
    while True:
        e = rng.choice([0, 0, 1, 2])
        z = (F(rng.randint(-6, 6), 1 << e), F(rng.randint(-6, 6), 1 << e) if rng.random() < 0.6 else F(0))
        if z != (0, 0):
            return z


def rand_invertible(rng):
    """|c|^2 a power of two, so 1/c is exact in binary64."""
    k = rng.choice([-2, -1, 0, 0, 1, 2])
    s = F(2) ** k
    return rng.choice([(s, F(0)), (-s, F(0)), (F(0), s), (F(0), -s), (s, s), (s, -s), (-s, s)])


# ---------------------------------------------------------------- adapters
class A:
    """Conversions between the case language (coef pair, ordered [(qubit id, code)]) and Cirq objects."""

    def __init__(self, cirq):
        self.cirq = cirq
        self.gates = [cirq.I, cirq.X, cirq.Y, cirq.Z]
        self.idx = {cirq.I: 0, cirq.X: 1, cirq.Y: 2, cirq.Z: 3}

    def q(self, i):
        return self.cirq.LineQubit(i)

    def ps(self, s):
        c, items = s
        return self.cirq.PauliString(qubit_pauli_map={self.q(k): self.gates[p] for k, p in items}, coefficient=cz(c))

    def mps(self, s):
        c, items = s
        return self.cirq.MutablePauliString(coefficient=cz(c), pauli_int_dict={self.q(k): p for k, p in items})

    def out(self, p):
        return (fz(p.coefficient), [(q.x, self.idx[g]) for q, g in p.items()])

    def dps(self, d, mutable=False):
        c, mask = d
        cls = self.cirq.MutableDensePauliString if mutable else self.cirq.DensePauliString
        return cls(list(mask), coefficient=cz(c))

    def dout(self, d):
        return (fz(d.coefficient), [int(x) for x in d.pauli_mask])

    def psum(self, terms):
        return self.cirq.PauliSum.from_pauli_strings([self.ps(t) for t in terms])

    def sum_out(self, s):
        return [(fz(c), sorted((q.x, self.idx[g]) for q, g in k)) for k, c in s._linear_dict.items()]

    def mat(self, s, qs):
        """reference matrix of a case-language string, built with numpy only."""
        c, items = s
        d = dict(items)
        return cz(c) * kron_all([PM[d.get(k, 0)] for k in qs])


PM = [np.eye(2, dtype=complex), np.array([[0, 1], [1, 0]], dtype=complex),
      np.array([[0, -1j], [1j, 0]], dtype=complex), np.array([[1, 0], [0, -1]], dtype=complex)]


def kron_all(ms):
    r = np.ones((1, 1), dtype=complex)
    for m in ms:
        r = np.kron(r, m)
    return r


def c_pm(items):
    return '[' + '; '.join(f'({Z(k)}, {LET[p]})' for k, p in items) + ']'


def c_ps(s):
    return f'(mkP {gq(s[0])} {c_pm(s[1])})'


def c_mask(m):
    return '[' + '; '.join(LET[p] for p in m) + ']'


def c_ds(d):
    return f'(mkD {gq(d[0])} {c_mask(d[1])})'


def c_opt(x, f):
    return 'None' if x is None else f'(Some {f(x)})'


def c_list(xs, f=str):
    return '[' + '; '.join(f(x) for x in xs) + ']'


EXTRA = ('Definition inpl (sign : Z) (self : pstr (K:=GQ)) (isl : bool) (l : list (plike (K:=GQ))) : pstr :=\n'
         '  if isl then imul_contents G sign self l else\n'
         '  match l with [x] => if (sign =? 1) then mps_inplace_right G self x else mps_inplace_left G self x | _ => self end.\n'
         'Definition un (op : Z) (a : pstr (K:=GQ)) : pstr :=\n'
         '  match op with 0 => ps_neg G a | 1 => a | _ => mkP (gq_inv (coef a)) (pm a) end.\n'
         '(* compact rows of the exhaustive streams: [n; k_1..k_m; masks of m operands and of the result], coefficients i^k *)\n'
         'Fixpoint seqZ (s : Z) (n : nat) : list Z := match n with O => [] | S m => s :: seqZ (s + 1) m end.\n'
         'Definition decP (n : nat) (k : Z) (l : list Z) : pstr (K:=GQ) :=\n'
         '  mkP (ipow G k) (pm_of_dense (seqZ 0 n) (map pauli_of_code (firstn n l))).\n'
         'Definition decD (n : nat) (k : Z) (l : list Z) : dstr (K:=GQ) := mkD (ipow G k) (map pauli_of_code (firstn n l)).\n'
         'Definition mul2x (r : list Z) : bool := match r with nz :: ka :: kb :: kr :: l => let n := Z.to_nat nz in\n'
         '  ps_eqb (ps_mul G (decP n ka l) (decP n kb (skipn n l))) (decP n kr (skipn (2 * n) l)) | _ => false end.\n'
         'Definition mul3x (r : list Z) : bool := match r with nz :: ka :: kb :: kc :: kr :: l => let n := Z.to_nat nz in\n'
         '  ps_eqb (ps_mul G (ps_mul G (decP n ka l) (decP n kb (skipn n l))) (decP n kc (skipn (2 * n) l))) (decP n kr (skipn (3 * n) l))\n'
         '  | _ => false end.\n'
         'Definition dmul2x (r : list Z) : bool := match r with nz :: ka :: kb :: kr :: l => let n := Z.to_nat nz in\n'
         '  ds_eqb (ds_mul G (decD n ka l) (decD n kb (skipn n l))) (decD n kr (skipn (2 * n) l)) | _ => false end.\n'
         '(* histories: the states after every step against the trace of the model (Cliff/PauliHist.v) *)\n'
         'Definition dhist (c : dstr (K:=GQ) * list (dstep (K:=GQ)) * list (bool * dstr (K:=GQ))) : bool :=\n'
         '  match c with (a, l, t) => dtrace_eqb (ds_trace G a l) t end.\n'
         'Definition mhist (c : pstr (K:=GQ) * list (Z * bool * list (plike (K:=GQ))) * list (pstr (K:=GQ))) : bool :=\n'
         '  match c with (a, l, t) => ptrace_eqb (mps_trace G a l) t end.\n'
         'Definition sstep_of (c : Z * list (pstr (K:=GQ)) * GQ) : sstep (K:=GQ) :=\n'
         '  match c with (op, l, x) => match op with 0 => SAdd (psum_of_terms G l) | 1 => SSub (psum_of_terms G l)\n'
         '    | 2 => SMul (psum_of_terms G l) | _ => SScale x end end.\n'
         '(* the states after every step, and the qubits the sum reports after every step against the qubits of the model state *)\n'
         'Definition shist (c : list (pstr (K:=GQ)) * list (Z * list (pstr (K:=GQ)) * GQ) * list psumG * list (list Z)) : bool :=\n'
         '  match c with (la, l, t, qt) => let m := psum_trace G (psum_of_terms G la) (map sstep_of l) in\n'
         '    strace_eqb m t && zll_eqb (map psum_qubitsG m) qt end.\n')

_DEPS = {'built': False}


def mark_broken(ctx, name, detail=''):
    """At most three reports per stream (an exhaustive stream may disagree on thousands of rows)."""
    if sum(1 for n, _ in ctx.broken if n == name) < 3:
        ctx.mark_broken(name, detail)


def eval_text(name, text, timeout=900):
    """Like coq.coq_eval, but the model is built once per run (one `make` under the shared lock) instead of once per file."""
    import os, subprocess
    if not _DEPS['built']:
        ok, log = coq.make(['Base/Harness.vo', 'Cliff/Pauli.vo', 'Cliff/PauliHist.vo'])
        if not ok:
            raise RuntimeError('model does not build:\n' + log[-3000:])
        _DEPS['built'] = True
    d = os.path.join(env.BUILD, 'cases')
    os.makedirs(d, exist_ok=True)
    path = os.path.join(d, name + '.v')
    open(path, 'w').write(text)
    p = subprocess.run(['timeout', str(timeout), 'coqc', '-Q', coq.COQ, 'VF', '-w', '-all', path],
                       stdout=subprocess.PIPE, stderr=subprocess.STDOUT, text=True, cwd=d)
    for ext in ('.vo', '.vok', '.vos', '.glob'):
        try:
            os.remove(os.path.join(d, name + ext))
        except OSError:
            pass
    if p.returncode != 0:
        raise RuntimeError(f'coqc failed on {path}:\n{p.stdout[-3000:]}')
    return p.stdout


class Rows:
    """Rows of one correspondence kind: Gallina text + python-side description for reports."""

    def __init__(self, name, ty, pred):
        self.name, self.ty, self.pred = name, ty, pred
        self.rows, self.desc = [], []

    def add(self, text, desc):
        self.rows.append(text)
        self.desc.append(desc)


def flush_rows(ctx, tag, groups, budget=1200):
    """Evaluate every group's predicate on its rows with vm_compute, several groups per generated file."""
    pieces = []       # (group, start, rows)
    for g in groups:
        for s0 in range(0, len(g.rows), budget):
            pieces.append((g, s0, g.rows[s0:s0 + budget]))
    files, cur, cur_n = [], [], 0
    for pc in pieces:
        if cur and cur_n + len(pc[2]) > budget:
            files.append(cur)
            cur, cur_n = [], 0
        cur.append(pc)
        cur_n += len(pc[2])
    if cur:
        files.append(cur)
    for fi, pcs in enumerate(files):
        text = HEADER + EXTRA
        for k, (g, s0, rows) in enumerate(pcs):
            text += f'Definition rows_{k} : list ({g.ty}) := [\n' + ';\n'.join(rows) + '].\n'
            text += f'Eval vm_compute in failing ({g.pred}) rows_{k}.\n'
        vals = coq.parse_evals(eval_text(f'c14_{tag}_{ctx.seed}_{fi}', text))
        assert len(vals) == len(pcs), (len(vals), len(pcs))
        for (g, s0, rows), val in zip(pcs, vals):
            for idx in coq.parse_nat_list(val):
                mark_broken(ctx, f'correspondence:{g.name}', f'model and implementation differ on {g.desc[s0 + idx]}')


# ---------------------------------------------------------------- generators
def rand_items(rng, n, p_present=0.65, allow=None):
    qs = list(range(n)) if allow is None else list(allow)
    rng.shuffle(qs)
    return [(k, rng.randint(1, 3)) for k in qs if rng.random() < p_present]


def rand_ps(rng, n, **kw):
    return (rand_coef(rng), rand_items(rng, n, **kw))


def all_masks(n):
    return list(itertools.product(range(4), repeat=n))


def mask_items(mask):
    return [(k, p) for k, p in enumerate(mask) if p]


# ---------------------------------------------------------------- streams: PauliString products
def unit_exp(c):
    return UNITS.index(c) if c in UNITS else None


def mask_of(items, n):
    d = dict(items)
    return [d.get(k, 0) for k in range(n)]


def stream_mul_exhaustive(ctx, ad, ns, triples_n):
    """All ordered pairs of letter patterns on n qubits (unit coefficients cycling), all triples on triples_n qubits."""
    g2 = Rows('ps_mul_exhaustive', 'list Z', 'mul2x')
    g3 = Rows('ps_mul_triples', 'list Z', 'mul3x')
    for n in ns:
        qs = list(range(n))
        masks = all_masks(n)
        for ia, ma in enumerate(masks):
            for ib, mb in enumerate(masks):
                ka, kb = (ia + ib) % 4, (ia * 3 + ib // 4) % 4
                a, b = (UNITS[ka], mask_items(ma)), (UNITS[kb], mask_items(mb))
                r = ad.ps(a) * ad.ps(b)
                out = ad.out(r)
                nontrivial = any(x and y for x, y in zip(ma, mb))
                ctx.count('ps_mul_exhaustive', (n, ma, mb), nontrivial,
                          sample=dict(a=str(ad.ps(a)), b=str(ad.ps(b)), product=str(r)) if nontrivial and n == 3 else None)
                kr = unit_exp(out[0])
                if kr is None or any(k >= n for k, _ in out[1]):
                    mark_broken(ctx, 'correspondence:ps_mul_exhaustive', f'{a} * {b} gave {out}: not a unit coefficient on the operands\' qubits')
                    kr = 0
                g2.add(c_list([n, ka, kb, kr] + list(ma) + list(mb) + mask_of(out[1], n)), f'{a} * {b} -> {out}')
                check_product_matrix(ctx, ad, 'ps_mul', [a, b], r, qs)
    for n in triples_n:
        qs = list(range(n))
        masks = all_masks(n)
        for ma in masks:
            for mb in masks:
                for mc in masks:
                    a, b, c = (UNITS[1], mask_items(ma)), (UNITS[2], mask_items(mb)), (UNITS[3], mask_items(mc))
                    r = ad.ps(a) * ad.ps(b) * ad.ps(c)
                    out = ad.out(r)
                    ctx.count('ps_mul_triples', (n, ma, mb, mc), sum(1 for m in (ma, mb, mc) if any(m)) >= 2)
                    kr = unit_exp(out[0])
                    if kr is None or any(k >= n for k, _ in out[1]):
                        mark_broken(ctx, 'correspondence:ps_mul_triples', f'{a} * {b} * {c} gave {out}')
                        kr = 0
                    g3.add(c_list([n, 1, 2, 3, kr] + list(ma) + list(mb) + list(mc) + mask_of(out[1], n)), f'{a} * {b} * {c} -> {out}')
                    if n <= 2 or len(g3.rows) % 16 == 0:
                        check_product_matrix(ctx, ad, 'ps_mul3', [a, b, c], r, qs)
    flush_rows(ctx, 'mulx', [g2, g3], budget=6000)


def check_product_matrix(ctx, ad, stream, operands, result, qs):
    """Spec-level oracle on the real code: matrix(result) = product of the operands' reference matrices."""
    ref = np.eye(2 ** len(qs), dtype=complex)
    for s in operands:
        ref = ref @ ad.mat(s, qs)
    got = result.matrix([ad.q(k) for k in qs])
    if got.shape != ref.shape or not np.allclose(got, ref, atol=ATOL):
        ctx.violation(f'{stream}:matrix', f'{stream}: matrix of the product of {operands} on qubits {qs} differs from the product of the matrices',
                      dict(kind='product', operands=[ser_ps(s) for s in operands], qubits=qs))
        return False
    return True


def ser_ps(s):
    return dict(coef=[str(s[0][0]), str(s[0][1])], items=[[int(k), int(p)] for k, p in s[1]])


def deser_ps(d):
    return ((F(d['coef'][0]), F(d['coef'][1])), [(int(k), int(p)) for k, p in d['items']])


# ---------------------------------------------------------------- streams: random PauliString / MutablePauliString operators
T_PS = 'pstr (K:=GQ)'
T_DS = 'dstr (K:=GQ)'

def rand_like(rng, ad, n, depth=0):
    """One PAULI_STRING_LIKE atom: (cirq value, Gallina plike terms (flattened), description)."""
    cirq = ad.cirq
    r = rng.random()
    if r < 0.3:
        s = rand_ps(rng, n)
        return ad.ps(s), [f'LPS {c_ps(s)}'], ('ps', s)
    if r < 0.42:
        c = rand_coef(rng)
        v = cz(c)
        if c[1] == 0 and rng.random() < 0.5:
            v = float(c[0]) if rng.random() < 0.5 or c[0].denominator != 1 else int(c[0])
        return v, [f'LNum {gq(c)}'], ('num', c)
    if r < 0.6:
        items = [(k, rng.randint(0, 3)) for k in rng.sample(range(n), rng.randint(0, n))]
        form = rng.randrange(3)
        d = {ad.q(k): [ad.gates[p], 'IXYZ'[p], p][form] for k, p in items}
        return d, [f'LMap {c_pm(items)}'], ('map', items)
    if r < 0.7:
        k = rng.randrange(n)
        return cirq.I(ad.q(k)), ['LId'], ('id', k)
    if r < 0.85 or depth > 0:
        k, p = rng.randrange(n), rng.randint(1, 3)
        s = (UNITS[0], [(k, p)])
        return ad.gates[p](ad.q(k)), [f'LPS {c_ps(s)}'], ('op', s)
    parts = [rand_like(rng, ad, n, depth + 1) for _ in range(rng.randint(0, 3))]
    val = [x[0] for x in parts]
    if rng.random() < 0.5:
        val = tuple(val)
    return val, [t for x in parts for t in x[1]], ('list', [x[2] for x in parts])


def like_matrix(ad, d, qs):
    kind, v = d
    if kind in ('ps', 'op'):
        return ad.mat(v, qs)
    if kind == 'num':
        return cz(v) * np.eye(2 ** len(qs), dtype=complex)
    if kind == 'map':
        return ad.mat((UNITS[0], [(k, p) for k, p in v if p]), qs)
    if kind == 'id':
        return np.eye(2 ** len(qs), dtype=complex)
    m = np.eye(2 ** len(qs), dtype=complex)
    for x in v:
        m = m @ like_matrix(ad, x, qs)
    return m


def ser_like(d):
    kind, v = d
    if kind in ('ps', 'op'):
        return [kind, ser_ps(v)]
    if kind == 'num':
        return [kind, [str(v[0]), str(v[1])]]
    if kind == 'map':
        return [kind, [[int(k), int(p)] for k, p in v]]
    if kind == 'id':
        return [kind, int(v)]
    return [kind, [ser_like(x) for x in v]]


def close(a, b):
    return a.shape == b.shape and bool(np.allclose(a, b, atol=ATOL))


def stream_ps_random(ctx, ad, count):
    cirq, rng = ad.cirq, ctx.rng
    R = {
        'mul': Rows('ps_mul', f'{T_PS} * {T_PS} * {T_PS}', 'fun c => match c with (a, b, r) => ps_eqb (ps_mul G a b) r end'),
        'num': Rows('ps_num', f'{T_PS} * GQ * {T_PS} * {T_PS}',
                    'fun c => match c with (a, x, r1, r2) => ps_eqb (ps_mul_num G a x) r1 && ps_eqb (ps_scale G a x) r2 end'),
        'div': Rows('ps_div', f'{T_PS} * GQ * {T_PS}', 'fun c => match c with (a, x, r) => ps_eqb (ps_scale G a x) r end'),
        'un': Rows('ps_unary', f'{T_PS} * Z * {T_PS}', 'fun c => match c with (a, op, r) => ps_eqb (un op a) r end'),
        'mapq': Rows('ps_map_qubits', f'{T_PS} * list (Z * Z) * option ({T_PS})',
                     'fun c => match c with (a, f, r) => opt_eqb ps_eqb (ps_map_qubits f a) r end'),
        'withq': Rows('ps_with_qubits', f'{T_PS} * list Z * option ({T_PS})',
                      'fun c => match c with (a, l, r) => opt_eqb ps_eqb (ps_with_qubits l a) r end'),
        'dense': Rows('ps_dense', f'{T_PS} * list Z * option ({T_DS})',
                      'fun c => match c with (a, l, r) => opt_eqb ds_eqb (ps_dense l a) r end'),
        'on': Rows('ds_on', f'{T_DS} * list Z * option ({T_PS})',
                   'fun c => match c with (d, l, r) => opt_eqb ps_eqb (ds_on l d) r end'),
        'comm': Rows('ps_commutes', f'{T_PS} * {T_PS} * bool',
                     'fun c => match c with (a, b, r) => Bool.eqb (ps_commutes (pm a) (pm b)) r end'),
        'make': Rows('ps_make', f'GQ * pmap * list (plike (K:=GQ)) * {T_PS}',
                     'fun c => match c with (x, m, l, r) => ps_eqb (ps_make G x m l) r end'),
        'inpl': Rows('mps_inplace', f'Z * {T_PS} * bool * list (plike (K:=GQ)) * {T_PS}',
                     'fun c => match c with (sg, a, isl, l, r) => ps_eqb (inpl sg a isl l) r end'),
    }
    for it in range(count):
        n = rng.choice([1, 2, 3, 3, 4, 4, 5, 5])
        qs = list(range(n))
        a, b = rand_ps(rng, n), rand_ps(rng, n)
        if rng.random() < 0.15:      # same letters, different coefficient / order
            b = (rand_coef(rng), rng.sample(a[1], len(a[1])))
        pa, pb = ad.ps(a), ad.ps(b)
        shared = len(set(k for k, _ in a[1]) & set(k for k, _ in b[1]))
        # --- product, three spellings: PS*PS, Mutable*PS, PS*Mutable
        for form in range(3):
            if form == 0:
                r = pa * pb
            elif form == 1:
                r = ad.mps(a) * pb
            else:
                r = pa * ad.mps(b) if rng.random() < 0.5 else ad.mps(b).__rmul__(pa)
            out = ad.out(r)
            ctx.count('ps_mul', (a, b, form), shared > 0,
                      sample=dict(a=str(pa), b=str(pb), product=str(r), spelling=['PS*PS', 'Mutable*PS', 'PS*Mutable'][form]) if shared else None)
            R['mul'].add(f'({c_ps(a)}, {c_ps(b)}, {c_ps(out)})', f'{a} * {b} (form {form}) -> {out}')
            check_product_matrix(ctx, ad, 'ps_mul', [a, b], r, qs)
        # --- every way of reading the matrix off a string: matrix, sparse_matrix, unitary, simulation of the operation, decomposition
        qm = [ad.q(k) for k in qs]
        ctx.count('ps_matrix_views', (a, 'views'), len(a[1]) > 0)
        bad = []
        if not close(pa.matrix(qm), ma_ref := ad.mat(a, qs)):
            bad.append('matrix')
        if not close(pa.sparse_matrix(qm).toarray(), ma_ref):
            bad.append('sparse_matrix')
        if a[0] in UNITS:
            own = [q.x for q in pa.qubits]
            if not close(cirq.unitary(pa), ad.mat(a, own)):
                bad.append('unitary')
            if own:
                circ_u = cirq.Circuit(pa).unitary(qubit_order=qm)
                dec_u = cirq.Circuit(cirq.decompose_once(pa)).unitary(qubit_order=qm)
                if not close(circ_u, ma_ref) or not close(dec_u, ma_ref):
                    bad.append('apply_unitary/decompose')
            dg = ad.dps((a[0], mask_of(a[1], n)))
            if not close(cirq.unitary(dg), ma_ref) or (n and not close(cirq.Circuit(dg.on(*qm)).unitary(qubit_order=qm), ma_ref)):
                bad.append('dense unitary')
        if bad:
            ctx.violation('ps_matrix_views:' + ','.join(bad), f'{a}: {bad} disagree with the Kronecker product of the letters',
                          dict(kind='views', a=ser_ps(a), qubits=qs))
        # --- numbers
        x = rand_coef(rng)
        xv = cz(x) if x[1] != 0 or rng.random() < 0.5 else float(x[0])
        r1, r2 = ad.out(pa * xv), ad.out(xv * pa)
        ctx.count('ps_num', (a, x), x not in UNITS[:1])
        R['num'].add(f'({c_ps(a)}, {gq(x)}, {c_ps(r1)}, {c_ps(r2)})', f'{a} * {x}, {x} * {a} -> {r1}, {r2}')
        d = rand_invertible(rng)
        dv = cz(d) if d[1] != 0 or rng.random() < 0.5 else float(d[0])
        r3 = ad.out(pa / dv)
        ctx.count('ps_div', (a, d), True)
        R['div'].add(f'({c_ps(a)}, {gq(zinv(d))}, {c_ps(r3)})', f'{a} / {d} -> {r3}')
        # --- unary: neg, pos, **1, **-1
        op = rng.randrange(4)
        au = a if op < 3 else (rand_invertible(rng), a[1])
        pu = ad.ps(au)
        ru = [-pu, +pu if rng.random() < 0.5 else pu ** 1, pu ** -1 if op == 3 else -pu][min(op, 2)] if op != 3 else pu ** -1
        ctx.count('ps_unary', (au, op), True, sample=dict(a=str(pu), op=['neg', 'pos/pow1', 'neg', 'pow-1'][op], out=str(ru)))
        R['un'].add(f'({c_ps(au)}, {[0, 1, 0, 2][op]}, {c_ps(ad.out(ru))})', f'unary {op} on {au} -> {ad.out(ru)}')
        if op == 3:
            qm = [ad.q(k) for k in qs]
            if not close(ru.matrix(qm) @ pu.matrix(qm), np.eye(2 ** n)):
                ctx.violation('ps_pow:-1', f'({au}) ** -1 is not the inverse matrix', dict(kind='pow_inv', a=ser_ps(au), qubits=qs))
        # --- map_qubits / with_qubits
        tgt = rng.sample(range(10, 10 + n + 2), n)
        f = [(k, t) for k, t in zip(qs, tgt)]
        if rng.random() < 0.2 and a[1]:
            f = [e for e in f if e[0] != a[1][0][0]]       # a needed key missing -> ValueError
        rng.shuffle(f)
        try:
            rm = ad.out(pa.map_qubits({ad.q(k): ad.q(t) for k, t in f}))
        except ValueError:
            rm = None
        ctx.count('ps_map_qubits', (a, f), len(a[1]) > 0)
        R['mapq'].add(f'({c_ps(a)}, {c_list(f, lambda e: f"({e[0]}, {e[1]})")}, {c_opt(rm, c_ps)})', f'{a}.map_qubits({f}) -> {rm}')
        if rm is not None:
            fm = dict(f)
            if all(k in fm for k in qs) and not close(ad.ps(rm).matrix([ad.q(fm[k]) for k in qs]), ad.mat(a, qs)):
                ctx.violation('ps_map_qubits:matrix', f'{a}.map_qubits({f}) changes the matrix', dict(kind='map_qubits', a=ser_ps(a), f=f, qubits=qs))
        newq = rng.sample(range(20, 30), len(a[1]) if rng.random() < 0.85 else len(a[1]) + 1)
        try:
            rw = ad.out(pa.with_qubits(*[ad.q(t) for t in newq]))
        except ValueError:
            rw = None
        ctx.count('ps_with_qubits', (a, newq), len(a[1]) > 0)
        R['withq'].add(f'({c_ps(a)}, {coq.zlist(newq)}, {c_opt(rw, c_ps)})', f'{a}.with_qubits({newq}) -> {rw}')
        # --- dense(qubits), gate, DensePauliString.on
        dq = rng.sample(qs, n) if rng.random() < 0.8 else rng.sample(qs, max(n - 1, 0))
        try:
            rd = ad.dout(pa.dense([ad.q(k) for k in dq]))
        except ValueError:
            rd = None
        ctx.count('ps_dense', (a, dq), len(a[1]) > 0)
        R['dense'].add(f'({c_ps(a)}, {coq.zlist(dq)}, {c_opt(rd, c_ds)})', f'{a}.dense({dq}) -> {rd}')
        g = pa.gate
        if g.on(*pa.qubits) != pa or ad.dout(g)[0] != a[0]:
            ctx.violation('ps_gate', f'{a}.gate.on(*qubits) is not the string', dict(kind='gate', a=ser_ps(a)))
        dd = (rand_coef(rng), [rng.randint(0, 3) for _ in range(n)])
        oq = rng.sample(range(n + 1), n) if rng.random() < 0.85 else rng.sample(range(n + 1), n - 1)
        try:
            ro = ad.out(ad.dps(dd).on(*[ad.q(k) for k in oq]))
        except ValueError:
            ro = None
        ctx.count('ds_on', (dd, oq), any(dd[1]))
        R['on'].add(f'({c_ds(dd)}, {coq.zlist(oq)}, {c_opt(ro, c_ps)})', f'{dd}.on({oq}) -> {ro}')
        # --- commutes
        rc = bool(cirq.commutes(pa, pb))
        ctx.count('ps_commutes', (a[1], b[1]), shared > 0, sample=dict(a=str(pa), b=str(pb), commutes=rc))
        R['comm'].add(f'({c_ps(a)}, {c_ps(b)}, {"true" if rc else "false"})', f'commutes({a}, {b}) -> {rc}')
        ma, mb = ad.mat(a, qs), ad.mat(b, qs)
        if not close(ma @ mb, (1 if rc else -1) * (mb @ ma)):
            ctx.violation('ps_commutes:matrix', f'cirq.commutes({a}, {b}) = {rc} but the matrices {"do not commute" if rc else "do not anticommute"}',
                          dict(kind='commutes', a=ser_ps(a), b=ser_ps(b), qubits=qs))
        # --- constructor with contents
        parts = [rand_like(rng, ad, n) for _ in range(rng.randint(0, 3))]
        c0, m0 = rand_coef(rng), rand_items(rng, n, 0.5)
        kw = dict(qubit_pauli_map={ad.q(k): ad.gates[p] for k, p in m0}, coefficient=cz(c0))
        mutable = rng.random() < 0.4
        if mutable:
            obj = cirq.MutablePauliString(*[x[0] for x in parts], coefficient=cz(c0),
                                          pauli_int_dict={ad.q(k): p for k, p in m0}).frozen()
        else:
            obj = cirq.PauliString(*[x[0] for x in parts], **kw)
        rmk = ad.out(obj)
        terms = [t for x in parts for t in x[1]]
        ctx.count('ps_make', (c0, m0, [x[2] for x in parts]), len(parts) > 0, sample=dict(contents=str([x[2] for x in parts]), out=str(obj)))
        R['make'].add(f'({gq(c0)}, {c_pm(m0)}, {c_list(terms)}, {c_ps(rmk)})',
                      f'{"Mutable" if mutable else ""}PauliString({[x[2] for x in parts]}, map={m0}, coefficient={c0}) -> {rmk}')
        ref = ad.mat((c0, m0), qs)
        for x in parts:
            ref = ref @ like_matrix(ad, x[2], qs)
        if not close(obj.matrix([ad.q(k) for k in qs]), ref):
            ctx.violation('ps_make:matrix', f'PauliString(contents, qubit_pauli_map, coefficient) is not map . contents in order',
                          dict(kind='make', coef=[str(c0[0]), str(c0[1])], items=[[k, p] for k, p in m0],
                               contents=[ser_like(x[2]) for x in parts], qubits=qs, mutable=mutable))
        # --- in-place products of mutable strings (specified through the immutable product they implement)
        x = rand_like(rng, ad, n)
        which = rng.randrange(3)
        m = ad.mps(a)
        ret = [m.inplace_left_multiply_by, m.inplace_right_multiply_by, m.__imul__][which](x[0])
        if ret is not m:
            ctx.violation('mps_inplace:return', f'in-place multiplication {which} did not return self', dict(kind='inplace_ret', which=which))
        ri = ad.out(m.frozen())
        sg = -1 if which == 0 else 1
        isl = x[2][0] == 'list'
        ctx.count('mps_inplace', (a, which, x[2]), True,
                  sample=dict(self=str(pa), op=['inplace_left_multiply_by', 'inplace_right_multiply_by', '__imul__'][which],
                              other=str(x[2]), out=str(m)))
        R['inpl'].add(f'({Z(sg)}, {c_ps(a)}, {"true" if isl else "false"}, {c_list(x[1])}, {c_ps(ri)})',
                      f'mutable {a} op{which} {x[2]} -> {ri}')
        mx = like_matrix(ad, x[2], qs)
        ref = ma @ mx if which == 0 else mx @ ma
        if not close(m.frozen().matrix([ad.q(k) for k in qs]), ref):
            ctx.violation('mps_inplace:matrix', f'mutable string in-place product {which} does not implement the immutable product',
                          dict(kind='inplace', a=ser_ps(a), which=which, other=ser_like(x[2]), qubits=qs))
        # other small operators, checked directly on the implementation
        mm = ad.mps(a)
        if ad.out((-mm).frozen()) != ((-a[0][0], -a[0][1]), a[1]) or ad.out(mm.frozen()) != a or ad.out(mm.mutable_copy().frozen()) != a:
            ctx.violation('mps_neg', f'-MutablePauliString({a}) wrong or mutated its operand', dict(kind='mps_neg', a=ser_ps(a)))
        tq = ad.out(mm.transform_qubits(lambda q: ad.q(q.x + 7)).frozen())
        if tq != (a[0], [(k + 7, p) for k, p in a[1]]):
            ctx.violation('mps_transform_qubits', f'transform_qubits on {a} gave {tq}', dict(kind='mps_tq', a=ser_ps(a)))
        if (pa == pb) != (a[0] == b[0] and sorted(a[1]) == sorted(b[1])) or \
                pa.equal_up_to_coefficient(pb) != (sorted(a[1]) == sorted(b[1])):
            ctx.violation('ps_eq', f'equality of {a} and {b} is not equality of coefficient and letters', dict(kind='ps_eq', a=ser_ps(a), b=ser_ps(b)))
    flush_rows(ctx, 'psr', list(R.values()))


# ---------------------------------------------------------------- streams: dense strings
def stream_dense(ctx, ad, count, exhaustive_n):
    cirq, rng = ad.cirq, ctx.rng
    R = {
        'mul': Rows('ds_mul', f'{T_DS} * {T_DS} * {T_DS}', 'fun c => match c with (a, b, r) => ds_eqb (ds_mul G a b) r end'),
        'imul': Rows('ds_imul', f'{T_DS} * {T_DS} * option ({T_DS})',
                     'fun c => match c with (a, b, r) => opt_eqb ds_eqb (ds_imul G a b) r end'),
        'scal': Rows('ds_scale', f'{T_DS} * GQ * {T_DS}', 'fun c => match c with (a, x, r) => ds_eqb (ds_scale G a x) r end'),
        'pow': Rows('ds_pow', f'{T_DS} * Z * {T_DS}',
                    'fun c => match c with (a, k, r) => ds_eqb (ds_pow G a k (gq_powZ (dcoef a) k)) r end'),
        'neg': Rows('ds_neg', f'{T_DS} * {T_DS}', 'fun c => match c with (a, r) => ds_eqb (ds_neg G a) r end'),
        'tens': Rows('ds_tensor', f'{T_DS} * {T_DS} * {T_DS}', 'fun c => match c with (a, b, r) => ds_eqb (ds_tensor G a b) r end'),
        'comm': Rows('ds_commutes', 'list pauli * list pauli * bool',
                     'fun c => match c with (a, b, r) => Bool.eqb (ds_commutes a b) r end'),
    }

    GX = Rows('ds_mul_exhaustive', 'list Z', 'dmul2x')

    def one_pair(a, b, exhaustive):
        da, db = ad.dps(a), ad.dps(b)
        r = da * db
        out = ad.dout(r)
        st = 'ds_mul_exhaustive' if exhaustive else 'ds_mul'
        ctx.count(st, (a, b), any(x and y for x, y in zip(a[1], b[1])), sample=dict(a=str(da), b=str(db), product=str(r)))
        if exhaustive:
            kr = unit_exp(out[0])
            if kr is None or len(out[1]) != len(a[1]):
                mark_broken(ctx, 'correspondence:ds_mul_exhaustive', f'{a} * {b} gave {out}')
                kr = 0
            GX.add(c_list([len(a[1]), unit_exp(a[0]), unit_exp(b[0]), kr] + list(a[1]) + list(b[1]) + list(out[1])[:len(a[1])]),
                   f'{a} * {b} -> {out}')
        else:
            R['mul'].add(f'({c_ds(a)}, {c_ds(b)}, {c_ds(out)})', f'{a} * {b} -> {out}')
        n = max(len(a[1]), len(b[1]))
        pad = lambda m: list(m) + [0] * (n - len(m))
        ref = cz(a[0]) * kron_all([PM[p] for p in pad(a[1])]) @ (cz(b[0]) * kron_all([PM[p] for p in pad(b[1])]))
        got = cz(out[0]) * kron_all([PM[p] for p in out[1]])
        if not close(got, ref):
            ctx.violation('ds_mul:matrix', f'DensePauliString product {a} * {b} = {out} is not the product of the matrices',
                          dict(kind='dense_product', a=ser_ds(a), b=ser_ds(b)))
        rc = bool(cirq.commutes(da, db))
        ctx.count('ds_commutes', (a[1], b[1]), True)
        R['comm'].add(f'({c_mask(a[1])}, {c_mask(b[1])}, {"true" if rc else "false"})', f'commutes({a[1]}, {b[1]}) -> {rc}')
        A_, B_ = kron_all([PM[p] for p in pad(a[1])]), kron_all([PM[p] for p in pad(b[1])])
        if not close(A_ @ B_, (1 if rc else -1) * (B_ @ A_)):
            ctx.violation('ds_commutes:matrix', f'commutes({a[1]}, {b[1]}) = {rc} contradicts the matrices',
                          dict(kind='dense_commutes', a=ser_ds(a), b=ser_ds(b)))

    for n in exhaustive_n:
        for ia, ma in enumerate(all_masks(n)):
            for ib, mb in enumerate(all_masks(n)):
                one_pair((UNITS[(ia + 2 * ib) % 4], list(ma)), (UNITS[(ia // 4 + ib) % 4], list(mb)), True)
    for it in range(count):
        la, lb = rng.randint(0, 5), rng.randint(0, 5)
        if rng.random() < 0.5:
            lb = la
        a = (rand_coef(rng), [rng.randint(0, 3) for _ in range(la)])
        b = (rand_coef(rng), [rng.randint(0, 3) for _ in range(lb)])
        one_pair(a, b, False)
        # mutable *=
        ma_ = ad.dps(a, mutable=True)
        other = ad.dps(b, mutable=rng.random() < 0.3)
        try:
            ret = ma_.__imul__(other)
            ri = ad.dout(ma_)
            if ret is not ma_:
                ctx.violation('ds_imul:return', 'MutableDensePauliString.__imul__ did not return self', dict(kind='ds_imul_ret'))
        except ValueError:
            ri = None
        ctx.count('ds_imul', (a, b), lb <= la and lb > 0)
        R['imul'].add(f'({c_ds(a)}, {c_ds(b)}, {c_opt(ri, c_ds)})', f'mutable {a} *= {b} -> {ri}')
        # scalars
        x = rand_coef(rng)
        xv = cz(x) if x[1] != 0 or rng.random() < 0.5 else float(x[0])
        da = ad.dps(a, mutable=rng.random() < 0.3)
        for r in (da * xv, xv * da):
            ctx.count('ds_scale', (a, x, id(r) % 2), True)
            R['scal'].add(f'({c_ds(a)}, {gq(x)}, {c_ds(ad.dout(r))})', f'{a} * {x} -> {ad.dout(r)}')
        d = rand_invertible(rng)
        r = da / (cz(d) if d[1] != 0 else float(d[0]))
        ctx.count('ds_scale', (a, 'div', d), True)
        R['scal'].add(f'({c_ds(a)}, {gq(zinv(d))}, {c_ds(ad.dout(r))})', f'{a} / {d} -> {ad.dout(r)}')
        mi = ad.dps(a, mutable=True)
        mi *= xv
        R['scal'].add(f'({c_ds(a)}, {gq(x)}, {c_ds(ad.dout(mi))})', f'mutable {a} *= {x} -> {ad.dout(mi)}')
        ctx.count('ds_scale', (a, 'imul', x), True)
        # powers
        k = rng.randint(-3, 4)
        ap = a if k >= 0 and rng.random() < 0.6 else ((rand_invertible(rng) if rng.random() < 0.5 else rng.choice(UNITS)), a[1])
        rp = ad.dps(ap) ** k
        ctx.count('ds_pow', (ap, k), k not in (0, 1), sample=dict(a=str(ad.dps(ap)), power=k, out=str(rp)))
        R['pow'].add(f'({c_ds(ap)}, {Z(k)}, {c_ds(ad.dout(rp))})', f'{ap} ** {k} -> {ad.dout(rp)}')
        base = cz(ap[0]) * kron_all([PM[p] for p in ap[1]])
        if not close(cz(ad.dout(rp)[0]) * kron_all([PM[p] for p in ad.dout(rp)[1]]), np.linalg.matrix_power(base, k)):
            ctx.violation('ds_pow:matrix', f'DensePauliString {ap} ** {k} is not the matrix power', dict(kind='dense_pow', a=ser_ds(ap), k=k))
        # neg, tensor product
        rn = -da
        ctx.count('ds_neg', a, True)
        R['neg'].add(f'({c_ds(a)}, {c_ds(ad.dout(rn))})', f'-{a} -> {ad.dout(rn)}')
        rt = ad.dps(a).tensor_product(ad.dps(b))
        ctx.count('ds_tensor', (a, b), la > 0 and lb > 0)
        R['tens'].add(f'({c_ds(a)}, {c_ds(b)}, {c_ds(ad.dout(rt))})', f'{a} (x) {b} -> {ad.dout(rt)}')
        # constructors / views, checked directly
        if la:
            i = rng.randrange(la)
            p = rng.randint(0, 3)
            oh = type(da).one_hot(index=i, length=la, pauli=[ad.gates[p], 'IXYZ'[p], p][rng.randrange(3)])
            if ad.dout(oh) != (UNITS[0], [p if j == i else 0 for j in range(la)]) or ad.dout(type(da).eye(la)) != (UNITS[0], [0] * la):
                ctx.violation('ds_one_hot', f'one_hot/eye wrong for index {i} length {la} pauli {p}', dict(kind='one_hot'))
            lo, hi = sorted((rng.randint(0, la), rng.randint(0, la)))
            if ad.dout(da[lo:hi]) != (UNITS[0], a[1][lo:hi]) or da[i] is not ad.gates[a[1][i]]:
                ctx.violation('ds_getitem', f'slice/index of {a} wrong', dict(kind='ds_getitem'))
            mm = ad.dps(a, mutable=True)
            mm[i] = ad.gates[p]
            if ad.dout(mm) != (a[0], [p if j == i else x for j, x in enumerate(a[1])]) or ad.dout(da.frozen()) != a \
                    or ad.dout(da.mutable_copy()) != a or ad.dout(da.copy()) != a:
                ctx.violation('ds_setitem', f'__setitem__/copies of {a} wrong', dict(kind='ds_setitem'))
        ctx.count('ds_views', (a, 'views'), la > 0)
        # dense string times a Pauli operation / PauliString on LineQubits (interpreted through the qubit index)
        n = max(la, 1)
        s = rand_ps(rng, n) if rng.random() < 0.7 else (UNITS[0], [(rng.randrange(n), rng.randint(1, 3))])
        for left in (True, False):
            dense_times_string(ctx, ad, a, s, left)
    flush_rows(ctx, 'dense', list(R.values()) + [GX], budget=3000)


def ser_ds(d):
    return dict(coef=[str(d[0][0]), str(d[0][1])], mask=[int(p) for p in d[1]])


def deser_ds(d):
    return ((F(d['coef'][0]), F(d['coef'][1])), [int(p) for p in d['mask']])


def dense_times_string(ctx, ad, a, s, left, count=True):
    """DensePauliString * PauliString (on LineQubits) and the reverse: matrices must multiply, coefficient included."""
    da, ps = ad.dps(a), ad.ps(s)
    if count:
        ctx.count('ds_times_string', (a, s, left), len(s[1]) > 0, sample=dict(dense=str(da), string=str(ps), left=left))
    rp = dict(kind='dense_times_string', a=ser_ds(a), s=ser_ps(s), left=left)
    try:
        r = da * ps if left else ps * da
    except TypeError as e:
        ctx.violation('dense:mul-pauli-string:raises' + ('' if s[1] else ':identity-string'),
                      f'{"DensePauliString * PauliString" if left else "PauliString * DensePauliString"} raises TypeError for '
                      f'{da!r} and {ps!r}: {e}', rp)
        return False
    n = max([len(a[1])] + [k + 1 for k, _ in s[1]])
    qs = list(range(n))
    A_ = cz(a[0]) * kron_all([PM[p] for p in list(a[1]) + [0] * (n - len(a[1]))])
    S_ = ad.mat(s, qs)
    ref = A_ @ S_ if left else S_ @ A_
    out = ad.dout(r)
    got = cz(out[0]) * kron_all([PM[p] for p in out[1]])
    if not close(got, ref):
        unit = s[0] == UNITS[0]
        sig = 'dense:mul-pauli-string:' + ('letters' if unit else 'coefficient-dropped')
        ctx.violation(sig, f'{"DensePauliString * PauliString" if left else "PauliString * DensePauliString"}: {da!r} and {ps!r} give '
                           f'{r!r}, whose matrix is not the product of the operands\' matrices'
                           + ('' if unit else ' (the coefficient of the PauliString operand is dropped)'), rp)
        return False
    return True


# ---------------------------------------------------------------- streams: Pauli sums
def c_sum(terms):
    return '[' + '; '.join(f'({c_pm(k)}, {gq(c)})' for c, k in terms) + ']'


def sum_terms_of(ad, ps):
    return [(c, sorted(k)) for c, k in ad.sum_out(ps)]


def canon_terms(terms):
    """case-language terms -> the model's input sum (keys sorted, merged by the model itself)."""
    return [(c, sorted(items)) for c, items in terms]


def sum_matrix(ad, terms, qs):
    m = np.zeros((2 ** len(qs),) * 2, dtype=complex)
    for t in terms:
        m = m + ad.mat(t, qs)
    return m


def stream_sums(ctx, ad, count):
    cirq, rng = ad.cirq, ctx.rng
    TS = 'psumG'
    R = {
        'from': Rows('psum_from_strings', f'list ({T_PS}) * {TS}',
                     'fun c => match c with (l, r) => psum_eqb (psum_of_terms G l) r end'),
        'bin': Rows('psum_binary', f'Z * list ({T_PS}) * list ({T_PS}) * {TS}',
                    'fun c => match c with (op, la, lb, r) => let a := psum_of_terms G la in let b := psum_of_terms G lb in '
                    'psum_eqb (match op with 0 => psum_add G a b | 1 => psum_sub G a b | _ => psum_mul G a b end) r end'),
        'un': Rows('psum_unary', f'Z * list ({T_PS}) * GQ * {TS}',
                   'fun c => match c with (op, la, x, r) => let a := psum_of_terms G la in '
                   'psum_eqb (match op with 0 => psum_neg G a | 1 => psum_scale G a x | _ => psum_pow G a (Z.to_nat (op - 2)) end) r end'),
    }
    for it in range(count):
        n = rng.choice([1, 2, 2, 3, 3, 4, 5])
        qs = list(range(n))
        qm = [ad.q(k) for k in qs]
        mk = lambda: [rand_ps(rng, n, p_present=0.5) for _ in range(rng.randint(0, 3))]
        ta, tb = mk(), mk()
        if ta and rng.random() < 0.3:      # repeated / cancelling keys
            c, items = rng.choice(ta)
            ta.append(((-c[0], -c[1]) if rng.random() < 0.5 else rand_coef(rng), rng.sample(items, len(items))))
        A_, B_ = ad.psum(ta), ad.psum(tb)
        ctx.count('psum_from_strings', ta, len(ta) > 1, sample=dict(terms=[str(ad.ps(t)) for t in ta], sum=str(A_)))
        R['from'].add(f'({c_list(ta, c_ps)}, {c_sum(sum_terms_of(ad, A_))})', f'from_pauli_strings({ta}) -> {ad.sum_out(A_)}')
        MA, MB = sum_matrix(ad, ta, qs), sum_matrix(ad, tb, qs)
        if not close(A_.matrix(qm), MA) or not close(A_.sparse_matrix(qm).toarray(), MA):
            ctx.violation('psum_matrix', f'PauliSum.from_pauli_strings({ta}).matrix differs from the sum of the matrices',
                          dict(kind='psum', op='from', a=[ser_ps(t) for t in ta], b=[], qubits=qs))
        # binary operators in all their spellings
        op = rng.randrange(3)
        spelled = rng.randrange(4)
        if op == 0:
            if spelled == 0 or not tb:
                res = A_ + B_
            elif spelled == 1:
                res = A_.copy()
                res += B_
            elif spelled == 2 and len(tb) == 1:
                res = A_ + ad.ps(tb[0])
            elif len(ta) == 1 and len(tb) == 1:
                res = ad.ps(ta[0]) + ad.ps(tb[0])
            else:
                res = B_.__radd__(A_)
            ref = MA + MB
        elif op == 1:
            if spelled == 0 or not tb:
                res = A_ - B_
            elif spelled == 1:
                res = A_.copy()
                res -= B_
            elif spelled == 2 and len(tb) == 1:
                res = A_ - ad.ps(tb[0])
            elif len(ta) == 1 and len(tb) == 1:
                res = ad.ps(ta[0]) - ad.ps(tb[0])
            else:
                res = B_.__rsub__(A_)
            ref = MA - MB
        else:
            if spelled == 0 or not tb or not ta:
                res = A_ * B_
            elif spelled == 1:
                res = A_.copy()
                res *= B_
            elif spelled == 2 and len(tb) == 1:
                res = A_ * ad.ps(tb[0])
            elif len(ta) == 1:
                res = ad.ps(ta[0]) * B_
            else:
                res = A_ * B_
            ref = MA @ MB
        ctx.count('psum_binary', (op, ta, tb), bool(ta) and bool(tb),
                  sample=dict(op='+-*'[op], a=str(A_), b=str(B_), out=str(res)))
        R['bin'].add(f'({op}, {c_list(ta, c_ps)}, {c_list(tb, c_ps)}, {c_sum(sum_terms_of(ad, res))})',
                     f'PauliSum {ta} {"+-*"[op]} {tb} (spelling {spelled}) -> {ad.sum_out(res)}')
        if not close(res.matrix(qm), ref):
            ctx.violation(f'psum_{["add", "sub", "mul"][op]}:matrix', f'PauliSum {ta} {"+-*"[op]} {tb}: matrix is not the {"+-*"[op]} of the matrices',
                          dict(kind='psum', op='+-*'[op], a=[ser_ps(t) for t in ta], b=[ser_ps(t) for t in tb], qubits=qs))
        # unary: neg, scalar (both sides, division), powers, number +/- sum
        uo = rng.randrange(4)
        x = rand_coef(rng)
        if uo == 0:
            res, ref, code, xs = -A_, -MA, 0, UNITS[0]
        elif uo == 1:
            xv = cz(x) if x[1] != 0 or rng.random() < 0.5 else float(x[0])
            res = A_ * xv if rng.random() < 0.5 else xv * A_
            ref, code, xs = MA * cz(x), 1, x
        elif uo == 2:
            d = rand_invertible(rng)
            res, ref, code, xs = A_ / (cz(d) if d[1] != 0 else float(d[0])), MA / cz(d), 1, zinv(d)
        else:
            k = rng.randint(0, 3)
            res, ref, code, xs = A_ ** k, np.linalg.matrix_power(MA, k), 2 + k, UNITS[0]
        ctx.count('psum_unary', (uo, ta, xs, code), bool(ta), sample=dict(op=['neg', 'scale', 'div', 'pow'][uo], a=str(A_), out=str(res)))
        R['un'].add(f'({code}, {c_list(ta, c_ps)}, {gq(xs)}, {c_sum(sum_terms_of(ad, res))})',
                    f'PauliSum unary {uo}/{code} on {ta} with {xs} -> {ad.sum_out(res)}')
        if not close(res.matrix(qm), ref):
            ctx.violation(f'psum_unary{uo}:matrix', f'PauliSum operator {["neg", "scale", "div", "pow"][uo]} on {ta}: wrong matrix',
                          dict(kind='psum_unary', op=uo, code=code, a=[ser_ps(t) for t in ta], x=[str(xs[0]), str(xs[1])], qubits=qs))
        # number + string, number - string, wrap, with_qubits: matrix oracles on the implementation
        if ta:
            t0 = ta[0]
            for res, ref, what in ((cz(x) + ad.ps(t0), cz(x) * np.eye(2 ** n) + ad.mat(t0, qs), 'number + PauliString'),
                                   (cz(x) - ad.ps(t0), cz(x) * np.eye(2 ** n) - ad.mat(t0, qs), 'number - PauliString'),
                                   (A_ + cz(x), MA + cz(x) * np.eye(2 ** n), 'PauliSum + number'),
                                   (cz(x) - A_, cz(x) * np.eye(2 ** n) - MA, 'number - PauliSum')):
                ctx.count('psum_numbers', (what, t0, x), True)
                if not close(res.matrix(qm), ref):
                    ctx.violation('psum_numbers:' + what, f'{what} with {x}, {t0}: wrong matrix',
                                  dict(kind='psum_numbers', what=what, a=[ser_ps(t) for t in ta], x=[str(x[0]), str(x[1])], qubits=qs))
            used = A_.qubits
            newq = [ad.q(40 + j) for j in rng.sample(range(len(used) + 2), len(used))]
            W = A_.with_qubits(*newq)
            ctx.count('psum_with_qubits', (ta, [q.x for q in newq]), len(used) > 0)
            if not close(W.matrix(newq), A_.matrix(list(used))):
                ctx.violation('psum_with_qubits', f'PauliSum.with_qubits changes the matrix for {ta}',
                              dict(kind='psum_with_qubits', a=[ser_ps(t) for t in ta], new=[q.x for q in newq]))
    flush_rows(ctx, 'sums', list(R.values()))


# ---------------------------------------------------------------- oracles on the implementation: conjugation by Cliffords
def clifford_ops(cirq, rng, n, ad):
    """A random Clifford operation on qubits < n."""
    one = [cirq.H, cirq.S, cirq.S ** -1, cirq.X, cirq.Y, cirq.Z, cirq.X ** 0.5, cirq.X ** -0.5, cirq.Y ** 0.5, cirq.Y ** -0.5]
    two = [cirq.CZ, cirq.CNOT, cirq.SWAP, cirq.ISWAP, cirq.ISWAP ** -1, cirq.CX, cirq.CY if hasattr(cirq, 'CY') else cirq.CZ]
    if n >= 2 and rng.random() < 0.5:
        a, b = rng.sample(range(n), 2)
        return rng.choice(two)(ad.q(a), ad.q(b))
    return rng.choice(one)(ad.q(rng.randrange(n)))


def conj_case(ctx, ad, s, ops, qs, which, stream):
    """which: 'conjugated_by'/'before' -> C^dag P C, 'after' -> C P C^dag, with C the circuit ops in order."""
    cirq = ad.cirq
    qm = [ad.q(k) for k in qs]
    p = ad.ps(s)
    if which == 'conjugated_by':
        r = p.conjugated_by(ops)
    elif which == 'before':
        r = p.before(ops)
    elif which == 'after':
        r = p.after(ops)
    elif which == 'inplace_before':
        r = ad.mps(s).inplace_before(ops).frozen()
    else:
        r = ad.mps(s).inplace_after(ops).frozen()
    C = cirq.Circuit(ops).unitary(qubit_order=qm) if ops else np.eye(2 ** len(qs))
    P = ad.mat(s, qs)
    ref = C @ P @ C.conj().T if which in ('after', 'inplace_after') else C.conj().T @ P @ C
    if not close(r.matrix(qm), ref):
        ctx.violation(f'conj:{which}', f'{which}: {p} by {ops} gives {r}, not the conjugated matrix',
                      dict(kind='conj', which=which, s=ser_ps(s), ops=[ser_op(ad, o) for o in ops], qubits=qs))
        return False
    return True


def ser_op(ad, op):
    cirq = ad.cirq
    return cirq.to_json(op)


def stream_conjugation(ctx, ad, count, two_qubit_exhaustive):
    cirq, rng = ad.cirq, ctx.rng
    # all 24 single-qubit Cliffords x {X,Y,Z} x sign
    q0 = ad.q(0)
    for g in cirq.SingleQubitCliffordGate.all_single_qubit_cliffords:
        for p in (1, 2, 3):
            for c in (UNITS[0], UNITS[2], UNITS[1]):
                for which in ('conjugated_by', 'after'):
                    ctx.count('conj_24', (str(g), p, c, which), True,
                              sample=dict(gate=str(g), pauli='IXYZ'[p], which=which))
                    conj_case(ctx, ad, (c, [(0, p)]), [g(q0)], [0], which, 'conj_24')
    # two-qubit named Cliffords x all 15 two-qubit strings
    two = [cirq.CZ, cirq.CNOT, cirq.SWAP, cirq.ISWAP, cirq.ISWAP ** -1, cirq.CZ ** -1]
    for g in two:
        for ma in all_masks(2):
            if any(ma):
                for order in ((0, 1), (1, 0)):
                    for which in ('conjugated_by', 'after'):
                        ctx.count('conj_2q', (str(g), ma, order, which), True)
                        conj_case(ctx, ad, (UNITS[0], mask_items(ma)), [g(ad.q(order[0]), ad.q(order[1]))], [0, 1], which, 'conj_2q')
    if two_qubit_exhaustive:
        # all 11 520 two-qubit Cliffords: (C1 x C2) . E . (R^a x R^b), E in {1, CZ, ISWAP, SWAP}, R the X->Y->Z cycle
        # (a, b range over 0..2 for CZ and ISWAP only); distinctness is measured: ctx.count is keyed by the tableau
        loc = cirq.SingleQubitCliffordGate.all_single_qubit_cliffords
        R_ = cirq.SingleQubitCliffordGate.from_xz_map((cirq.Y, False), (cirq.X, False))
        a0, a1 = ad.q(0), ad.q(1)
        strings = [mask_items(m) for m in all_masks(2) if any(m)]
        for ent, reps in ((None, [(0, 0)]), (cirq.CZ, [(a, b) for a in range(3) for b in range(3)]),
                          (cirq.ISWAP, [(a, b) for a in range(3) for b in range(3)]), (cirq.SWAP, [(0, 0)])):
            for (ra, rb) in reps:
                pre = [R_(a0)] * ra + [R_(a1)] * rb + ([ent(a0, a1)] if ent is not None else [])
                for l0 in loc:
                    for l1 in loc:
                        ops = pre + [l0(a0), l1(a1)]
                        tab = cirq.CliffordGate.from_op_list(ops, [a0, a1]).clifford_tableau
                        key = (tab.xs.tobytes(), tab.zs.tobytes(), tab.rs.tobytes())
                        for items in rng.sample(strings, 2):
                            ctx.count('conj_2q_all', key, True)
                            conj_case(ctx, ad, (UNITS[0], items), ops, [0, 1], rng.choice(['conjugated_by', 'after']), 'conj_2q_all')
    for it in range(count):
        n = rng.choice([1, 2, 3, 3, 4, 5])
        qs = list(range(n))
        s = rand_ps(rng, n)
        if rng.random() < 0.6:
            s = (rng.choice(UNITS), s[1])
        ops = [clifford_ops(cirq, rng, n, ad) for _ in range(rng.choice([1, 1, 2, 3, 5, 8]))]
        which = rng.choice(['conjugated_by', 'before', 'after', 'inplace_before', 'inplace_after'])
        ctx.count('conj_random', (s, [str(o) for o in ops], which), len(s[1]) > 0 and any(set(q.x for q in o.qubits) & set(k for k, _ in s[1]) for o in ops),
                  sample=dict(string=str(ad.ps(s)), ops=[str(o) for o in ops], which=which))
        conj_case(ctx, ad, s, ops, qs, which, 'conj_random')
        # a CliffordGate object and a nested op tree
        if n >= 2 and rng.random() < 0.3:
            cg = cirq.CliffordGate.from_op_list(ops, [ad.q(k) for k in qs])
            conj_case(ctx, ad, s, [cg.on(*[ad.q(k) for k in qs])], qs, 'conjugated_by', 'conj_random')
            ctx.count('conj_random', (s, 'clifford_gate', [str(o) for o in ops]), True)


# ---------------------------------------------------------------- oracles: rotations
def expm_pauli(P, t):
    """exp(i pi t (1 - P)/2) for an involution P: +1 eigenspace untouched, -1 eigenspace phased by e^{i pi t}."""
    import scipy.linalg as sl
    return sl.expm(1j * np.pi * t * (np.eye(len(P)) - P) / 2)


def stream_rotations(ctx, ad, count):
    cirq, rng = ad.cirq, ctx.rng
    import scipy.linalg as sl
    ts = [0, 0.25, 0.5, -0.5, 1, -1, 1.5, 2, 0.1, -0.37, 1 / 3]
    for it in range(count):
        n = rng.choice([1, 2, 2, 3, 3, 4])
        qs = list(range(n))
        qm = [ad.q(k) for k in qs]
        items = rand_items(rng, n, 0.7)
        sign = rng.choice([1, -1])
        s = ((F(sign), F(0)), items)
        p = ad.ps(s)
        P = ad.mat(((F(1), F(0)), items), qs)
        en, ep = rng.choice(ts), rng.choice(ts) if rng.random() < 0.5 else 0
        # PauliStringPhasor, sometimes over an explicit superset of qubits (extra qubits carry the identity)
        extra = rng.random() < 0.5
        if extra:
            order = [k for k, _ in items]
            for k in qs:
                if k not in dict(items):
                    order.insert(rng.randint(0, len(order)), k)
            ph = cirq.PauliStringPhasor(p, [ad.q(k) for k in order], exponent_neg=en, exponent_pos=ep)
        else:
            order = [k for k, _ in items]
            ph = cirq.PauliStringPhasor(p, exponent_neg=en, exponent_pos=ep)
        has_id = extra and len(order) > len(items)
        got = cirq.Circuit(ph).unitary(qubit_order=qm) if order else cirq.unitary(ph) * np.eye(2 ** n)
        S = sign * P
        Pm, Pp = (np.eye(2 ** n) - S) / 2, (np.eye(2 ** n) + S) / 2
        ref = np.exp(1j * np.pi * en) * Pm + np.exp(1j * np.pi * ep) * Pp
        ctx.count('phasor', (s, en, ep, tuple(order)), len(items) > 0 and (en - ep) % 2 != 0,
                  sample=dict(string=str(p), qubits=order, exponent_neg=en, exponent_pos=ep))
        assert close(expm_pauli(S, en) @ (np.exp(1j * np.pi * ep) * sl.expm(-1j * np.pi * ep * (np.eye(2 ** n) - S) / 2)), ref)
        # a phasor of the identity string is a scalar: compared up to global phase
        ok = close(got, ref) if items else phase_equal(got, ref)
        if not ok:
            sig = 'phasor:identity-qubits-in-parity' if has_id else 'phasor:unitary'
            ctx.violation(sig, f'PauliStringPhasor({p}, qubits={order}, exponent_neg={en}, exponent_pos={ep}): unitary is not '
                               f'e^(i pi neg) on the -1 eigenspace and e^(i pi pos) on the +1 eigenspace of the string'
                               + (' (qubits carrying the identity take part in the parity computation of the decomposition)' if has_id else ''),
                          dict(kind='phasor', s=ser_ps(s), en=en, ep=ep, qubits=qs, order=order if extra else None))
        # PauliString ** t with a unit coefficient e^(i pi theta): integer t is the matrix power, exactly; other t is
        # e^(i pi theta t) exp(i pi t (1 - P)/2) up to the choice of branch, i.e. compared up to global phase
        t = rng.choice(ts + [2, 3, -2, -3, 4])
        if items:
            c = rng.choice(UNITS)
            pt = ad.ps((c, items))
            r = pt ** t
            theta = {UNITS[0]: 0.0, UNITS[1]: 0.5, UNITS[2]: 1.0, UNITS[3]: -0.5}[c]
            got = cirq.Circuit(r).unitary(qubit_order=qm) if not isinstance(r, cirq.PauliString) else r.matrix(qm)
            ctx.count('ps_pow', ((c, items), t), t % 2 != 0, sample=dict(string=str(pt), power=t, out=str(r)))
            if float(t).is_integer():
                ref = np.linalg.matrix_power(cz(c) * P, int(t))
                if not close(got, ref):
                    sig = 'ps_pow:int' + (':single-qubit-coefficient-dropped' if len(items) == 1 and c != UNITS[0] and phase_equal(got, ref) else '')
                    ctx.violation(sig, f'({pt}) ** {t} = {r} is not the matrix power of the string (coefficient included)',
                                  dict(kind='ps_pow', s=ser_ps((c, items)), t=t, qubits=qs))
            else:
                ref = np.exp(1j * np.pi * theta * t) * expm_pauli(P, t)
                if not phase_equal(got, ref):
                    ctx.violation('ps_pow:float', f'({pt}) ** {t} is not exp(i pi t (1-P)/2) up to global phase',
                                  dict(kind='ps_pow', s=ser_ps((c, items)), t=t, qubits=qs))
            # e ** (i a P) = exp(i a P)
            a = rng.choice([0.3, -1.1, math.pi / 4, math.pi / 2, 2.0])
            r = math.e ** ad.ps(((F(0), F(a).limit_denominator(1 << 20)), items))
            av = float(F(a).limit_denominator(1 << 20))
            ref = sl.expm(1j * av * P)
            got = cirq.Circuit(r).unitary(qubit_order=qm)
            ctx.count('ps_rpow', (items, av), True)
            if not close(got, ref):
                ctx.violation('ps_rpow', f'e ** ({av}j * P) for P={items} is not exp(i a P)', dict(kind='ps_rpow', items=[[k, p] for k, p in items], a=av, qubits=qs))
        # PauliSumExponential of commuting terms
        terms = []
        for _ in range(rng.randint(1, 3)):
            cand = ((F(rng.randint(-4, 4), 4), F(0)), rand_items(rng, n, 0.6))
            if cand[0][0] != 0 and all(sorted(cand[1]) != sorted(t[1]) and bool(cirq.commutes(ad.ps(cand), ad.ps(t))) for t in terms):
                terms.append(cand)
        if terms:
            anti = rng.random() < 0.3
            tt = [((F(0), c[0]), it_) if anti else (c, it_) for c, it_ in terms]
            e = rng.choice([0.7, 1.0, -0.4, math.pi / 2])
            psum = ad.psum(tt)
            try:
                pse = cirq.PauliSumExponential(psum, e)
            except Exception as ex:
                ctx.violation('psumexp:raises', f'PauliSumExponential({psum}) raised {type(ex).__name__}: {ex}',
                              dict(kind='psumexp', terms=[ser_ps(t) for t in tt], e=e))
                continue
            uq = list(pse.qubits)
            H = sum_matrix(ad, [(c, it_) for c, it_ in terms], [q.x for q in uq])
            ref = sl.expm(1j * e * H)
            factors = list(pse)
            prod = cirq.Circuit(factors).unitary(qubit_order=uq) if uq else np.eye(1)
            overlapping = len(uq) != sum(len(t[1]) for t in terms) or [q for f in factors for q in f.qubits] != uq
            ctx.count('psum_exponential', (tt, e), len(terms) > 1, sample=dict(sum=str(psum), exponent=e, factors=[str(f) for f in factors]))
            if not phase_equal(prod, ref):
                ctx.violation('psumexp:factors', f'the rotation factors of PauliSumExponential({psum}, {e}) do not multiply to exp(i e H)',
                              dict(kind='psumexp', terms=[ser_ps(t) for t in tt], e=e))
            m = pse.matrix()
            if not (close(m, ref) or (m.shape == ref.shape and phase_equal(m, ref))):
                sig = 'psumexp:matrix-kron-of-factors' if overlapping else 'psumexp:matrix'
                ctx.violation(sig, f'PauliSumExponential({psum}, {e}).matrix() has shape {m.shape} and is not the product of its rotation '
                                   f'factors (shape {ref.shape}) even up to global phase'
                                   + (': it takes the Kronecker product of the factor unitaries' if overlapping else ''),
                              dict(kind='psumexp_matrix', terms=[ser_ps(t) for t in tt], e=e))


def phase_equal(a, b):
    i = np.argmax(np.abs(b))
    if abs(a.flat[i]) < 1e-9:
        return False
    return bool(np.allclose(a * (b.flat[i] / a.flat[i]), b, atol=ATOL))


# ---------------------------------------------------------------- oracles: expectation values
def rand_state(rng, n):
    v = np.array([complex(rng.gauss(0, 1), rng.gauss(0, 1)) for _ in range(2 ** n)])
    return v / np.linalg.norm(v)


def stream_expectation(ctx, ad, count):
    cirq, rng = ad.cirq, ctx.rng
    for it in range(count):
        n = rng.choice([1, 2, 3, 3, 4, 5])
        k = rng.randint(0, n)
        support = rng.sample(range(n), k)          # qubit ids of the string
        items = [(q, rng.randint(1, 3)) for q in support]
        c = (F(rng.randint(-8, 8), 4), F(0))
        s = (c, items)
        p = ad.ps(s)
        pos = rng.sample(range(n), n)               # qubit id -> axis
        qmap = {ad.q(q): pos[q] for q in range(n)}
        if rng.random() < 0.3:
            qmap = {ad.q(q): pos[q] for q in support}     # only the needed keys
        by_axis = sorted(range(n), key=lambda q: pos[q])
        P = ad.mat(s, by_axis)
        psi = rand_state(rng, n)
        dtype = rng.choice([np.complex128, np.complex64])
        tol = 1e-6 if dtype == np.complex128 else 2e-4
        vec = psi.astype(dtype)
        if rng.random() < 0.3:
            vec = vec.reshape((2,) * n)
        got = p.expectation_from_state_vector(vec, qmap, atol=1e-3)
        ref = np.vdot(psi, P @ psi)
        ctx.count('expectation_state_vector', (s, pos, it), k > 0, sample=dict(string=str(p), axes=pos, expectation=str(complex(got))))
        if abs(got - ref) > tol:
            ctx.violation('expectation:state_vector', f'{p}.expectation_from_state_vector with qubit_map {pos}: {got} vs <psi|P|psi> = {ref}',
                          dict(kind='expect', s=ser_ps(s), pos=pos, n=n, psi=[[float(z.real), float(z.imag)] for z in psi], mode='sv'))
        # density matrix: a random mixture of two pure states
        phi = rand_state(rng, n)
        w = rng.random()
        rho = w * np.outer(psi, psi.conj()) + (1 - w) * np.outer(phi, phi.conj())
        rr = rho.astype(dtype)
        if rng.random() < 0.3:
            rr = rr.reshape((2,) * (2 * n))
        got = p.expectation_from_density_matrix(rr, qmap, atol=1e-3)
        ref = np.trace(rho @ P)
        ctx.count('expectation_density_matrix', (s, pos, it), k > 0)
        if abs(got - ref) > tol:
            ctx.violation('expectation:density_matrix', f'{p}.expectation_from_density_matrix with qubit_map {pos}: {got} vs tr(rho P) = {ref}',
                          dict(kind='expect', s=ser_ps(s), pos=pos, n=n, psi=[[float(z.real), float(z.imag)] for z in psi], mode='dm'))
        # PauliSum, and the simulator
        terms = [((F(rng.randint(-6, 6), 2), F(0)), rand_items(rng, n, 0.5)) for _ in range(rng.randint(1, 3))]
        S_ = ad.psum(terms)
        full = {ad.q(q): pos[q] for q in range(n)}
        M = sum_matrix(ad, terms, by_axis)
        g1 = S_.expectation_from_state_vector(psi.astype(np.complex128), full)
        g2 = S_.expectation_from_density_matrix(rho.astype(np.complex128), full)
        ctx.count('expectation_sum', (terms, pos, it), True)
        if abs(g1 - np.vdot(psi, M @ psi)) > 1e-6 or abs(g2 - np.trace(rho @ M)) > 1e-6:
            ctx.violation('expectation:sum', f'PauliSum {S_} expectation with qubit_map {pos} differs from <psi|H|psi> / tr(rho H)',
                          dict(kind='expect_sum', terms=[ser_ps(t) for t in terms], pos=pos, n=n, psi=[[float(z.real), float(z.imag)] for z in psi]))
        if it % 4 == 0 and n <= 4:
            circ = cirq.Circuit([clifford_ops(cirq, rng, n, ad) for _ in range(4)] + [cirq.T(ad.q(rng.randrange(n)))] +
                                [cirq.I(ad.q(q)) for q in range(n)])
            order = [ad.q(q) for q in by_axis]
            out = cirq.Simulator(dtype=np.complex128).simulate_expectation_values(circ, [p, S_], qubit_order=order)
            st = circ.final_state_vector(qubit_order=order, dtype=np.complex128)
            refs = [np.vdot(st, P @ st), np.vdot(st, M @ st)]
            out_d = cirq.DensityMatrixSimulator(dtype=np.complex128).simulate_expectation_values(circ, [p, S_], qubit_order=order)
            ctx.count('expectation_simulator', (s, terms, pos, it), True)
            if any(abs(a - b) > 1e-6 for a, b in zip(out, refs)) or any(abs(a - b) > 1e-6 for a, b in zip(out_d, refs)):
                ctx.violation('expectation:simulator', f'simulate_expectation_values({p}, {S_}) with qubit order {by_axis}: {out} / {out_d} vs {refs}',
                              dict(kind='expect_sim', s=ser_ps(s), terms=[ser_ps(t) for t in terms], pos=pos, n=n, circuit=cirq.to_json(circ)))


# ---------------------------------------------------------------- histories on ONE mutable object
# An object is observed through every view it offers (state, unitary, decomposition, frozen/sparse copies, equality,
# repr), then changed in place, then observed again, several times over.  The reference is the full matrix of the
# history (numpy products of the operands' matrices); the states after every step are also compared exactly with the
# trace of the Gallina model (Cliff/PauliHist.v).  Objects derived earlier (frozen copies, copies, results of the
# out-of-place operators) must keep their value when the original is changed later, and the other way round.
def pz(x):
    return (F(x[0]), F(x[1]))


def sz(z):
    return [str(z[0]), str(z[1])]


def decode_pauli(R):
    """c * (x) letters from its matrix alone: (c, letters), or None if R is not of that form."""
    n = int(round(math.log2(R.shape[0])))
    row0 = np.nonzero(np.abs(R[0]) > 1e-9)[0]
    if len(row0) != 1:
        return None
    j = int(row0[0])
    L = []
    for k in range(n):
        e = 1 << (n - 1 - k)
        flip = (j & e) != 0
        ratio = R[e, j ^ e] / R[0, j]
        neg = abs(ratio + 1) < 1e-6
        if not neg and abs(ratio - 1) > 1e-6:
            return None
        L.append((2 if neg else 1) if flip else (3 if neg else 0))
    base = kron_all([PM[p] for p in L])
    c = complex(R[0, j] / base[0, j])
    if not np.allclose(c * base, R, atol=1e-7):
        return None
    return c, L


def pad_mat(c, mask, n):
    return c * kron_all([PM[p] for p in list(mask) + [0] * (n - len(mask))])


def dense_views(ad, m, R, deep=True):
    """Names of the views of the mutable dense string m that do not show the matrix R."""
    cirq = ad.cirq
    dec = decode_pauli(R)
    assert dec is not None, 'reference matrix of a dense history is not a Pauli string'
    c, L = dec
    n = len(L)
    qs = [ad.q(k) for k in range(n)]
    bad = []
    if [int(x) for x in m.pauli_mask] != L or abs(complex(m.coefficient) - c) > ATOL:
        bad.append('pauli_mask/coefficient')
    unit = abs(abs(c) - 1) < 1e-8
    if bool(cirq.has_unitary(m)) != unit:
        bad.append('has_unitary')
    u = cirq.unitary(m, None)
    if (u is None) == unit or (unit and not close(u, R)):
        bad.append('unitary')
    fz = m.frozen()
    if [int(x) for x in fz.pauli_mask] != L or abs(complex(fz.coefficient) - c) > ATOL:
        bad.append('frozen')
    if unit and not close(cirq.unitary(fz), R):
        bad.append('frozen unitary')
    if n and not close(m.on(*qs).matrix(qs), R):
        bad.append('on().matrix')
    if len(m) != n or [ad.idx[g] for g in m] != L:
        bad.append('iteration')
    if deep:
        if unit and n:
            if not close(cirq.Circuit(cirq.decompose_once_with_qubits(m, qs)).unitary(qubit_order=qs), R):
                bad.append('decompose')
            au = cirq.apply_unitary(m, cirq.ApplyUnitaryArgs.for_unitary(num_qubits=n), None)
            if au is None or not close(au.reshape(2 ** n, 2 ** n), R):
                bad.append('apply_unitary')
        # comparisons are judged against objects rebuilt from the state the object reports (same value / negated value)
        own = cirq.MutableDensePauliString(np.array(m.pauli_mask, dtype=np.uint8), coefficient=m.coefficient)
        neg = cirq.MutableDensePauliString(np.array(m.pauli_mask, dtype=np.uint8), coefficient=-m.coefficient)
        if not (m == own and own == m) or m == neg or neg == m or m != m.mutable_copy():
            bad.append('equality')
        if not (cirq.approx_eq(m, own, atol=ATOL) and cirq.approx_eq(own, m, atol=ATOL)) or cirq.approx_eq(m, neg, atol=ATOL) \
                or cirq.approx_eq(neg, m, atol=ATOL):
            bad.append('approx_eq')
        back = eval(repr(m), {'cirq': cirq, 'np': np})
        if type(back) is not type(m) or back != own:
            bad.append('repr')
        if ''.join('IXYZ'[p] for p in L) not in str(m):
            bad.append('str')
        for nm, cp in (('copy', m.copy()), ('mutable_copy', m.mutable_copy())):
            if cp is m or [int(x) for x in cp.pauli_mask] != L or abs(complex(cp.coefficient) - c) > ATOL:
                bad.append(nm)
    return bad


def c_dstep(st):
    k = st[0]
    if k == 'mul':
        return f'DMul {c_ds((pz(st[1]), st[2]))}'
    if k == 'scale':
        return f'DScale {gq(pz(st[1]))}'
    if k == 'set':
        return f'DSet {st[1]}%nat {LET[st[2]]}'
    return f'DSlice {st[1]}%nat {c_mask(st[2])}'


def c_dtrace(tr):
    return '[' + '; '.join(f'({"true" if ok else "false"}, {c_ds(d)})' for ok, d in tr) + ']'


OUT_OF_PLACE = ['neg', 'mul_scalar', 'rmul_scalar', 'div_scalar', 'pow3', 'pow2', 'abs', 'copy', 'mutable_copy', 'mul_dense', 'tensor']


def run_dense_history(ctx, ad, desc, rows=None, stream='ds_history'):
    """desc = dict(start={coef, mask}, steps=[...]) (JSON-able).  Steps:
       ['mul_dense', {coef, mask}, mutable]   m *= (Mutable)DensePauliString
       ['mul_string', {coef, items}]          m *= PauliString on LineQubits        ['mul_op', k, p]   m *= P(q_k)
       ['mul_self']                           m *= m
       ['scale', [re, im], real_form]         m *= number        ['div', [re, im]]   m /= number
       ['set', i, p, form]                    m[i] = letter      ['slice', lo, [letters], form]   m[lo:lo+len] = letters
       ['out', name]                          an out-of-place operator: right value, m untouched, result independent of m
       ['gauss', [{coef, mask}...]]           inline_gaussian_elimination([m] + rows)
    Returns True iff every view agreed after every step."""
    cirq = ad.cirq
    a = (pz(desc['start']['coef']), list(desc['start']['mask']))
    n = len(a[1])
    m = ad.dps(a, mutable=True)
    R = pad_mat(cz(a[0]), a[1], n)
    ok_all = True
    rp = dict(kind='dense_history', start=desc['start'], steps=desc['steps'])
    done = []
    snapshots = []

    def report(sig, what):
        nonlocal ok_all
        ok_all = False
        ctx.violation(sig, what, rp)

    def look(when, deep=True):
        state0 = ad.dout(m)
        bad = dense_views(ad, m, R, deep)
        if ad.dout(m) != state0:
            bad.append('observing changed the object')
        if 'approx_eq' in bad:
            bad.remove('approx_eq')
            report('dense:approx-eq-stale-after-inplace',
                   f'cirq.approx_eq on a MutableDensePauliString compares the value the object had when it was first compared '
                   f'approximately, not its current one: after the in-place history {done} the object is {m!r}, and '
                   f'approx_eq(m, same value) / approx_eq(m, negated value) are '
                   f'{cirq.approx_eq(m, cirq.MutableDensePauliString(np.array(m.pauli_mask), coefficient=m.coefficient), atol=ATOL)} / '
                   f'{cirq.approx_eq(m, cirq.MutableDensePauliString(np.array(m.pauli_mask), coefficient=-m.coefficient), atol=ATOL)}')
        if bad:
            c, L = decode_pauli(R)
            u = cirq.unitary(m, None)
            shown = np.round(u, 3).tolist() if u is not None and len(u) <= 4 else ('none' if u is None else f'{len(u)}x{len(u)} matrix')
            report(f'{stream}:views:' + ','.join(bad),
                   f'MutableDensePauliString({"".join("IXYZ"[p] for p in a[1])!r}, coefficient={cz(a[0])}) {when}: the history '
                   f'{done} of in-place operations (each view read before and after every step) must leave the matrix '
                   f'{c} * {"".join("IXYZ"[p] for p in L)} (product of the operands\' matrices), but the views {bad} show '
                   f'something else (cirq.unitary: {shown}; state: {m!r})')
        return not bad

    look('before any operation')
    a0, cmodel, trace = a, [], []
    for st in desc['steps']:
        kind = st[0]
        before = ad.dout(m)
        Rn = None
        mstep = None
        if kind == 'out':
            done.append(f'{st[1]} (out of place)')
            ok_all &= dense_out_of_place(ctx, ad, m, R, st[1], rp, stream)
            look(f'after the out-of-place operator {st[1]}', deep=False)
            continue
        if kind == 'gauss':
            done.append('inline_gaussian_elimination')
            R = dense_gauss(ctx, ad, m, R, st[1], rp, stream, report)
            look('after inline_gaussian_elimination')
            # no model step for the elimination: the model trace so far is closed and a new one starts from the state reached
            if rows is not None and cmodel:
                rows.add(f'({c_ds(a0)}, {c_list(cmodel, c_dstep)}, {c_dtrace(trace)})', f'dense history {a0} {desc["steps"]} -> {trace}')
            a0, cmodel, trace = ad.dout(m), [], []
            continue
        if kind in ('mul_dense', 'mul_string', 'mul_op', 'mul_self'):
            if kind == 'mul_dense':
                b = (pz(st[1]['coef']), list(st[1]['mask']))
                other = ad.dps(b, mutable=bool(st[2]))
            elif kind == 'mul_string':
                sps = deser_ps(st[1])
                other = ad.ps(sps)
                b = (sps[0], mask_of(sps[1], max([k + 1 for k, _ in sps[1]] + [0])))
            elif kind == 'mul_op':
                other = ad.gates[st[2]](ad.q(st[1]))
                b = (UNITS[0], [0] * st[1] + [st[2]])
            else:
                other = m
                b = (before[0], list(before[1]))
            mstep = ['mul', sz(b[0]), [int(x) for x in b[1]]]
            accept = len(b[1]) <= n
            if accept:
                Rn = R @ pad_mat(cz(b[0]), b[1], n)
            done.append(f'*= {other!r}' if other is not m else '*= itself')
            op = lambda: m.__imul__(other)
        elif kind in ('scale', 'div'):
            x = pz(st[1])
            if kind == 'scale':
                xv = float(x[0]) if (len(st) > 2 and st[2] and x[1] == 0) else cz(x)
                mstep = ['scale', sz(x)]
                Rn = cz(x) * R
                done.append(f'*= {xv!r}')
                op = lambda: m.__imul__(xv)
            else:
                xv = float(x[0]) if x[1] == 0 else cz(x)
                mstep = ['scale', sz(zinv(x))]
                Rn = R / cz(x)
                done.append(f'/= {xv!r}')
                op = lambda: m.__itruediv__(xv)
            accept = True
        elif kind == 'set':
            i, p = st[1], st[2]
            val = [ad.gates[p], 'IXYZ'[p], p, 'ixyz'[p]][st[3] % 4]
            mstep = ['set', i, p]
            accept = i < n
            if accept:
                c, L = decode_pauli(R)
                L[i] = p
                Rn = pad_mat(c, L, n)
            done.append(f'[{i}] = {val!r}')
            op = lambda: m.__setitem__(i, val)
        elif kind == 'slice':
            lo, v = st[1], list(st[2])
            form = st[3] % 4
            val = [''.join('IXYZ'[p] for p in v), [ad.gates[p] for p in v], cirq.DensePauliString(v),
                   np.array(v, dtype=np.uint8)][form]
            mstep = ['slice', lo, v]
            accept = lo + len(v) <= n
            assert accept, 'slice steps are generated inside the string'
            c, L = decode_pauli(R)
            L[lo:lo + len(v)] = v
            Rn = pad_mat(c, L, n)
            done.append(f'[{lo}:{lo + len(v)}] = {val!r}')
            op = lambda: m.__setitem__(slice(lo, lo + len(v)), val)
        else:
            raise AssertionError(f'unknown step {st}')
        try:
            ret = op()
            raised = None
        except (ValueError, IndexError) as e:
            ret, raised = m, type(e).__name__
        if ret is not m and ret is not None:
            report(f'{stream}:return', f'in-place step {done[-1]} of a MutableDensePauliString did not return the object itself')
        if (raised is None) != accept:
            report(f'{stream}:rejects', f'in-place step {done[-1]} on a string of length {n}: ' +
                   (f'raised {raised} although the operand fits' if raised else 'accepted an operand that does not fit'))
        if raised is None and accept:
            R = Rn
        if kind in ('mul_dense', 'mul_string') and (ad.dout(other) if kind == 'mul_dense' else ad.out(other)) != (b if kind == 'mul_dense' else sps):
            report(f'{stream}:operand-changed', f'in-place step {done[-1]} changed its right operand')
        cmodel.append(mstep)
        trace.append((raised is None, ad.dout(m)))
        look(f'after {done[-1]}' + (f' (rejected with {raised})' if raised else ''))
        if len(done) % 2 == 1:
            snapshots.append((m.frozen() if len(done) % 4 == 1 else m.mutable_copy(), R.copy()))
    for obj, R0 in snapshots:
        got = pad_mat(complex(obj.coefficient), [int(x) for x in obj.pauli_mask], n)
        if not close(got, R0):
            report(f'{stream}:snapshot', f'a {type(obj).__name__} taken from a MutableDensePauliString during the history {done} '
                                         f'changed its value when the original was modified later')
    if rows is not None and cmodel:
        rows.add(f'({c_ds(a0)}, {c_list(cmodel, c_dstep)}, {c_dtrace(trace)})', f'dense history {a0} {desc["steps"]} -> {trace}')
    return ok_all


def dense_out_of_place(ctx, ad, m, R, name, rp, stream):
    """An out-of-place operator evaluated in the middle of a history: value by the matrices, the operand untouched, and the
    result an object of its own (changing it in place afterwards must not reach the operand)."""
    cirq = ad.cirq
    c, L = decode_pauli(R)
    n = len(L)
    x = 1j
    if name == 'neg':
        r, want = -m, -R
    elif name == 'mul_scalar':
        r, want = m * x, x * R
    elif name == 'rmul_scalar':
        r, want = x * m, x * R
    elif name == 'div_scalar':
        r, want = m / 2, R / 2
    elif name == 'pow3':
        r, want = m ** 3, np.linalg.matrix_power(R, 3)
    elif name == 'pow2':
        r, want = m ** 2, R @ R
    elif name == 'abs':
        r, want = abs(m), abs(c) * kron_all([PM[p] for p in L])
    elif name == 'copy':
        r, want = m.copy(), R
    elif name == 'mutable_copy':
        r, want = m.mutable_copy(), R
    elif name == 'mul_dense':
        o = cirq.DensePauliString([(p + 1) % 4 for p in L], coefficient=-1)
        r, want = m * o, R @ pad_mat(-1, [(p + 1) % 4 for p in L], n)
    else:
        r, want = m.tensor_product(cirq.DensePauliString([])), R
    ok = True
    got = pad_mat(complex(r.coefficient), [int(v) for v in r.pauli_mask], n)
    if not close(got, want):
        ok = False
        ctx.violation(f'{stream}:out-of-place:{name}', f'{name} of {m!r} gives {r!r}, not the operation on the matrix', rp)
    if r is not m and isinstance(r, cirq.MutableDensePauliString) and n:
        state = ad.dout(m)
        r *= 1j
        r[0] = (int(r.pauli_mask[0]) + 1) % 4
        r *= cirq.DensePauliString([3] * n)
        if ad.dout(m) != state:
            ok = False
            ctx.violation('dense:out-of-place-result-shares-mask',
                          f'{name} of the mutable dense string {cirq.MutableDensePauliString(list(state[1]), coefficient=cz(state[0]))!r} '
                          f'returns a MutableDensePauliString that shares its pauli_mask with the operand: changing the result in '
                          f'place (r *= 1j; r[0] = ...; r *= ZZ..) turned the operand into {m!r}, although no operation was applied to it',
                          dict(rp, alias_op=name))
            # put the operand back so that the rest of the history is judged on its own
            m.pauli_mask[:] = state[1]
    return ok


def dense_gauss(ctx, ad, m, R, others, rp, stream, report):
    """inline_gaussian_elimination on [m] + others (every row observed beforehand): every row it leaves is a product of the
    rows it was given and the other way round -- as matrices, exactly, when the rows commute pairwise and have coefficients
    +-1 (then every word in them is a subset product), up to the scalar otherwise; and every view of every row shows the
    state the row reports.  Returns the matrix of m afterwards."""
    cirq = ad.cirq
    n = int(round(math.log2(R.shape[0])))
    given = [(pz(o['coef']), list(o['mask'])) for o in others]
    rows = [m] + [ad.dps(g, mutable=True) for g in given]
    mats = [R] + [pad_mat(cz(g[0]), g[1], n) for g in given]
    for r_, M_ in zip(rows[1:], mats[1:]):
        if dense_views(ad, r_, M_, deep=False):
            report(f'{stream}:views:gauss-row', f'a fresh MutableDensePauliString {r_!r} does not show its own matrix')
    exact = all(close(A_ @ B_, B_ @ A_) for A_ in mats for B_ in mats) and all(close(A_ @ A_, np.eye(2 ** n)) for A_ in mats)
    lst = list(rows)
    cirq.MutableDensePauliString.inline_gaussian_elimination(lst)
    if sorted(map(id, lst)) != sorted(map(id, rows)):
        report(f'{stream}:gauss:rows', 'inline_gaussian_elimination replaced row objects')
    mat_of = lambda r_: pad_mat(complex(r_.coefficient), [int(v) for v in r_.pauli_mask], n)
    outs = [mat_of(r_) for r_ in lst]

    def spanned(target, gens):
        want = decode_pauli(target)
        for bits in range(1 << len(gens)):
            P = np.eye(2 ** n, dtype=complex)
            for k in range(len(gens)):
                if bits >> k & 1:
                    P = P @ gens[k]
            if close(P, target) if exact else (want is not None and decode_pauli(P)[1] == want[1]):
                return True
        return False

    names = [repr(ad.dps(g)) for g in given]
    for r_, M_ in zip(lst, outs):
        if not spanned(M_, mats):
            report(f'{stream}:gauss:span', f'inline_gaussian_elimination of the history object (matrix {decode_pauli(R)}) and {names} left the '
                                           f'row {r_!r}, which is not {"the" if exact else "up to a scalar a"} product of given rows')
    for M_ in mats:
        if not spanned(M_, outs):
            report(f'{stream}:gauss:span', f'a row given to inline_gaussian_elimination (history object with matrix {decode_pauli(R)} and '
                                           f'{names}) is not a product of the rows it left')
    for r_, M_ in zip(lst, outs):
        if r_ is not m and dense_views(ad, r_, M_, deep=False):
            report(f'{stream}:views:gauss-row', f'after inline_gaussian_elimination of {names} and the history object the row {r_!r} shows '
                                                f'views that differ from the state it reports')
    Rm = mat_of(m)
    return Rm if spanned(Rm, mats) else R


def rand_dense_step(rng, n, allow_out=True):
    r = rng.random()
    if r < 0.22:
        lb = rng.randint(0, n) if rng.random() < 0.9 else n + 1
        return ['mul_dense', dict(coef=sz(rand_coef(rng)), mask=[rng.randint(0, 3) for _ in range(lb)]), int(rng.random() < 0.3)]
    if r < 0.32 and n:
        s = rand_ps(rng, n if rng.random() < 0.9 else n + 1)
        return ['mul_string', ser_ps(s)]
    if r < 0.42 and n:
        return ['mul_op', rng.randrange(n), rng.randint(1, 3)]
    if r < 0.47:
        return ['mul_self']
    if r < 0.57:
        return ['scale', sz(rand_coef(rng)), int(rng.random() < 0.5)]
    if r < 0.64:
        return ['div', sz(rand_invertible(rng))]
    if r < 0.76 and n:
        return ['set', rng.randrange(n) if rng.random() < 0.9 else n, rng.randint(0, 3), rng.randrange(4)]
    if r < 0.84 and n:
        lo = rng.randrange(n)
        ln = rng.randint(1, n - lo)
        return ['slice', lo, [rng.randint(0, 3) for _ in range(ln)], rng.randrange(4)]
    if r < 0.9 and n:
        return ['gauss', [dict(coef=sz(rng.choice([UNITS[0], UNITS[0], UNITS[2], UNITS[1]])), mask=[rng.randint(0, 3) for _ in range(n)]) for _ in range(rng.randint(1, 3))]]
    if allow_out:
        return ['out', rng.choice(OUT_OF_PLACE)]
    return ['scale', sz(rng.choice(UNITS)), 0]


def dense_history_grid(ns=(1, 2)):
    """Fixed histories, the same for every seed: every ordered pair of letter patterns on 1 and 2 positions as (object, first
    operand), unit coefficients cycling so that the object has a unitary to look at, every kind of in-place step following."""
    out = []
    for n in ns:
        masks = all_masks(n)
        for ia, ma in enumerate(masks):
            for ib, mb in enumerate(masks):
                j = ia * len(masks) + ib
                ka, kb = (ia + ib) % 4, (ia + 3 * ib + ib // 4) % 4
                first = [['mul_dense', dict(coef=sz(UNITS[kb]), mask=list(mb)), j % 2],
                         ['mul_string', ser_ps((UNITS[kb], mask_items(mb)))],
                         ['mul_dense', dict(coef=sz(UNITS[kb]), mask=list(mb[:max(n - 1, 0)])), 0]][j % 3]
                steps = [first,
                         ['scale', sz(UNITS[1 + j % 3]), j % 2],
                         ['set', j % n, (ma[j % n] + 1 + j % 3) % 4, j],
                         ['mul_op', (j + 1) % n, 1 + j % 3],
                         ['div', sz(UNITS[1 + (j // 3) % 3])],
                         ['slice', 0, [(p + 1 + j) % 4 for p in mb], j // 2],
                         ['mul_self'] if j % 4 == 0 else ['mul_dense', dict(coef=sz(UNITS[ka]), mask=list(ma)), 1]]
                if j % 8 == 3:
                    steps.insert(2, ['gauss', [dict(coef=sz(UNITS[0]), mask=list(mb))]])
                if j % 8 == 5:
                    steps.insert(1, ['out', OUT_OF_PLACE[(j // 8) % len(OUT_OF_PLACE)]])
                out.append(dict(start=dict(coef=sz(UNITS[ka]), mask=list(ma)), steps=steps))
    return out


# ---- MutablePauliString
def deser_like(d):
    kind, v = d
    if kind in ('ps', 'op'):
        return (kind, deser_ps(v))
    if kind == 'num':
        return (kind, pz(v))
    if kind == 'map':
        return (kind, [(int(k), int(p)) for k, p in v])
    if kind == 'id':
        return (kind, int(v))
    return (kind, [deser_like(x) for x in v])


def like_build(ad, d):
    """(cirq value, Gallina plike terms) of a PAULI_STRING_LIKE description."""
    kind, v = d
    if kind == 'ps':
        return ad.ps(v), [f'LPS {c_ps(v)}']
    if kind == 'op':
        (k, p), = v[1]
        return ad.gates[p](ad.q(k)), [f'LPS {c_ps(v)}']
    if kind == 'num':
        return (cz(v) if v[1] != 0 else float(v[0])), [f'LNum {gq(v)}']
    if kind == 'map':
        return {ad.q(k): ad.gates[p] for k, p in v}, [f'LMap {c_pm(v)}']
    if kind == 'id':
        return ad.cirq.I(ad.q(v)), ['LId']
    parts = [like_build(ad, x) for x in v]
    return [x[0] for x in parts], [t for x in parts for t in x[1]]


def mps_views(ad, m, R, qs, deep=True):
    cirq = ad.cirq
    dec = decode_pauli(R)
    assert dec is not None, 'reference matrix of a MutablePauliString history is not a Pauli string'
    c, L = dec
    want = {k: p for k, p in zip(qs, L) if p}
    qm = [ad.q(k) for k in qs]
    bad = []
    fz = m.frozen()
    got = {q.x: ad.idx[g] for q, g in fz.items()}
    if got != want or abs(complex(fz.coefficient) - c) > ATOL or abs(complex(m.coefficient) - c) > ATOL:
        bad.append('frozen')
    if not close(fz.matrix(qm), R):
        bad.append('frozen().matrix')
    if {q.x: ad.idx[g] for q, g in m.items()} != want or len(m) != len(want) or bool(m) != bool(want) \
            or {q.x for q in m.keys()} != set(want) or sorted(ad.idx[g] for g in m.values()) != sorted(want.values()):
        bad.append('items/len/keys/values')
    for k in qs:
        q = ad.q(k)
        if (q in m) != (k in want) or m.get(q) is not (ad.gates[want[k]] if k in want else None) or (k in want and m[q] is not ad.gates[want[k]]):
            bad.append('lookup')
            break
    if deep:
        own = cirq.MutablePauliString(coefficient=m.coefficient, pauli_int_dict=dict(m.pauli_int_dict))
        neg = cirq.MutablePauliString(coefficient=-m.coefficient, pauli_int_dict=dict(m.pauli_int_dict))
        if not (m == own and own == m) or m == neg or m != m.mutable_copy():
            bad.append('equality')
        if not cirq.approx_eq(m, own, atol=ATOL) or cirq.approx_eq(m, neg, atol=ATOL):
            bad.append('approx_eq')
        back = eval(repr(m), {'cirq': cirq, 'np': np})
        if not isinstance(back, cirq.MutablePauliString) or not close(back.frozen().matrix(qm), R):
            bad.append('repr')
        if not close(m.mutable_copy().frozen().matrix(qm), R) or not close((-m).frozen().matrix(qm), -R) \
                or not close((m * 1).matrix(qm), R):
            bad.append('mutable_copy/neg/mul')
        if abs(abs(c) - 1) < 1e-8 and want and not close(cirq.Circuit(fz).unitary(qubit_order=qm), R):
            bad.append('frozen unitary')
    return bad


def run_mps_history(ctx, ad, desc, rows=None, stream='mps_history'):
    """desc = dict(start=ser_ps, n, steps): ['mul', which, like] (0 inplace_left_multiply_by, 1 inplace_right_multiply_by,
    2 *=), ['conj', 'before'|'after', [op json]], ['set', k, p, form], ['del', k], ['coef', [re, im]]."""
    cirq = ad.cirq
    a = deser_ps(desc['start'])
    n = desc['n']
    qs = list(range(n))
    qm = [ad.q(k) for k in qs]
    m = ad.mps(a)
    R = ad.mat(a, qs)
    rp = dict(kind='mps_history', start=desc['start'], n=n, steps=desc['steps'])
    done, ok_all, snapshots = [], True, []

    def report(sig, what):
        nonlocal ok_all
        ok_all = False
        ctx.violation(sig, what, rp)

    def look(when, deep=True):
        bad = mps_views(ad, m, R, qs, deep)
        if bad:
            c, L = decode_pauli(R)
            report(f'{stream}:views:' + ','.join(bad),
                   f'MutablePauliString {ad.ps(a)!r} {when}: the history {done} must leave the matrix {c} * '
                   f'{"".join("IXYZ"[p] for p in L)} on qubits {qs}, but the views {bad} show something else (object: {m!r})')

    look('before any operation')
    cmodel, trace, pure = [], [], True
    for st in desc['steps']:
        kind = st[0]
        if kind == 'mul':
            which, ld = st[1], deser_like(st[2])
            val, terms = like_build(ad, ld)
            MX = like_matrix(ad, ld, qs)
            done.append(f'{["inplace_left_multiply_by", "inplace_right_multiply_by", "*="][which]} {val!r}')
            ret = [m.inplace_left_multiply_by, m.inplace_right_multiply_by, m.__imul__][which](val)
            R = R @ MX if which == 0 else MX @ R
            cmodel.append(f'({Z(-1 if which == 0 else 1)}, {"true" if ld[0] == "list" else "false"}, {c_list(terms)})')
        elif kind == 'conj':
            ops = [cirq.read_json(json_text=t) for t in st[2]]
            C = cirq.Circuit(ops).unitary(qubit_order=qm) if ops else np.eye(2 ** n)
            done.append(f'inplace_{st[1]}({ops})')
            ret = (m.inplace_before if st[1] == 'before' else m.inplace_after)(ops)
            R = C @ R @ C.conj().T if st[1] == 'after' else C.conj().T @ R @ C
            pure = False
        elif kind == 'set':
            k, p = st[1], st[2]
            val = [ad.gates[p], 'IXYZ'[p], p][st[3] % 3]
            done.append(f'[q{k}] = {val!r}')
            m[ad.q(k)] = val
            ret = m
            c, L = decode_pauli(R)
            L[k] = p
            R = pad_mat(c, L, n)
            pure = False
        elif kind == 'del':
            k = st[1]
            done.append(f'del [q{k}]')
            c, L = decode_pauli(R)
            try:
                del m[ad.q(k)]
                if L[k] == 0:
                    report(f'{stream}:del', f'del of an absent qubit did not raise KeyError after {done}')
            except KeyError:
                if L[k] != 0:
                    report(f'{stream}:del', f'del of a present qubit raised KeyError after {done}')
            ret = m
            L[k] = 0
            R = pad_mat(c, L, n)
            pure = False
        else:
            x = pz(st[1])
            done.append(f'.coefficient = {cz(x)!r}')
            m.coefficient = cz(x)
            ret = m
            c, L = decode_pauli(R)
            R = pad_mat(cz(x), L, n)
            pure = False
        if ret is not m:
            report(f'{stream}:return', f'in-place step {done[-1]} of a MutablePauliString did not return the object itself')
        if pure:
            trace.append(ad.out(m.frozen()))
        look(f'after {done[-1]}')
        if len(done) % 2 == 1:
            snapshots.append((m.frozen() if len(done) % 4 == 1 else m.mutable_copy(), R.copy()))
    for obj, R0 in snapshots:
        if not close((obj if isinstance(obj, cirq.PauliString) else obj.frozen()).matrix(qm), R0):
            report(f'{stream}:snapshot', f'a {type(obj).__name__} taken from a MutablePauliString during the history {done} changed its '
                                         f'value when the original was modified later')
    if rows is not None and trace:
        rows.add(f'({c_ps(a)}, {c_list(cmodel[:len(trace)])}, {c_list(trace, c_ps)})', f'mutable history {a} {desc["steps"]} -> {trace}')
    return ok_all


def rand_mps_desc(rng, ad, pure):
    cirq = ad.cirq
    n = rng.choice([1, 2, 3, 3, 4])
    a = rand_ps(rng, n)
    steps = []
    for _ in range(rng.randint(1, 5)):
        r = rng.random()
        if pure or r < 0.5:
            steps.append(['mul', rng.randrange(3), ser_like(rand_like(rng, ad, n)[2])])
        elif r < 0.7:
            ops = [clifford_ops(cirq, rng, n, ad) for _ in range(rng.randint(1, 3))]
            steps.append(['conj', rng.choice(['before', 'after']), [cirq.to_json(o) for o in ops]])
        elif r < 0.85:
            steps.append(['set', rng.randrange(n), rng.randint(0, 3), rng.randrange(3)])
        elif r < 0.93:
            steps.append(['del', rng.randrange(n)])
        else:
            steps.append(['coef', sz(rand_coef(rng))])
    return dict(start=ser_ps(a), n=n, steps=steps)


def mps_history_grid(stride=1):
    """Fixed: ordered pairs of one- and two-qubit patterns (all of them on one qubit, every stride-th on two), three
    multiplications each (left, right, *=) and an assignment."""
    out = []
    for n in (1, 2):
        masks = all_masks(n)
        for ia, ma in enumerate(masks):
            for ib, mb in enumerate(masks):
                j = ia * len(masks) + ib
                if n == 2 and (ia + ib) % stride:
                    continue
                b = (UNITS[(ia + 2 * ib) % 4], mask_items(mb))
                like = ser_like(('ps', b)) if j % 3 else ser_like(('map', mask_items(mb)))
                steps = [['mul', j % 3, like], ['mul', (j + 1) % 3, ser_like(('op', (UNITS[0], [(j % n, 1 + j % 3)])))],
                         ['set', (j + 1) % n, (j // 2) % 4, j], ['mul', (j + 2) % 3, ser_like(('ps', b))]]
                out.append(dict(start=ser_ps((UNITS[(ia + ib) % 4], mask_items(ma))), n=n, steps=steps))
    return out


# ---- PauliSum
def psum_views(ad, S, R, qs, psi):
    cirq = ad.cirq
    qm = [ad.q(k) for k in qs]
    bad = []
    if not close(S.matrix(qm), R):
        bad.append('matrix')
    if not close(S.sparse_matrix(qm).toarray(), R):
        bad.append('sparse_matrix')
    terms = list(S)
    tot = np.zeros_like(R)
    for t in terms:
        tot = tot + t.matrix(qm)
    if not close(tot, R) or len(S) != len(terms):
        bad.append('iteration')
    fresh = cirq.PauliSum.from_pauli_strings(terms)
    if not (S == fresh and fresh == S) or not close(S.copy().matrix(qm), R):
        bad.append('equality/copy')
    try:
        ev = S.expectation_from_state_vector(psi, {q: i for i, q in enumerate(qm)}, check_preconditions=False) if _hermitian(R) else None
    except NotImplementedError:      # a term with a complex coefficient (they may cancel in the matrix)
        ev = None
    if ev is not None and abs(ev - np.vdot(psi, R @ psi)) > 1e-6:
        bad.append('expectation')
    return bad


def support_of(R, n):
    """Positions of an n-position register on which the operator R acts non-trivially: R is a tensor product with the identity
    at position k iff it commutes with X_k and Z_k.  Distinct Pauli strings are linearly independent, so this is exactly the
    set of qubits carried by the terms with a non-zero coefficient in any expansion of R as a Pauli sum."""
    out = []
    for k in range(n):
        Xk = kron_all([PM[1] if j == k else PM[0] for j in range(n)])
        Zk = kron_all([PM[3] if j == k else PM[0] for j in range(n)])
        if not (close(R @ Xk, Xk @ R) and close(R @ Zk, Zk @ R)):
            out.append(k)
    return out


def embed(M, sub, n):
    """M acts on the positions `sub` (in that order) -> M (x) identity elsewhere, as a matrix on positions 0..n-1."""
    sub = list(sub)
    rest = [k for k in range(n) if k not in sub]
    order = sub + rest
    T = np.kron(M, np.eye(2 ** len(rest))).reshape([2] * (2 * n))
    p = [order.index(k) for k in range(n)]
    return T.transpose(p + [n + x for x in p]).reshape(2 ** n, 2 ** n)


def reduce_to(R, sub, n):
    """R = R_sub (x) identity outside `sub` -> R_sub with its axes in the order of `sub` (partial trace over the rest)."""
    sub = list(sub)
    rest = [k for k in range(n) if k not in sub]
    order = sub + rest
    T = R.reshape([2] * (2 * n)).transpose(order + [n + x for x in order])
    T = T.reshape(2 ** len(sub), 2 ** len(rest), 2 ** len(sub), 2 ** len(rest))
    return np.trace(T, axis1=1, axis2=3) / 2 ** len(rest)


def psum_default_views(ad, S, R, qs):
    """The views that depend on the sum's own idea of its qubits (nothing handed in): `qubits`, `matrix()`, `sparse_matrix()`,
    `with_qubits`, expectation values over a qubit map that lists exactly the qubits acted on (in another order),
    PauliSumExponential built on the sum.  R is the reference matrix on the register qs = 0..n-1."""
    import scipy.linalg as sl
    cirq = ad.cirq
    n = len(qs)
    bad = []
    sup = support_of(R, n)
    want_q = tuple(ad.q(k) for k in sup)
    R_sub = reduce_to(R, sup, n)
    try:
        got_q = tuple(S.qubits)
    except Exception as ex:
        return [f'qubits raises {type(ex).__name__}']
    if got_q != want_q:
        bad.append(f'qubits (reports {[q.x for q in got_q]}, the operator acts on exactly {sup})')
    inside = all(isinstance(q, cirq.LineQubit) and q.x in qs for q in got_q) and len(set(got_q)) == len(got_q)
    for name, f in (('matrix()', lambda: S.matrix()), ('sparse_matrix()', lambda: S.sparse_matrix().toarray())):
        try:
            M = f()
        except Exception as ex:
            bad.append(f'{name} raises {type(ex).__name__}')
            continue
        # the matrix over the default qubit order: the operator on the reported qubits, identity on the others
        if not (inside and M.shape == (2 ** len(got_q),) * 2 and close(embed(M, [q.x for q in got_q], n), R)):
            bad.append(f'{name} (shape {M.shape} on qubits {[q.x for q in got_q]})')
    fresh = [ad.q(100 + 3 * i) for i in range(len(sup))][::-1]       # a new order as well
    try:
        T = S.with_qubits(*fresh)
        if not close(T.matrix(fresh), R_sub) or tuple(T.qubits) != tuple(sorted(fresh)):
            bad.append('with_qubits')
    except Exception as ex:
        bad.append(f'with_qubits raises {type(ex).__name__}')
    try:
        S.with_qubits(*(fresh + [ad.q(99)]))
        bad.append('with_qubits (one qubit too many accepted)')
    except ValueError:
        pass
    if sup and _hermitian(R):
        # any qubit ordering: a map that lists exactly the qubits acted on, reversed
        order = sup[::-1]
        Ro = reduce_to(R, order, n)
        m = len(order)
        phi = np.array([complex(math.cos(0.4 + 0.9 * i), math.sin(0.3 + 1.3 * i)) for i in range(2 ** m)])
        phi = phi / np.linalg.norm(phi)
        qmap = {ad.q(k): i for i, k in enumerate(order)}
        want = np.vdot(phi, Ro @ phi)
        for name, f in (('expectation_from_state_vector', lambda: S.expectation_from_state_vector(phi, qmap)),
                        ('expectation_from_density_matrix', lambda: S.expectation_from_density_matrix(np.outer(phi, phi.conj()), qmap))):
            try:
                ev = f()
            except NotImplementedError:          # a term with a complex coefficient (they may cancel in the matrix)
                continue
            except Exception as ex:
                bad.append(f'{name} over the qubits acted on raises {type(ex).__name__}: {ex}'[:160])
                continue
            if abs(ev - want) > 1e-6:
                bad.append(f'{name} over the qubits acted on')
    terms = list(S)
    if terms and all(len(t) > 0 and abs(complex(t.coefficient).imag) == 0 for t in terms) \
            and all(bool(cirq.commutes(a, b)) for a in terms for b in terms):
        e = 0.37
        try:
            pse = cirq.PauliSumExponential(S, e)
            pq = tuple(pse.qubits)
            M = pse.matrix()
            ref = sl.expm(1j * e * R_sub)
            if pq != want_q or not (close(M, ref) or (M.shape == ref.shape and phase_equal(M, ref))):
                bad.append(f'PauliSumExponential (qubits {[q.x for q in pq]}, matrix shape {M.shape})')
        except Exception as ex:
            bad.append(f'PauliSumExponential raises {type(ex).__name__}')
    return bad


def _hermitian(R):
    return bool(np.allclose(R, R.conj().T, atol=1e-9))


def run_psum_history(ctx, ad, desc, rows=None, stream='psum_history'):
    """desc = dict(start=[ser_ps], n, steps): ['add'|'sub'|'mul', [ser_ps], spelling] (spelling 1 with one term: the operand is
    the PauliString itself), ['scale', [re, im]], ['div', [re, im]]."""
    cirq = ad.cirq
    n = desc['n']
    qs = list(range(n))
    qm = [ad.q(k) for k in qs]
    ta = [deser_ps(t) for t in desc['start']]
    S = ad.psum(ta)
    R = sum_matrix(ad, ta, qs)
    psi = np.array([complex(math.cos(0.3 + 0.7 * i), math.sin(1.1 * i)) for i in range(2 ** n)])
    psi = psi / np.linalg.norm(psi)
    rp = dict(kind='psum_history', start=desc['start'], n=n, steps=desc['steps'])
    done, ok_all, snapshots = [], True, []

    def report(sig, what):
        nonlocal ok_all
        ok_all = False
        ctx.violation(sig, what, rp)

    def look(when):
        bad = psum_views(ad, S, R, qs, psi)
        if bad:
            report(f'{stream}:views:' + ','.join(bad),
                   f'PauliSum {ad.psum(ta)} {when}: after the in-place history {done} the views {bad} do not show the same '
                   f'operations applied to the matrices (object: {S})')
        bad = psum_default_views(ad, S, R, qs)
        if bad:
            # signature: the first view (fixed order) that is wrong; the details go into the description
            report(f'{stream}:default-qubit-views:' + bad[0].split(' ')[0],
                   f'PauliSum {ad.psum(ta)} {when}: after the in-place history {done} the views that use the qubits of the sum itself '
                   f'{bad} do not show the same operations applied to the matrices (object: {S})')

    look('before any operation')
    cmodel, trace, qtrace = [], [], []
    for st in desc['steps']:
        kind = st[0]
        S0 = S
        if kind in ('add', 'sub', 'mul'):
            tb = [deser_ps(t) for t in st[1]]
            other = ad.ps(tb[0]) if st[2] == 1 and len(tb) == 1 else ad.psum(tb)
            MB = sum_matrix(ad, tb, qs)
            before_other = other.matrix(qm)
            if kind == 'add':
                S += other
                R = R + MB
            elif kind == 'sub':
                S -= other
                R = R - MB
            else:
                S *= other
                R = R @ MB
            done.append(f'{dict(add="+=", sub="-=", mul="*=")[kind]} {other}')
            cmodel.append(f'({dict(add=0, sub=1, mul=2)[kind]}, {c_list(tb, c_ps)}, {gq(UNITS[0])})')
            if S is not S0:
                report(f'{stream}:return', f'{done[-1]} on a PauliSum did not keep the object')
            if not close(other.matrix(qm), before_other):
                report(f'{stream}:operand-changed', f'{done[-1]} changed its right operand')
        else:
            x = pz(st[1])
            xv = cz(x) if x[1] != 0 else float(x[0])
            if kind == 'scale':
                S *= xv
                R = R * cz(x)
                cmodel.append(f'(3, [], {gq(x)})')
                if S is not S0:
                    report(f'{stream}:return', f'*= {xv} on a PauliSum did not keep the object')
            else:
                S /= xv
                R = R / cz(x)
                cmodel.append(f'(3, [], {gq(zinv(x))})')
                if S0 is not S and not close(S0.matrix(qm), R * cz(x)):
                    report(f'{stream}:operand-changed', f'/= {xv} rebinding changed the old PauliSum')
            done.append(f'{"*=" if kind == "scale" else "/="} {xv!r}')
        trace.append(sum_terms_of(ad, S))
        try:
            qtrace.append([int(q.x) for q in S.qubits])
        except Exception:
            qtrace.append([-1])
        look(f'after {done[-1]}')
        if len(done) % 2 == 1:
            snapshots.append((S.copy(), R.copy()))
    for obj, R0 in snapshots:
        if not close(obj.matrix(qm), R0):
            report(f'{stream}:snapshot', f'a copy taken from a PauliSum during the history {done} changed when the original was modified later')
    if rows is not None and trace:
        rows.add(f'({c_list(ta, c_ps)}, {c_list(cmodel)}, {c_list(trace, c_sum)}, {c_list(qtrace, lambda l: c_list(l, Z))})',
                 f'PauliSum history {ta} {desc["steps"]} -> {trace}, reported qubits {qtrace}')
    return ok_all


def rand_psum_desc(rng):
    n = rng.choice([1, 2, 2, 3, 3])
    mk = lambda lo: [ser_ps(rand_ps(rng, n, p_present=0.5)) for _ in range(rng.randint(lo, 2))]
    steps = []
    for _ in range(rng.randint(1, 4)):
        r = rng.random()
        if r < 0.7:
            steps.append([rng.choice(['add', 'sub', 'mul']), mk(1), rng.randrange(2)])
        elif r < 0.87:
            steps.append(['scale', sz(rand_coef(rng))])
        else:
            steps.append(['div', sz(rand_invertible(rng))])
    return dict(start=mk(0), n=n, steps=steps)


def psum_history_grid(full=True):
    """Fixed histories of one PauliSum, the same for every seed.  (a) every ordered pair of letter patterns on 2 positions as
    (one-term sum, operand) under each of += -= *= (the operand a PauliString or a PauliSum in turn): the operand stays on the
    qubits of the sum, brings a new qubit, or removes one (P * P, P - P); (b) sums of several terms on a 3-qubit register with
    string and sum operands that overlap / extend / cancel.  Each first step is followed by a scalar multiple and one more
    step that changes the set of qubits again.  All views are read before the first step, so every step acts on an object that
    has been looked at.  full=False (quick tier) takes one of the three operators per pair in (a), in turn."""
    out = []
    masks = all_masks(2)
    I1 = (F(1), F(0))
    for ia, ma in enumerate(masks):
        for ib, mb in enumerate(masks):
            for io, op in enumerate(('add', 'sub', 'mul')):
                if not full and io != (ia + ib + ib // 4) % 3:      # quick tier: one of the three operators per pair, in turn
                    continue
                j = (ia * 16 + ib) * 3 + io
                cb = [I1, (F(0), F(-1)), (F(1, 2), F(0)), (F(-2), F(0))][(ia + ib + io) % 4]
                steps = [[op, [ser_ps((cb if op == 'mul' else I1, mask_items(mb)))], j % 2]]
                if j % 3 == 0:
                    steps.append(['scale', sz((F(2), F(0)))])
                # one more change of the set of qubits: the operand again (P * P = 1, P - P = 0), or the other pattern
                steps.append([('mul', 'sub', 'add')[(j // 3) % 3], [ser_ps((I1, mask_items(mb if j % 2 else ma)))], (j + 1) % 2])
                out.append(dict(start=[ser_ps((I1, mask_items(ma)))], n=2, steps=steps))
    X, Y, Z_ = 1, 2, 3
    starts = [[(I1, [(0, X)]), (I1, [(0, Z_)])],
              [(I1, [(0, X), (1, Y)]), ((F(1, 2), F(0)), [(1, Z_)])],
              [((F(1), F(2)), [(0, Y)]), ((F(-1), F(0)), [(0, X), (1, Z_)]), ((F(3), F(0)), [])],
              [(I1, [(1, Z_)])],
              [((F(2), F(0)), [])],
              []]
    operands = [[(I1, [(0, Y)])],
                [((F(0), F(-1)), [(1, Y)])],
                [(I1, [(2, X), (0, Z_)])],
                [(I1, [(1, Z_)])],
                [(I1, [(0, X), (1, Y)])],
                [(I1, [(1, Z_)]), ((F(2), F(0)), [(2, X)])],
                [(I1, [(0, X)]), ((F(-1), F(0)), [(2, Y), (0, Z_)])],
                [((F(1, 2), F(0)), []), (I1, [(2, Z_)])]]
    j = 0
    for st in starts:
        for ob in operands:
            for op in ('add', 'sub', 'mul'):
                j += 1
                oc = operands[(j + 3) % len(operands)]
                steps = [[op, [ser_ps(t) for t in ob], j % 2],
                         [('mul', 'sub', 'add', 'mul')[j % 4], [ser_ps(t) for t in oc], (j // 2) % 2]]
                if j % 2:
                    steps.insert(1, ['div', sz((F(0), F(2)))])
                if j % 5 == 0 and st:
                    steps.append(['sub', [ser_ps(st[0])], 1])
                out.append(dict(start=[ser_ps(t) for t in st], n=3, steps=steps))
    return out


def stream_histories(ctx, ad, count, mps_stride=1):
    cirq, rng = ad.cirq, ctx.rng
    GD = Rows('ds_history', f'{T_DS} * list (dstep (K:=GQ)) * list (bool * {T_DS})', 'dhist')
    GM = Rows('mps_history', f'{T_PS} * list (Z * bool * list (plike (K:=GQ))) * list ({T_PS})', 'mhist')
    GS = Rows('psum_history', f'list ({T_PS}) * list (Z * list ({T_PS}) * GQ) * list psumG * list (list Z)', 'shist')
    for desc in dense_history_grid():
        ctx.count('ds_history_grid', desc, True,
                  sample=dict(start=desc['start'], steps=[s[0] for s in desc['steps']]) if len(desc['start']['mask']) == 2 else None)
        run_dense_history(ctx, ad, desc, GD, 'ds_history')
    for desc in mps_history_grid(mps_stride):
        ctx.count('mps_history_grid', desc, True)
        run_mps_history(ctx, ad, desc, GM)
    for desc in psum_history_grid(full=mps_stride == 1):
        ctx.count('psum_history_grid', desc, True, sample=dict(start=desc['start'], steps=[s[0] for s in desc['steps']]) if desc['n'] == 3 else None)
        run_psum_history(ctx, ad, desc, GS)
    for it in range(count):
        n = rng.choice([1, 2, 3, 3, 4, 4])
        coef = rng.choice(UNITS) if rng.random() < 0.7 else rand_coef(rng)
        desc = dict(start=dict(coef=sz(coef), mask=[rng.randint(0, 3) for _ in range(n)]),
                    steps=[rand_dense_step(rng, n) for _ in range(rng.randint(1, 6))])
        ctx.count('ds_history', desc, len(desc['steps']) > 1, sample=dict(start=desc['start'], steps=[s[0] for s in desc['steps']]))
        run_dense_history(ctx, ad, desc, GD, 'ds_history')
        desc = rand_mps_desc(rng, ad, pure=it % 2 == 0)
        ctx.count('mps_history', desc, len(desc['steps']) > 1, sample=dict(start=desc['start'], steps=[s[0] for s in desc['steps']]))
        run_mps_history(ctx, ad, desc, GM)
        desc = rand_psum_desc(rng)
        ctx.count('psum_history', desc, len(desc['steps']) > 1, sample=dict(start=desc['start'], steps=[s[0] for s in desc['steps']]))
        run_psum_history(ctx, ad, desc, GS)
    flush_rows(ctx, 'hist', [GD, GM, GS], budget=500)



# ---------------------------------------------------------------- driver
def stream_measure_observables(ctx, cirq, count):
    """Expectation values estimated by sampling (cirq.work.measure_observables, with and without readout symmetrization)
    against <psi|P|psi>.  Fixed sampler seeds make the run deterministic; the acceptance band is 6 standard errors, so an
    unbiased estimator stays inside it and a sign/rotation slip (which moves the mean by O(1)) does not."""
    import numpy as np
    import itertools
    rng = ctx.rng
    reps = 2500
    cases = []
    # fixed for every seed: every Pauli letter (one qubit) and every pair of letters (two qubits) on its +1 eigenstate and on a
    # state with expectation 1/2-ish, with and without readout symmetrization
    eig = {cirq.X: lambda q: cirq.H(q), cirq.Y: lambda q: cirq.X(q) ** -0.5, cirq.Z: lambda q: cirq.I(q)}
    for sym in (True, False):
        for l in (cirq.X, cirq.Y, cirq.Z):
            q = cirq.LineQubit(0)
            cases.append((cirq.Circuit(eig[l](q)), [q], cirq.PauliString({q: l}), [l], sym))
            cases.append((cirq.Circuit(eig[l](q), cirq.rx(0.7)(q), cirq.ry(0.4)(q)), [q], cirq.PauliString({q: l}) * -0.5, [l], sym))
        for l0, l1 in itertools.product((cirq.X, cirq.Y, cirq.Z), repeat=2):
            qs = cirq.LineQubit.range(2)
            cases.append((cirq.Circuit(eig[l0](qs[0]), eig[l1](qs[1])), qs, cirq.PauliString({qs[0]: l0, qs[1]: l1}), [l0, l1], sym))
    for i in range(count):
        n = rng.randint(1, 2)
        qs = cirq.LineQubit.range(n)
        prep = cirq.Circuit()
        for q in qs:
            prep.append(rng.choice([cirq.H(q), cirq.X(q) ** 0.5, cirq.X(q) ** -0.5, cirq.Y(q) ** 0.5, cirq.X(q), cirq.I(q), cirq.ry(0.9)(q), cirq.rx(0.7)(q)]))
        if n == 2 and rng.random() < 0.5:
            prep.append(cirq.CNOT(qs[0], qs[1]))
        letters = [rng.choice([cirq.X, cirq.Y, cirq.Z]) for _ in qs]
        if n == 2 and rng.random() < 0.3:
            obs = cirq.PauliString({qs[0]: letters[0]}) * rng.choice([1.0, 0.5, -1.0])
        else:
            obs = cirq.PauliString({q: l for q, l in zip(qs, letters)}) * rng.choice([1.0, 0.5, -1.0])
        cases.append((prep, qs, obs, letters, rng.random() < 0.6))
    for i, (prep, qs, obs, letters, sym) in enumerate(cases):
        psi = cirq.final_state_vector(prep, qubit_order=qs)
        exact = float(np.real(obs.expectation_from_state_vector(psi, {q: k for k, q in enumerate(qs)})))
        try:
            res = cirq.work.observable_measurement.measure_observables(prep, [obs], cirq.Simulator(seed=1000 + i),
                                                stopping_criteria=cirq.work.RepetitionsStoppingCriteria(reps),
                                                readout_symmetrization=sym)
            got = float(res[0].mean)
        except Exception as e:
            ctx.violation('measure_observables:raises', f'measure_observables raised {type(e).__name__}: {e}',
                          dict(kind='measure_observables', circuit=repr(prep), observable=repr(obs), symmetrization=sym))
            continue
        band = 6 * abs(complex(obs.coefficient)) / np.sqrt(reps) + 1e-9
        ctx.count('measure_observables', [repr(prep), repr(obs), sym], abs(exact) > 0.05,
                  sample=dict(circuit=str(prep).replace('\n', ' | '), observable=str(obs), readout_symmetrization=sym, exact=exact, sampled=got))
        if abs(got - exact) > band:
            ctx.violation(f'measure_observables:sym={sym}:{"".join(str(l) for l in letters)}',
                          f'measure_observables(readout_symmetrization={sym}) estimates <{obs}> = {got:.3f} but <psi|P|psi> = {exact:.3f} '
                          f'({reps} repetitions, 6 sigma band {band:.3f}) on {str(prep)!r}',
                          dict(kind='measure_observables', circuit=repr(prep), observable=repr(obs), symmetrization=sym, exact=exact, sampled=got))


def run(ctx):
    """Run all streams; a broken obligation / correspondence / harness failure for which no failing input was found is
    reported as such even when known findings were hit (runner.finish() only does so when there are none)."""
    import traceback
    try:
        _run(ctx)
    except SystemExit:
        raise
    except Exception:
        tb = traceback.format_exc()
        print(tb)
        ctx.mark_broken('harness-exception', tb[-2000:])
    if ctx.broken and not any(v['found_input'] for v in ctx.violations):
        names = sorted({b[0] for b in ctx.broken})
        ctx.violation('broken:' + ';'.join(names), 'obligation or correspondence no longer checks; no failing input found',
                      dict(kind='broken', broken=[{'name': n, 'detail': d} for n, d in ctx.broken]), found_input=False)


def _run(ctx):
    cirq = env.import_cirq()
    ad = A(cirq)
    ctx.rule = ('Pauli strings as (Gaussian-rational coefficient, ordered qubit->letter items); exhaustive ordered pairs of letter '
                'patterns on <=3 qubits and triples on <=2 qubits with unit coefficients (PauliString) and pairs on <=2 positions '
                '(DensePauliString), random strings / dense strings / sums on <=5 qubits with dyadic Gaussian coefficients, shuffled '
                'dict orders, all spellings of each operator; results compared exactly (coefficient, letter per qubit, term '
                'coefficients) with the Gallina model by vm_compute and as matrices with numpy references (tol 1e-8); Clifford '
                'conjugation (all 24 one-qubit Cliffords, named two-qubit Cliffords on all 15 strings, random Clifford circuits), '
                'histories on one mutable object (fixed grid: all ordered pairs of patterns on 1-2 positions followed by every kind of '
                'in-place step, plus random histories of 1-6 steps incl. rejected steps, self-multiplication, out-of-place operators and '
                'inline_gaussian_elimination) with all views (state, unitary, decomposition, apply_unitary, frozen/sparse copies, '
                'equality, approx_eq, repr) read before and after every step; PauliSum histories: fixed grid of all ordered pairs of patterns on 2 positions '
                '(one-term sum, operand) under += -= *= (operand on the same qubits / a new qubit / cancelling one) and several-term sums on 3 qubits, '
                'the default-qubit views (qubits, matrix(), sparse_matrix(), with_qubits, minimal-map expectation, PauliSumExponential) judged '
                'against the support of the reference matrix, '
                'PauliStringPhasor / P**t / e**(iaP) / PauliSumExponential against scipy expm, expectation values against '
                '<psi|P|psi> and tr(rho P) for random states and qubit maps; non-trivial = operands share a qubit / operator is '
                'not the identity case; distinct by canonical input')
    ctx.assumptions += ['vf/checks/c14.py adapters calling Cirq and printing exact rationals',
                        'binary64 arithmetic is exact on the generated dyadic coefficients (results are compared exactly)',
                        'numpy/scipy reference linear algebra for the matrix-level oracles (tolerance 1e-8; 1e-6 / 2e-4 for expectation values in complex128 / complex64)',
                        'conjugation, rotations and expectation values are compared with references on generated inputs, not proved']
    import time
    phases = ctx.cov.setdefault('phase_seconds', {})

    def timed(name, f, *args):
        t0 = time.time()
        r = f(*args)
        phases[name] = round(phases.get(name, 0) + time.time() - t0, 1)
        return r

    err = timed('tables', tables.regenerate, ['PauliTables'])
    if err['PauliTables']:
        mark_broken(ctx, 'table:PauliTables', err['PauliTables'])
    # includes waiting for the shared build lock when other checks are building
    ctx.set_obligations(timed('proofs (make + coqc Props/C14.v, incl. waiting for the shared build lock)', coq.compile_props, 'C14'))
    quick = ctx.tier == 'quick'
    timed('products exhaustive', stream_mul_exhaustive, ctx, ad, [1, 2, 3], [1, 2] if quick else [1, 2, 3])
    timed('strings random', stream_ps_random, ctx, ad, 300 if quick else 4000)
    timed('dense', stream_dense, ctx, ad, 300 if quick else 4000, [1, 2] if quick else [1, 2, 3])
    timed('sums', stream_sums, ctx, ad, 300 if quick else 4000)
    timed('histories', stream_histories, ctx, ad, 80 if quick else 2500, 4 if quick else 1)
    timed('conjugation', stream_conjugation, ctx, ad, 300 if quick else 4000, not quick)
    timed('rotations', stream_rotations, ctx, ad, 200 if quick else 2500)
    timed('expectation', stream_expectation, ctx, ad, 200 if quick else 2500)
    timed('sampled observables', stream_measure_observables, ctx, cirq, 10 if quick else 60)


def replay(ctx, data):
    cirq = env.import_cirq()
    ad = A(cirq)
    k = data.get('kind')

    class Probe:
        """Re-run one oracle and record whether it reported a violation."""
        def __init__(self):
            self.hit = []
            self.rng = ctx.rng

        def violation(self, sig, what, replay):
            self.hit.append((sig, what))

        def count(self, *a, **kw):
            pass

    pr = Probe()
    if k == 'product':
        ops = [deser_ps(d) for d in data['operands']]
        qs = data['qubits']
        r = ad.ps(ops[0])
        for s in ops[1:]:
            r = r * ad.ps(s)
        print('product ->', r)
        check_product_matrix(pr, ad, 'replay', ops, r, qs)
    elif k == 'dense_times_string':
        dense_times_string(pr, ad, deser_ds(data['a']), deser_ps(data['s']), data['left'], count=False)
    elif k == 'conj':
        ops = [cirq.read_json(json_text=t) for t in data['ops']]
        conj_case(pr, ad, deser_ps(data['s']), ops, data['qubits'], data['which'], 'replay')
    elif k in ('psumexp_matrix', 'psumexp'):
        import scipy.linalg as sl
        tt = [deser_ps(d) for d in data['terms']]
        pse = cirq.PauliSumExponential(ad.psum(tt), data['e'])
        uq = list(pse.qubits)
        herm = [((c[0] if c[1] == 0 else c[1], F(0)), it_) for c, it_ in tt]
        ref = sl.expm(1j * data['e'] * sum_matrix(ad, herm, [q.x for q in uq]))
        prod = cirq.Circuit(list(pse)).unitary(qubit_order=uq)
        m = pse.matrix()
        print('matrix() shape', m.shape, 'reference shape', ref.shape, 'factors multiply to reference:', close(prod, ref))
        if not close(prod, ref) or not (close(m, ref) or (m.shape == ref.shape and phase_equal(m, ref))):
            pr.hit.append(('psumexp', 'matrix() differs from the product of the rotation factors'))
    elif k == 'phasor':
        s = deser_ps(data['s'])
        qs = data['qubits']
        qm = [ad.q(i) for i in qs]
        sign = float(s[0][0])
        P = ad.mat(((F(1), F(0)), s[1]), qs) * sign
        order = data.get('order')
        ph = cirq.PauliStringPhasor(ad.ps(s), [ad.q(i) for i in order] if order is not None else None,
                                    exponent_neg=data['en'], exponent_pos=data['ep'])
        print(repr(ph))
        got = cirq.Circuit(ph).unitary(qubit_order=qm)
        I_ = np.eye(len(P))
        ref = np.exp(1j * np.pi * data['en']) * (I_ - P) / 2 + np.exp(1j * np.pi * data['ep']) * (I_ + P) / 2
        if not close(got, ref):
            pr.hit.append(('phasor', 'unitary differs'))
    elif k == 'ps_pow':
        s = deser_ps(data['s'])
        qs, t = data['qubits'], data['t']
        qm = [ad.q(i) for i in qs]
        r = ad.ps(s) ** t
        print(f'({ad.ps(s)}) ** {t} ->', repr(r))
        got = cirq.Circuit(r).unitary(qubit_order=qm) if not isinstance(r, cirq.PauliString) else r.matrix(qm)
        if float(t).is_integer():
            if not close(got, np.linalg.matrix_power(ad.mat(s, qs), int(t))):
                pr.hit.append(('ps_pow', 'not the matrix power'))
        else:
            theta = np.angle(cz(s[0])) / np.pi
            if not phase_equal(got, np.exp(1j * np.pi * theta * t) * expm_pauli(ad.mat(((F(1), F(0)), s[1]), qs), t)):
                pr.hit.append(('ps_pow', 'not the rotation'))
    elif k == 'expect':
        s = deser_ps(data['s'])
        n, pos = data['n'], data['pos']
        psi = np.array([complex(x, y) for x, y in data['psi']])
        by_axis = sorted(range(n), key=lambda q: pos[q])
        P = ad.mat(s, by_axis)
        qmap = {ad.q(q): pos[q] for q in range(n)}
        got = ad.ps(s).expectation_from_state_vector(psi, qmap)
        got2 = ad.ps(s).expectation_from_density_matrix(np.outer(psi, psi.conj()), qmap)
        ref = np.vdot(psi, P @ psi)
        print('expectation', got, got2, 'reference', ref)
        if abs(got - ref) > 1e-6 or abs(got2 - ref) > 1e-6:
            pr.hit.append(('expect', 'differs'))
    elif k == 'expect_sum':
        terms = [deser_ps(d) for d in data['terms']]
        n, pos = data['n'], data['pos']
        psi = np.array([complex(x, y) for x, y in data['psi']])
        by_axis = sorted(range(n), key=lambda q: pos[q])
        M = sum_matrix(ad, terms, by_axis)
        full = {ad.q(q): pos[q] for q in range(n)}
        S_ = ad.psum(terms)
        g1 = S_.expectation_from_state_vector(psi, full)
        g2 = S_.expectation_from_density_matrix(np.outer(psi, psi.conj()), full)
        ref = np.vdot(psi, M @ psi)
        print('expectation', g1, g2, 'reference', ref)
        if abs(g1 - ref) > 1e-6 or abs(g2 - ref) > 1e-6:
            pr.hit.append(('expect_sum', 'differs'))
    elif k == 'expect_sim':
        s = deser_ps(data['s'])
        terms = [deser_ps(d) for d in data['terms']]
        n, pos = data['n'], data['pos']
        by_axis = sorted(range(n), key=lambda q: pos[q])
        order = [ad.q(q) for q in by_axis]
        circ = cirq.read_json(json_text=data['circuit'])
        p, S_ = ad.ps(s), ad.psum(terms)
        st = circ.final_state_vector(qubit_order=order, dtype=np.complex128)
        refs = [np.vdot(st, ad.mat(s, by_axis) @ st), np.vdot(st, sum_matrix(ad, terms, by_axis) @ st)]
        out = cirq.Simulator(dtype=np.complex128).simulate_expectation_values(circ, [p, S_], qubit_order=order)
        out_d = cirq.DensityMatrixSimulator(dtype=np.complex128).simulate_expectation_values(circ, [p, S_], qubit_order=order)
        print(out, out_d, refs)
        if any(abs(a - b) > 1e-6 for a, b in zip(out, refs)) or any(abs(a - b) > 1e-6 for a, b in zip(out_d, refs)):
            pr.hit.append(('expect_sim', 'differs'))
    elif k == 'commutes':
        a, b, qs = deser_ps(data['a']), deser_ps(data['b']), data['qubits']
        rc = bool(cirq.commutes(ad.ps(a), ad.ps(b)))
        ma, mb = ad.mat(a, qs), ad.mat(b, qs)
        if not close(ma @ mb, (1 if rc else -1) * (mb @ ma)):
            pr.hit.append(('commutes', 'differs'))
    elif k == 'dense_product':
        a, b = deser_ds(data['a']), deser_ds(data['b'])
        out = ad.dout(ad.dps(a) * ad.dps(b))
        n = max(len(a[1]), len(b[1]))
        pad = lambda m: list(m) + [0] * (n - len(m))
        ref = cz(a[0]) * kron_all([PM[p] for p in pad(a[1])]) @ (cz(b[0]) * kron_all([PM[p] for p in pad(b[1])]))
        if not close(cz(out[0]) * kron_all([PM[p] for p in out[1]]), ref):
            pr.hit.append(('dense_product', 'differs'))
    elif k == 'psum':
        qs = data['qubits']
        qm = [ad.q(i) for i in qs]
        ta, tb = [deser_ps(d) for d in data['a']], [deser_ps(d) for d in data['b']]
        A_, B_ = ad.psum(ta), ad.psum(tb)
        MA, MB = sum_matrix(ad, ta, qs), sum_matrix(ad, tb, qs)
        res, ref = {'+': (A_ + B_, MA + MB), '-': (A_ - B_, MA - MB), '*': (A_ * B_, MA @ MB), 'from': (A_, MA)}[data['op']]
        if not close(res.matrix(qm), ref):
            pr.hit.append(('psum', 'differs'))
    elif k in ('dense_history', 'mps_history', 'psum_history'):
        run = dict(dense_history=run_dense_history, mps_history=run_mps_history, psum_history=run_psum_history)[k]
        desc = {f: data[f] for f in ('start', 'steps', 'n') if f in data}
        print('history:', desc)
        run(pr, ad, desc)
        # findings with a signature of their own (recorded separately) are judged only when they are what is replayed
        own = ('dense:approx-eq-stale-after-inplace', 'dense:out-of-place-result-shares-mask')
        sig = data.get('signature')
        pr.hit = [h for h in pr.hit if (h[0] == sig if sig in own else h[0] not in own)]
    elif k == 'broken':
        print('no failing input was found; the broken obligations / correspondence streams were:')
        for b in data.get('broken', []):
            print(' ', b['name'], '-', b['detail'][:300])
        return False
    else:
        print('nothing to replay for kind', k)
        return False
    for sig, what in pr.hit:
        print('FAILS:', sig, '-', what)
    return not pr.hit
