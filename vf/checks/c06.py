"""C06 — circuit transformers preserve what the circuit computes (DESIGN 5/C06): translation validation.

Every transformer exported by `cirq.transformers` is classified (the list is frozen below; a new export fails the
check until it is classified).  Each applicable transformer x options is run on generated circuits and its REAL
output is validated inside Coq:
  * reorder-only transformers by the proven checker `trace_equiv_b` (Base/Trace.v, exact, no floats);
  * every transformer by the reference semantics: unitary up to global phase (Sim/Ref.v `circ_unitary`) or the joint
    distribution of per-key canonical measurement records together with the conditional state on the qubits that are
    not terminally measured (Sim/Measure.v `exec`, Xform/Validate.v `dist_close`); both circuits enter the model
    through each operation's own unitary / Kraus / measurement description (vf/opsem.py);
  * python oracles on the real objects: ignored-tag operations untouched, sub-circuits untouched unless deep,
    argument not modified.
"""
import copy, itertools, math, types
import numpy as np
from .. import env, coq, runner, gates, tables, opsem, circuits as gcirc, mcircuits

LEVEL = 'translation_validation'
META = dict(
    text='Translation validation with proven components. Coq theorems: the trace-equivalence validator run on the real output of every "move, never change" transformer is sound AND complete (it accepts exactly the reorderings obtained by exchanging adjacent operations that share no qubit, no measurement key and no measured/controlling key pair), the projection lemma, trace-equivalent operation lists compute the same tensor for every ring, rank and input and keep every per-key measurement order; every constant gauge emitted by the gauge-compiling transformers satisfies (post0 x post1) . G\' . (pre0 x pre1) = c . G with |c| = 1 exactly in Q(zeta_8) (float instance to 2^-30 where entries are outside the field) and every dynamical-decoupling base sequence multiplies to a scalar; the phase-tracking loop of eject_z keeps the invariant Phi(tracked phases) . emitted = original prefix and emits an equal circuit for every denotation satisfying the commutation laws, including the PhasedXZ bookkeeping (the gate is emitted with z exponent 0, its z part joins the tracked phase, every operation forgets the marks of its qubits, the final phase of a qubit whose last operation is still that gate is written into it: equal to appending the Z gate because Z rotations commute with operations on other qubits; writing into a gate that is followed by another operation on its qubit is refuted by a 2x2 integer witness). A Pauli-basis measurement enters the reference semantics through its signed observable s.P as the keyed pair [(I+sP)/2; (I-sP)/2], proven (exactly, all strings of length <= 3, both signs) to be the complementary orthogonal self-adjoint idempotent resolution of s.P. On every run each exported transformer x options (tags_to_ignore, deep, tolerances, strategies) is executed on generated circuits (unitary, measured, classically controlled, tagged, nested, parameterised; measurement-like operations that are not a MeasurementGate: Pauli-basis measurements and keyed channels; circuits over few gates in many placements) and on two fixed grids (every kind of phase / flip in front of Pauli-basis measurements and keyed channels, for every transformer that accepts measurements; every overlapping placement of gate pairs whose commutation depends on the placement, for the commutation-based sorter; with tags_to_ignore set, an operation carrying the ignored tag - diagonal or not, one or two qubits, a measurement, a negligible gate - between phases / flips / mergeable gates and the measurements of the same qubits, for every transformer that takes tags_to_ignore; measurements that are last on their qubits but whose record a later classically controlled operation consumes, for every transformer that accepts measurements; a holder (general PhasedXZ gate, PhasedXZ / PhasedX flip) followed by an operation nothing can be carried across (every swap-like gate, sub-circuits, operations with the ignored tag, a classically controlled operation), then a phase or flip, then the end of the circuit / an opaque gate / gates that take the phase, also one level down with deep=True, for the ejecting transformers; nested circuits (repeated, tagged, twice nested sub-circuits holding empty moments, phases, mergeable, composite and negligible gates, a measurement) passed as a mutable cirq.Circuit with deep=True to every transformer that accepts sub-circuits; measurement keys that differ only by their path - sub-circuits measuring one key name on the same qubit mid-circuit, repeated with repetition ids, placed under different key paths, nested, next to the repeated key of that name without ids, with feed-forward inside and the record of one repetition read outside - for every transformer that accepts measurements and sub-circuits; for add_dynamical_decoupling a qubit idling 1-3 moments, then every two-qubit Clifford gate (both orientations) or a chain of two that carries the inserted pulse to another qubit, then there every kind of operation no Pauli passes: non-Clifford single-qubit gates, a non-Clifford two-qubit gate, a measurement, a classically controlled gate, for every schema, a custom sequence and both moment options) and its output is compared with its input inside Coq through the reference semantics: same unitary up to global phase, or same joint distribution of per-key measurement records with the same conditional state on the qubits that are not terminally measured; defer/dephase/drop_terminal_measurements, lightcone_filter and the symbolized merge under their documented contracts; every branch of every gauge selector is enumerated with a scripted prng through both entry points (the one-shot call and as_sweep resolved with its sweep point) on the canonical target gates and on every other representation of them that the transformer\'s own target accepts (exponent shifted by whole periods in both directions, global shift, parent class); an output that reads a measurement key it does not record first (while the input does) is not executable and is reported; the eject_z model is compared with the real transformer on drawn operation lists over its alphabet (Z, PhasedXZ, phaseable gates, swap-like gates, measurements, opaque operations: phase_by undefined, Pauli-basis measurement, ignored tag, sub-circuit) and on a fixed grid (PhasedXZ; one operation of every kind; phase; every kind of tail), each real output also judged by the reference semantics; map_moments with map functions that change the circuit (one operation per moment: trace validated; a phase layer behind every moment: compared with the circuit built from the specification of the primitive); IdleMomentsGauge (exported by the gauge_compiling sub-package only; its exports are frozen too): a model of the transformer in the shape of the code (windows from the active moments of each qubit, G merged after the gate that opens the window, G^-1 merged before the gate that closes it) is proven to keep the operator of the circuit up to the central scalar G^-1 . G for every window whose inner moments are free and whose ends are free or mergeable, for every denotation in a monoid in which the single-qubit gates of a qubit commute with what the other qubits do, and the variant that merges the inverse after the closing gate is refuted; on every run the transformer is executed through a scripted numpy Generator on fixed shapes (one idle window opened / closed by non-Pauli gates H, T, X**0.5, a general PhasedXZ, by Paulis, tagged gates, two-qubit gates, operations and moments carrying the ignored tag, the beginning / end of the circuit, one-moment windows, windows sharing a gate, windows on two qubits, windows next to measurements / channels) with every window taking every index of the gauge tuple for gauges = pauli, clifford, inv_clifford and a custom tuple, and on generated sparse circuits with random draws; each run is compared with its input through the reference semantics and with the model run on the same draws (windows decided sound inside Coq), and gauges / gauges_inverse are checked to be inverse pairs; ignored-tag operations untouched, sub-circuits untouched unless deep, argument unchanged.',
    note='Level translation_validation: the quantifier over programs is sampled for every rewriting pass; only the reorder-only family is decided by a theorem applied to each real output (and eject_z by a model theorem plus correspondence over a restricted alphabet). Trusted: Coq kernel (primitive floats for the float-instance theorem); float instance (tolerance 1e-6) for the numeric comparison; each operation\'s own cirq.unitary / cirq.kraus / measurement description (tied to the documented matrices by C03/C04/C09) and CircuitOperation.mapped_circuit for flattening (C12); Python adapters (operation identification by Cirq equality, resources through cirq.measurement_key_objs / cirq.control_keys, cirq.phase_by as the phased gate of the eject_z correspondence). Routing, target gatesets and analytical decompositions exported from the same package belong to C07/C15; map_clean_and_borrowable_qubits is not exercised; RandomizedMeasurements changes the measured basis by design.',
    technique='Rocq/Coq proof of a sound and complete trace-equivalence validator + exact gauge identities in Q(zeta_8) + model of the eject_z loop with its invariant + vm_compute translation validation of every transformer output against the reference semantics',
)

TOL = '0x1p-20'
PRE_NUM = gates.COQ_HEADER + 'From VF Require Import Sim.Ref Sim.Measure Base.Trace Xform.Validate Xform.PauliMeas.\n'
PRE_TRACE = ('From Coq Require Import List Bool.\nFrom VF Require Import Base.Harness Base.Trace.\nImport ListNotations.\n'
             'Definition T := mkTop.\n')

GAUGE_SEED = [0]
IGN = 'ign'          # the tag listed in tags_to_ignore
KEEP = 'keep'        # an innocent tag
UNROLL = 'unroll'    # tags_to_check for the unroll primitives

# --------------------------------------------------------------------------------------------------------------------
# Frozen classification of everything `cirq.transformers` exports.
#   reorder  : documented effect is "move / re-tag, never change": validated exactly by trace_equiv_b AND numerically
#   semantic : rewrites operations: validated numerically through the reference semantics
#   special  : documented contract differs from plain equivalence (named in CONTRACTS below)
#   api      : not a circuit-to-circuit map (classes, decorator, enums)
#   other    : belongs to another property (routing/gatesets -> C07, analytical/heuristic decompositions -> C15)
CLASSIFICATION = {
    'align_left': 'reorder', 'align_right': 'reorder', 'stratified_circuit': 'reorder',
    'synchronize_terminal_measurements': 'reorder', 'drop_empty_moments': 'reorder',
    'index_tags': 'reorder', 'remove_tags': 'reorder', 'toggle_tags': 'reorder',
    'unroll_circuit_op': 'reorder', 'unroll_circuit_op_greedy_earliest': 'reorder', 'unroll_circuit_op_greedy_frontier': 'reorder',
    'map_moments': 'reorder', 'map_operations': 'reorder', 'map_operations_and_unroll': 'reorder',
    'expand_composite': 'semantic', 'eject_z': 'semantic', 'eject_phased_paulis': 'semantic',
    'drop_negligible_operations': 'semantic', 'drop_diagonal_before_measurement': 'semantic',
    'merge_single_qubit_gates_to_phased_x_and_z': 'semantic', 'merge_single_qubit_gates_to_phxz': 'semantic',
    'merge_single_qubit_moments_to_phxz': 'semantic', 'merge_k_qubit_unitaries': 'semantic',
    'merge_k_qubit_unitaries_to_circuit_op': 'semantic', 'merge_operations': 'semantic',
    'merge_operations_to_circuit_op': 'semantic', 'merge_moments': 'semantic', 'merge_moments_batch': 'semantic',
    'insertion_sort_transformer': 'semantic', 'add_dynamical_decoupling': 'semantic',
    'optimize_for_target_gateset': 'semantic',
    'CZGaugeTransformer': 'semantic', 'SqrtCZGaugeTransformer': 'semantic', 'ISWAPGaugeTransformer': 'semantic',
    'SqrtISWAPGaugeTransformer': 'semantic', 'SpinInversionGaugeTransformer': 'semantic', 'CPhaseGaugeTransformerMM': 'semantic',
    'defer_measurements': 'special', 'dephase_measurements': 'special', 'drop_terminal_measurements': 'special',
    'lightcone_filter': 'special', 'merge_single_qubit_gates_to_phxz_symbolized': 'special',
    'symbolize_single_qubit_gates_by_indexed_tags': 'special', 'map_clean_and_borrowable_qubits': 'special',
    'RandomizedMeasurements': 'special',
    'ConstantGauge': 'api', 'Gauge': 'api', 'GaugeSelector': 'api', 'GaugeTransformer': 'api', 'LogLevel': 'api',
    'SymbolizeTag': 'api', 'TRANSFORMER': 'api', 'TransformerContext': 'api', 'TransformerLogger': 'api', 'transformer': 'api',
    'create_transformer_with_kwargs': 'api',
    'AbstractInitialMapper': 'other', 'HardCodedInitialMapper': 'other', 'LineInitialMapper': 'other', 'MappingManager': 'other',
    'RouteCQC': 'other', 'routed_circuit_with_mapping': 'other',
    'CZTargetGateset': 'other', 'CompilationTargetGateset': 'other', 'SqrtIswapTargetGateset': 'other',
    'TwoQubitCompilationTargetGateset': 'other',
    'TwoQubitGateTabulation': 'other', 'TwoQubitGateTabulationResult': 'other', 'two_qubit_gate_product_tabulation': 'other',
    'compute_cphase_exponents_for_fsim_decomposition': 'other', 'decompose_clifford_tableau_to_operations': 'other',
    'decompose_cphase_into_two_fsim': 'other', 'decompose_multi_controlled_rotation': 'other', 'decompose_multi_controlled_x': 'other',
    'decompose_two_qubit_interaction_into_four_fsim_gates': 'other', 'is_negligible_turn': 'other',
    'parameterized_2q_op_to_sqrt_iswap_operations': 'other', 'prepare_two_qubit_state_using_cz': 'other',
    'prepare_two_qubit_state_using_iswap': 'other', 'prepare_two_qubit_state_using_sqrt_iswap': 'other',
    'quantum_shannon_decomposition': 'other', 'single_qubit_matrix_to_gates': 'other',
    'single_qubit_matrix_to_pauli_rotations': 'other', 'single_qubit_matrix_to_phased_x_z': 'other',
    'single_qubit_matrix_to_phxz': 'other', 'single_qubit_op_to_framed_phase_form': 'other',
    'three_qubit_matrix_to_operations': 'other', 'two_qubit_matrix_to_cz_isometry': 'other',
    'two_qubit_matrix_to_cz_operations': 'other', 'two_qubit_matrix_to_diagonal_and_cz_operations': 'other',
    'two_qubit_matrix_to_ion_operations': 'other', 'two_qubit_matrix_to_sqrt_iswap_operations': 'other',
    'unitary_to_pauli_string': 'other',
}
# what the sub-package cirq.transformers.gauge_compiling exports in addition (not re-exported by cirq.transformers); frozen likewise
GC_CLASSIFICATION = {
    'CPhaseGaugeTransformer': 'semantic', 'IdleMomentsGauge': 'semantic',
    'MultiMomentGaugeTransformer': 'api', 'TwoQubitGateSymbolizer': 'api',
}
# special contracts (what is compared instead of plain equivalence)
CONTRACTS = {
    'defer_measurements': 'records and state on the original qubits are compared after tracing out the ancilla qubits the transformer adds',
    'dephase_measurements': 'the state averaged over all measurement records is compared (measurements become dephasing channels); classical control raises ValueError (documented)',
    'drop_terminal_measurements': 'measuring the measured qubits of the output plainly (no inversion) under the same keys must reproduce the input; non-terminal measurements / deep=False raise ValueError (documented)',
    'lightcone_filter': 'only the joint distribution of measurement records is compared (operations outside the backward light cone are dropped by design)',
    'merge_single_qubit_gates_to_phxz_symbolized': 'the output resolved with each returned resolver is compared with the input resolved with the corresponding input resolver',
    'symbolize_single_qubit_gates_by_indexed_tags': 'exercised through merge_single_qubit_gates_to_phxz_symbolized (its only caller); not run on its own',
    'map_clean_and_borrowable_qubits': 'not exercised: correctness depends on the caller\'s clean/borrowed ancilla discipline, which the property does not state',
    'RandomizedMeasurements': 'not applicable: documented to change the measured basis (appends random single-qubit unitaries); only "input not modified" is checked',
}


def exported(cirq):
    t = cirq.transformers
    return sorted(n for n in dir(t) if not n.startswith('_') and not isinstance(getattr(t, n), types.ModuleType))


def exported_gauge_compiling(cirq):
    """names exported by cirq.transformers.gauge_compiling that cirq.transformers does not re-export"""
    t, gc = cirq.transformers, cirq.transformers.gauge_compiling
    return sorted(n for n in dir(gc) if not n.startswith('_') and not isinstance(getattr(gc, n), types.ModuleType) and not hasattr(t, n))


# --------------------------------------------------------------------------------------------------------------------
# circuits
def flatten_ops(cirq, circuit):
    """All operations in execution order, CircuitOperations replaced (recursively) by their mapped circuit."""
    out = []
    for op in circuit.all_operations():
        if isinstance(op.untagged, cirq.CircuitOperation):
            out.extend(flatten_ops(cirq, op.untagged.mapped_circuit(deep=False)))
        else:
            out.append(op)
    return out


def snapshot(cirq, circuit):
    """Deep structural snapshot (text of every moment / operation / nested circuit, tags included)."""
    def op_s(op):
        if isinstance(op.untagged, cirq.CircuitOperation):
            return ('cop', repr(op.tags), repr(op.untagged.replace(circuit=cirq.FrozenCircuit())), snap(op.untagged.circuit))
        return ('op', repr(op))
    def snap(c):
        return (type(c).__name__, tuple(tuple(op_s(op) for op in m) for m in c), repr(getattr(c, 'tags', ())))
    return snap(circuit)


def op_term(cirq, op, axis_of, keyid):
    """Gallina mop for one operation through its own description.  opsem.op_to_mop covers unitaries, computational-basis
    measurements, classical control, channels and keyed channels (the index of the selected operator is the record); a
    Pauli-basis measurement enters through its signed observable (Xform/PauliMeas.v `pauli_meas`: the keyed pair of
    spectral projectors, C06_pauli_proj_table_spec), never through the implementation's own decomposition."""
    g = op.gate
    if isinstance(g, cirq.PauliMeasurementGate) and not isinstance(op.untagged, cirq.ClassicallyControlledOperation):
        if g.confusion_matrix is not None:
            raise opsem.Unsupported('Pauli measurement with a confusion matrix')
        obs = g.observable()
        coef = complex(obs.coefficient)
        if coef not in (1, -1) or len(obs) > 3:
            raise opsem.Unsupported(f'Pauli measurement of {obs!r}')
        letters = '; '.join(('PI', 'PX', 'PY', 'PZ')[int(m)] for m in obs.pauli_mask)
        ax = [axis_of[q] for q in op.qubits]
        return f'(pauli_meas FOps {keyid(str(g.key))}%nat {"true" if coef == -1 else "false"} [{letters}] {gates.nlist(ax)})'
    return opsem.op_to_mop(cirq, op, axis_of, keyid)


def is_unitary_ops(cirq, ops):
    return all(cirq.has_unitary(op) and not cirq.is_measurement(op) and not cirq.control_keys(op) for op in ops)


def gop_list(cirq, ops, axis_of):
    items = []
    for op in ops:
        u = cirq.unitary(op)
        items.append(f'({opsem.mat_term(u, cirq.qid_shape(op))}, {gates.nlist([axis_of[q] for q in op.qubits])})')
    return '[' + ';\n '.join(items) + ']'


def mop_list(cirq, ops, axis_of, keyid):
    return '[' + ';\n '.join(op_term(cirq, op, axis_of, keyid) for op in ops) + ']'


def rand_state(rng, dim):
    v = np.array([complex(rng.gauss(0, 1), rng.gauss(0, 1)) for _ in range(dim)])
    return v / np.linalg.norm(v)


def terminally_measured(cirq, ops):
    last = {}
    for op in ops:
        for q in op.qubits:
            last[q] = op
    return {q for q, op in last.items() if isinstance(op.gate, cirq.MeasurementGate)}


def semantic_check(cirq, rng, ops_in, ops_out, contract='same'):
    """Gallina boolean comparing two flattened operation lists; returns (expr, kind) or raises opsem.Unsupported."""
    if contract == 'drop_terminal':
        # documented: "identity or X gates in place of terminal measurements": measuring the same qubits plainly reproduces the records
        dropped = multiset_missing([op for op in ops_in if isinstance(op.gate, cirq.MeasurementGate)], list(ops_out))
        kept_keys = {str(op.gate.key) for op in ops_out if isinstance(op.gate, cirq.MeasurementGate)}
        if any(str(op.gate.key) in kept_keys for op in dropped):
            raise opsem.Unsupported('drop_terminal_measurements: a repeated key is partly retained (ignored tag): record order is not defined by the contract')
        ops_out = list(ops_out) + [cirq.MeasurementGate(len(op.qubits), key=op.gate.mkey, qid_shape=cirq.qid_shape(op)).on(*op.qubits) for op in dropped]
        contract = 'same'
    qs_in = sorted({q for op in ops_in for q in op.qubits})
    extra = sorted({q for op in ops_out for q in op.qubits} - set(qs_in))
    if extra and contract != 'defer':
        # operations on wires the input never used: they start in |0> like every wire
        qs_in = sorted(qs_in + extra)
        extra = []
    qs_out = qs_in + extra
    ax_in = {q: i for i, q in enumerate(qs_in)}
    ax_out = {q: i for i, q in enumerate(qs_out)}
    sh_in = [q.dimension for q in qs_in]
    sh_out = [q.dimension for q in qs_out]
    if len(qs_out) > 7:
        raise opsem.Unsupported('too many wires')
    if contract == 'same' and is_unitary_ops(cirq, ops_in) and is_unitary_ops(cirq, ops_out):
        return (f'fcll_close_phase {TOL} (circ_unitary FOps {gates.nlist(sh_in)} {gop_list(cirq, ops_in, ax_in)}) '
                f'(circ_unitary FOps {gates.nlist(sh_in)} {gop_list(cirq, ops_out, ax_out)})'), 'unitary'
    keyid = opsem.KeyIds()
    m_in = mop_list(cirq, ops_in, ax_in, keyid)
    m_out = mop_list(cirq, ops_out, ax_out, keyid)
    nkeys = len(keyid.ids)
    dim = int(np.prod(sh_in)) if sh_in else 1
    init = rand_state(rng, dim)
    init_out = init
    for q in extra:
        e0 = np.zeros(q.dimension)
        e0[0] = 1
        init_out = np.kron(init_out, e0)
    term = terminally_measured(cirq, ops_in)
    keep = [ax_in[q] for q in qs_in if q not in term]
    if contract == 'records':
        keep = []
    if contract == 'average':
        nkeys, keep = 0, list(range(len(qs_in)))
    return (f'dist_close {TOL} {nkeys} {gates.nlist(sh_in)} {gates.nlist(keep)} (exec FOps {gates.nlist(sh_in)} {m_in} {gates.fvec(init)}) '
            f'{gates.nlist(sh_out)} {gates.nlist(keep)} (exec FOps {gates.nlist(sh_out)} {m_out} {gates.fvec(init_out)})'), 'distribution'


# ---- trace (reorder-only) validation ----
def op_resources(cirq, op, qid, keyid):
    wr = [qid[q] for q in op.qubits] + [1000 + keyid(str(k)) for k in sorted(cirq.measurement_key_objs(op), key=str)]
    rd = [1000 + keyid(str(k)) for k in sorted(cirq.control_keys(op), key=str)]
    return wr, rd


def trace_terms(cirq, ref_ops, out_ops, same):
    """Identify each output operation with an input operation (k-th equal with k-th equal) and emit both traces."""
    # operations without qubits and keys (global phases) cannot change what is computed up to global phase: not traced
    has_res = lambda op: bool(op.qubits) or bool(cirq.measurement_key_objs(op)) or bool(cirq.control_keys(op))
    ref_ops, out_ops = [op for op in ref_ops if has_res(op)], [op for op in out_ops if has_res(op)]
    qs = sorted({q for op in list(ref_ops) + list(out_ops) for q in op.qubits})
    qid = {q: i for i, q in enumerate(qs)}
    keyid = opsem.KeyIds()
    used = [False] * len(ref_ops)
    w = [(i,) + op_resources(cirq, op, qid, keyid) for i, op in enumerate(ref_ops)]
    w2, fresh = [], len(ref_ops)
    for o in out_ops:
        j = next((j for j, r in enumerate(ref_ops) if not used[j] and same(r, o)), None)
        if j is None:
            uid, fresh = fresh, fresh + 1
        else:
            used[j] = True
            uid = j
        w2.append((uid,) + op_resources(cirq, o, qid, keyid))
    lit = lambda t: '[' + '; '.join(f'T {u} {gates.nlist(a)} {gates.nlist(b)}' for u, a, b in t) + ']'
    has_rd = any(t[2] for t in w + w2)
    expr = f'trace_equiv_b {lit(w)} {lit(w2)}'
    if not has_rd and all(t[1] for t in w):
        expr = f'({expr} && proj_equiv_b {lit(w)} {lit(w2)})'      # the two proven validators must agree when all resources are exclusive
    return expr


def eq_plain(a, b):
    return a == b


def eq_untagged(a, b):
    return a.untagged == b.untagged


def nested_pairs(cirq, ops_a, ops_b, same, deep):
    """Pairs of operation lists to validate: the given level, and (deep) each matched pair of sub-circuits."""
    if not deep:
        return [(ops_a, ops_b, same)]
    def shell(x):
        return x.untagged.replace(circuit=cirq.FrozenCircuit()).with_tags(*x.tags)
    def same_mod(a, b):
        if isinstance(a.untagged, cirq.CircuitOperation) and isinstance(b.untagged, cirq.CircuitOperation):
            return same(shell(a), shell(b)) and set(a.qubits) == set(b.qubits)
        return same(a, b)
    pairs = [(ops_a, ops_b, same_mod)]
    used = set()
    for a in ops_a:
        if isinstance(a.untagged, cirq.CircuitOperation):
            j = next((j for j, b in enumerate(ops_b) if j not in used and same_mod(a, b)), None)
            if j is not None:
                used.add(j)
                pairs.extend(nested_pairs(cirq, list(a.untagged.circuit.all_operations()), list(ops_b[j].untagged.circuit.all_operations()), same, True))
    return pairs


def trace_pairs(cirq, cin, cout, deep, same=eq_plain):
    return nested_pairs(cirq, list(cin.all_operations()), list(cout.all_operations()), same, deep)


# ---- python oracles on the real objects ----
def collect_ignored(cirq, circuit, deep):
    out = []
    for op in circuit.all_operations():
        if IGN in op.tags:
            out.append(op)
        elif deep and isinstance(op.untagged, cirq.CircuitOperation):
            out.extend(collect_ignored(cirq, op.untagged.circuit, deep))
    return out


def ignored_missing(cirq, cin, cout, deep):
    """Ignored-tag operations of cin that are not (equal) in cout.  With deep=True the operations inside a sub-circuit are
    compared inside the matching sub-circuit operation of the output; a sub-circuit operation that does not itself carry the
    tag and was replaced as a whole (dropped as negligible, merged as an opaque unitary, unrolled) is not descended into."""
    tops_in = [op for op in cin.all_operations() if IGN in op.tags]
    tops_out = [op for op in cout.all_operations() if IGN in op.tags]
    miss = multiset_missing(tops_in, tops_out)
    if deep:
        shell = lambda x: x.untagged.replace(circuit=cirq.FrozenCircuit()).with_tags(*x.tags)
        outs = [op for op in cout.all_operations() if isinstance(op.untagged, cirq.CircuitOperation) and IGN not in op.tags]
        for a in cin.all_operations():
            if isinstance(a.untagged, cirq.CircuitOperation) and IGN not in a.tags:
                j = next((j for j, b in enumerate(outs) if shell(a) == shell(b)), None)
                if j is not None:
                    miss.extend(ignored_missing(cirq, a.untagged.circuit, outs.pop(j).untagged.circuit, True))
    return miss


def multiset_missing(xs, ys):
    """elements of xs (with multiplicity) that are not in ys"""
    ys = list(ys)
    missing = []
    for x in xs:
        for j, y in enumerate(ys):
            if x == y:
                del ys[j]
                break
        else:
            missing.append(x)
    return missing


def unmeasured_reads(cirq, circuit):
    """Measurement keys that some operation of the (flattened) circuit reads (classical control) although no earlier operation
    records them: such a circuit cannot be executed, it has no meaning to compare."""
    have, bad = set(), []
    for op in flatten_ops(cirq, circuit):
        for k in sorted(map(str, cirq.control_keys(op))):
            if k not in have and k not in bad:
                bad.append(k)
        have.update(map(str, cirq.measurement_key_objs(op)))
    return bad


def record_consumed(cirq, circuit):
    """True iff the record of some measurement is read by a later classically controlled operation."""
    have = set()
    for op in flatten_ops(cirq, circuit):
        if have & set(map(str, cirq.control_keys(op))):
            return True
        have.update(map(str, cirq.measurement_key_objs(op)))
    return False


def top_circuit_ops(cirq, circuit):
    return [op for op in circuit.all_operations() if isinstance(op.untagged, cirq.CircuitOperation)]


# --------------------------------------------------------------------------------------------------------------------
# generators
UNITARY_FAMS = ['XPow', 'YPow', 'ZPow', 'HPow', 'CZPow', 'CXPow', 'SwapPow', 'ISwapPow', 'ZZPow', 'XXPow', 'Rx', 'Rz', 'Ry', 'FSim',
                'PhasedX', 'PhasedXZ', 'PhasedISwap', 'CCZPow', 'CCXPow', 'Matrix', 'Identity', 'GlobalPhase', 'CSwap', 'Diagonal']


def keys_stay_inside(cirq, c, i, j):
    """True iff the moments c[i:j] can be given a key path of their own without changing what the circuit reads: no later operation
    reads a key measured in them, and every key read in them is measured in them in an earlier moment."""
    inner = {str(k) for m in c[i:j] for op in m for k in cirq.measurement_key_objs(op)}
    if any(inner & set(map(str, cirq.control_keys(op))) for m in c[j:] for op in m):
        return False
    have = set()
    for m in c[i:j]:
        if any(not set(map(str, cirq.control_keys(op))) <= have for op in m):
            return False
        have |= {str(k) for op in m for k in cirq.measurement_key_objs(op)}
    return True


def decorate(cirq, rng, c, tags=True, nest=True):
    """Random tags on operations; a random run of moments wrapped into a (possibly repeated / tagged) CircuitOperation."""
    if tags:
        def tag(op, _):
            r = rng.random()
            if r < 0.12:
                return op.with_tags(IGN)
            if r < 0.22:
                return op.with_tags(KEEP)
            if r < 0.26:
                return op.with_tags(KEEP, IGN)
            return op
        c = cirq.Circuit(cirq.Moment(tag(op, 0) for op in m) for m in c)
    if nest and len(c) >= 2 and rng.random() < 0.6:
        i = rng.randrange(0, len(c) - 1)
        j = rng.randint(i + 1, min(len(c), i + 3))
        sub = cirq.FrozenCircuit(c[i:j])
        if not list(sub.all_operations()):
            return c
        if not any(cirq.control_keys(op) - cirq.measurement_key_objs(sub) for op in sub.all_operations()) or True:
            cop = cirq.CircuitOperation(sub)
            r = rng.random()
            if r < 0.25 and not cirq.measurement_key_objs(sub) and not cirq.control_keys(sub):
                cop = cop.repeat(2)
            elif r < 0.5 and cirq.measurement_key_objs(sub) and keys_stay_inside(cirq, c, i, j):
                # the keys measured inside get a path: two repetitions with repetition ids ('0:a', '1:a'), or a key path prefix
                cop = cop.repeat(2, use_repetition_ids=True) if r < 0.4 else cop.with_key_path((rng.choice('AB'),))
            tagsel = rng.random()
            top = cop.with_tags(IGN) if tagsel < 0.2 else (cop.with_tags(UNROLL) if tagsel < 0.55 else cop)
            c = cirq.Circuit(list(c[:i]) + [cirq.Moment([top])] + list(c[j:]))
    return c


def gen_unitary(cirq, rng, max_wires=4, max_ops=10, qudits=False, fams=None):
    case = gcirc.random_case(rng, max_wires=max_wires, max_ops=max_ops, qudits=qudits, families=fams or UNITARY_FAMS, min_wires=2)
    c, qs = case.circuit(cirq)
    return c


def gen_measured(cirq, rng, cc=True, confusion=True, mid=True, wires=None, max_digits=3):
    c, qs = mcircuits.random_mcircuit(cirq, rng, wires=wires or rng.randint(2, 3), qudits=False, mid=mid, cc=cc, channels=False,
                                      max_ops=8, max_digits=max_digits, confusion=confusion, resets=False)
    return c


def rand_1q(cirq, rng, paulis=0.0):
    if rng.random() < paulis:        # full flips W(a) = PhasedX(a)^1, X, Y and Z^t: what eject_phased_paulis / eject_z hold and push
        r = rng.random()
        if r < 0.35:
            return cirq.PhasedXPowGate(phase_exponent=gates.draw_exp(rng), exponent=1.0)
        if r < 0.55:
            return rng.choice([cirq.X, cirq.Y])
        if r < 0.8:
            return cirq.Z ** gates.draw_exp(rng)
        return cirq.PhasedXZGate(x_exponent=1.0, z_exponent=gates.draw_exp(rng), axis_phase_exponent=gates.draw_exp(rng))
    r = rng.random()
    e = gates.draw_exp(rng)
    if r < 0.2:
        return cirq.Z ** e
    if r < 0.35:
        return cirq.X ** e
    if r < 0.45:
        return cirq.Y ** e
    if r < 0.6:
        return cirq.PhasedXPowGate(phase_exponent=gates.draw_exp(rng), exponent=e)
    if r < 0.75:
        return cirq.PhasedXZGate(x_exponent=e, z_exponent=gates.draw_exp(rng), axis_phase_exponent=gates.draw_exp(rng))
    if r < 0.85:
        return cirq.H
    if r < 0.92:
        return rng.choice([cirq.X, cirq.Y, cirq.Z, cirq.S, cirq.T, cirq.I])
    return cirq.rz(gates.draw_angle(rng))


def rand_measlike(cirq, rng, free, key, channels=True, plain=0.15):
    """One measurement-like operation (cirq.is_measurement) on qubits drawn from `free`: a computational-basis measurement, a
    Pauli-basis measurement (1-2 qubits, letters X/Y/Z, sign +1/-1) or a keyed channel (records which operator was applied).
    Every one of them records a single bit, so keys may repeat."""
    r = rng.random()
    if r < plain:
        return cirq.measure(rng.choice(free), key=key, invert_mask=(rng.random() < 0.3,))
    if channels and r < plain + 0.17:
        q = rng.choice(free)
        if rng.random() < 0.5:
            pr = rng.choice([0.25, 0.5])
            return cirq.MixedUnitaryChannel([(1 - pr, np.eye(2)), (pr, cirq.unitary(rng.choice([cirq.X, cirq.Y, cirq.H, cirq.S])))], key=key).on(q)
        g = rng.choice([0.2, 0.36])
        return cirq.KrausChannel([np.array([[1, 0], [0, math.sqrt(1 - g)]]), np.array([[0, math.sqrt(g)], [0, 0]])], key=key).on(q)
    k = 2 if (len(free) >= 2 and rng.random() < 0.3) else 1
    qs = rng.sample(list(free), k)
    letters = ''.join(rng.choice('XXYYZ') for _ in qs)
    return cirq.PauliMeasurementGate(cirq.DensePauliString(letters, coefficient=rng.choice([1, 1, -1])), key=key).on(*qs)


def gen_layers(cirq, rng, twoq=None, n=None, depth=None, measured=False, cc=False, paulis=0.0, general=False, channels=True):
    """Alternating moments of single-qubit gates (some qubits idle) and two-qubit gates, optional measurements / control.
    general=True: the measuring operations are measurement-like operations of every kind (rand_measlike), more of them
    mid-circuit, and at least one of them is not a cirq.MeasurementGate."""
    n = n or rng.randint(2, 4)
    qs = cirq.LineQubit.range(n)
    twoq = twoq or [cirq.CZ, cirq.CZ ** 0.5, cirq.ISWAP, cirq.CNOT, cirq.SWAP, cirq.CZ ** gates.draw_exp(rng)]
    moments = []
    keys_seen = []
    nrec = 0
    for d in range(depth or rng.randint(3, 7)):
        r = rng.random()
        if r < 0.5:
            moments.append(cirq.Moment(rand_1q(cirq, rng, paulis).on(q) for q in qs if rng.random() < 0.7))
        elif r < (0.8 if general else 0.9) or not measured or (general and nrec >= 3):
            order = list(qs)
            rng.shuffle(order)
            ops_ = []
            for a, b in zip(order[::2], order[1::2]):
                if rng.random() < 0.8:
                    ops_.append(rng.choice(twoq).on(a, b))
            rest = [q for q in qs if not any(q in o.qubits for o in ops_)]
            for q in rest:
                if rng.random() < 0.3:
                    g = rng.choice([cirq.Z ** gates.draw_exp(rng), cirq.X, cirq.Y, cirq.Z, cirq.I])
                    o = g.on(q)
                    if cc and keys_seen and rng.random() < 0.5:
                        o = o.with_classical_controls(rng.choice(keys_seen))
                    ops_.append(o)
            moments.append(cirq.Moment(ops_))
        else:
            key = rng.choice(['a', 'b'])
            if general:
                moments.append(cirq.Moment([rand_measlike(cirq, rng, list(qs), key, channels=channels)]))
            else:
                moments.append(cirq.Moment([cirq.measure(rng.choice(qs), key=key)]))
            keys_seen.append(key)
            nrec += 1
    c = cirq.Circuit(moments)
    if measured and not general:
        k = rng.randint(1, min(n, 2))
        c.append(cirq.Moment([cirq.measure(*rng.sample(list(qs), k), key='m')]))
    elif measured:
        free, last = list(qs), []
        for key in ('m', 'n')[:rng.randint(1, 2)]:
            # the first terminal one is never a plain measurement: the class is present in every generated circuit
            o = rand_measlike(cirq, rng, free, key, channels=channels, plain=0.0 if key == 'm' else 0.3)
            if key == 'm' and not isinstance(o.gate, cirq.PauliMeasurementGate) and rng.random() < 0.5:
                o = rand_measlike(cirq, rng, free, key, channels=False, plain=0.0)
            last.append(o)
            free = [q for q in free if q not in o.qubits]
            if not free:
                break
        c.append(cirq.Moment(last))
    return c


def gen_ejectable(cirq, rng, measured=False, general=False):
    twoq = [cirq.CZ, cirq.CZ ** gates.draw_exp(rng), cirq.SWAP, cirq.ISWAP, cirq.ISWAP ** 0.5, cirq.CNOT, cirq.ZZ ** gates.draw_exp(rng),
            cirq.FSimGate(gates.draw_angle(rng), gates.draw_angle(rng)), cirq.PhasedISwapPowGate(phase_exponent=gates.draw_exp(rng), exponent=rng.choice([1.0, 0.5, -1.0])),
            cirq.SwapPowGate(exponent=rng.choice([1.0, -1.0, 3.0, 0.5]), global_shift=rng.choice([0.0, 0.5])),
            cirq.ISwapPowGate(exponent=rng.choice([1.0, -1.0, 3.0]), global_shift=rng.choice([0.0, -0.5]))]
    c = gen_layers(cirq, rng, twoq=twoq, measured=measured, cc=measured and rng.random() < 0.5, paulis=0.5, general=general)
    return c


def alphabet_pool(cirq):
    """Gates whose commutation / merging behaviour depends on WHICH of their qubits a neighbour touches (control vs target,
    diagonal vs not) next to symmetric ones."""
    return [cirq.CNOT, cirq.CNOT, cirq.CZ, cirq.X, cirq.Z, cirq.H, cirq.Y, cirq.S, cirq.T, cirq.SWAP, cirq.ISWAP, cirq.CZ ** 0.5,
            cirq.X ** 0.5, cirq.ControlledGate(cirq.Y), cirq.ControlledGate(cirq.H), cirq.CCX, cirq.CCZ, cirq.CSWAP, cirq.ZZ ** 0.25,
            cirq.XX ** 0.5, cirq.ControlledGate(cirq.Z, control_values=[0]), cirq.rx(0.5)]


def gen_alphabet(cirq, rng, n=None):
    """Many operations over FEW distinct gates (2-4 per circuit) on 3-4 qubits: the same gate recurs on different qubits, in
    different orientations and with different neighbours - the inputs on which anything a transformer remembers per gate
    (instead of per operation) goes wrong."""
    n = n or rng.randint(3, 4)
    qs = cirq.LineQubit.range(n)
    pool = [g for g in alphabet_pool(cirq) if cirq.num_qubits(g) <= n]
    two = [g for g in pool if cirq.num_qubits(g) >= 2]
    one = [g for g in pool if cirq.num_qubits(g) == 1]
    alphabet = [rng.choice(two), rng.choice(one)] + [rng.choice(pool) for _ in range(rng.randint(0, 2))]
    c = cirq.Circuit()
    for _ in range(rng.randint(4, 12)):
        g = rng.choice(alphabet)
        c.append(g.on(*rng.sample(list(qs), cirq.num_qubits(g))),
                 strategy=cirq.InsertStrategy.NEW if rng.random() < 0.15 else cirq.InsertStrategy.EARLIEST)
    return c


def idle_custom_gauges(cirq):
    """a custom gauge tuple for IdleMomentsGauge: not Paulis, not all Clifford, not self-inverse"""
    return (cirq.T, cirq.X ** 0.5, cirq.H, cirq.PhasedXZGate(x_exponent=0.25, z_exponent=0.5, axis_phase_exponent=0.125), cirq.S ** -1)


def idle_1q(cirq, rng):
    """single-qubit gates next to idle windows: mostly gates that do not commute with Paulis / Cliffords up to a phase"""
    r = rng.random()
    if r < 0.5:
        return rng.choice([cirq.H, cirq.T, cirq.X ** 0.5, cirq.S, cirq.Y ** 0.25, cirq.X ** -0.25, cirq.Z ** 0.3, cirq.H ** 0.5])
    if r < 0.65:
        return rng.choice([cirq.X, cirq.Y, cirq.Z, cirq.I])
    return rand_1q(cirq, rng)


def gen_idle(cirq, rng, measured=False):
    """Sparse circuits: every qubit has runs of moments in which it is idle while another qubit is busy (idle windows of length
    1-5), opened and closed by every kind of operation: single-qubit gates (Pauli or not), two-qubit gates, the circuit ends;
    measured=True adds a two-qubit measurement mid-circuit, operations controlled by its record and terminal measurements
    (joint, sometimes one per qubit)."""
    n = rng.randint(2, 3)
    qs = cirq.LineQubit.range(n)
    depth = rng.randint(5, 9)
    two = [cirq.CZ, cirq.CNOT, cirq.ISWAP ** 0.5, cirq.CZ ** 0.5]
    moments = []
    mid = rng.randint(1, depth - 2) if measured else None
    have_key = False
    for d in range(depth):
        free = list(qs)
        rng.shuffle(free)
        ops_ = []
        if d == mid:
            a, b = free.pop(), free.pop()
            ops_.append(cirq.measure(a, b, key='a'))
        elif rng.random() < 0.25:
            a, b = free.pop(), free.pop()
            ops_.append(rng.choice(two).on(a, b))
        for q in free:
            r = rng.random()
            if r < 0.35:
                ops_.append(idle_1q(cirq, rng).on(q))
            elif r < 0.45 and have_key:
                ops_.append(rng.choice([cirq.X, cirq.Z, cirq.H]).on(q).with_classical_controls('a'))
        if not ops_:
            ops_.append(idle_1q(cirq, rng).on(rng.choice(qs)))        # no empty moments: a busy qubit next to the idle ones
        moments.append(cirq.Moment(ops_))
        have_key = have_key or d == mid          # the record is read in later moments only
    if measured:
        if rng.random() < 0.7:
            moments.append(cirq.Moment([cirq.measure(*qs, key='m')]))
        else:
            moments.append(cirq.Moment([cirq.measure(q, key=f'm{i}') for i, q in enumerate(qs)]))
    return cirq.Circuit(moments)


def placement_grid(cirq, rng):
    """Deterministic part of the 'few gates, many placements' class: for fixed gate pairs (A, B) whose commutation depends on the
    placement, every overlapping placement A(p), B(q) on three qubits is a block; one circuit per block starts with that block
    and continues with five other blocks in a drawn order, so every block is the first thing the transformer sees exactly once.
    Only the tail depends on the seed."""
    qs = cirq.LineQubit.range(3)
    pairs = [(cirq.CNOT, cirq.X), (cirq.CNOT, cirq.Z), (cirq.CNOT, cirq.CZ), (cirq.CNOT, cirq.CNOT), (cirq.ControlledGate(cirq.Y), cirq.S),
             (cirq.CCX, cirq.X), (cirq.ISWAP, cirq.Z)]
    out = []
    for A, B in pairs:
        na, nb = cirq.num_qubits(A), cirq.num_qubits(B)
        blocks = []
        for pa in itertools.permutations(qs, na):
            for pb in itertools.permutations(qs, nb):
                if set(pa) & set(pb) and not (A == B and pa == pb):
                    blocks.append([A.on(*pa), B.on(*pb)])
        for i, first in enumerate(blocks):
            rest = blocks[:i] + blocks[i + 1:]
            rng.shuffle(rest)
            tail = rest[:5]
            out.append((f'placement:{A}/{B}:{i}', cirq.Circuit([first] + tail)))
    return out


def measlike_grid(cirq):
    """Deterministic part of the 'measurement-like operation that is not a cirq.MeasurementGate' class: every kind of phase /
    flip a transformer may hold or drop (Z, S, T, Z**t, the z part of PhasedXZ, X, Y, PhasedX flips, CZ**t) directly in front
    of Pauli-basis measurements in the X, Y, Z bases (both signs, one and two qubits) and of keyed channels, plus the same after
    a swap-like gate and with a classically controlled operation reading the recorded bit."""
    q0, q1, q2 = cirq.LineQubit.range(3)
    def pm(s, key, *qs, c=1):
        return cirq.PauliMeasurementGate(cirq.DensePauliString(s, coefficient=c), key=key).on(*qs)
    flip = cirq.MixedUnitaryChannel([(0.75, np.eye(2)), (0.25, cirq.unitary(cirq.X))], key='b')
    damp = cirq.KrausChannel([np.array([[1, 0], [0, math.sqrt(0.64)]]), np.array([[0, 0.6], [0, 0]])], key='c')
    M = cirq.Moment
    return [
        ('z-phase before X/Y/-X', cirq.Circuit(M(cirq.H(q0), cirq.H(q1), cirq.H(q2)), M(cirq.Z(q0), cirq.S(q1), cirq.T(q2)),
                                               M(pm('X', 'a', q0), pm('Y', 'b', q1), pm('X', 'c', q2, c=-1)))),
        ('z-phase before XX, Z control', cirq.Circuit(M(cirq.H(q0), cirq.X(q2) ** 0.4), M(cirq.CNOT(q0, q1), cirq.Z(q2)), M(cirq.Z(q1) ** 0.3),
                                                      M(pm('XX', 'a', q0, q1), pm('Z', 'b', q2)))),
        ('phxz / keyed channels', cirq.Circuit(M(cirq.H(q0), cirq.H(q1), cirq.Y(q2) ** 0.3),
                                               M(cirq.PhasedXZGate(x_exponent=0.5, z_exponent=0.25, axis_phase_exponent=0.125).on(q0), cirq.Z(q1) ** -0.5, cirq.S(q2)),
                                               M(pm('Y', 'a', q0), flip.on(q1), damp.on(q2)), M(cirq.H(q1)), M(cirq.measure(q1, key='m')))),
        ('pauli flips before Y/X/Z', cirq.Circuit(M(cirq.H(q0), cirq.H(q1), cirq.X(q2) ** 0.25), M(cirq.X(q0), cirq.Y(q1), cirq.PhasedXPowGate(phase_exponent=0.25).on(q2)),
                                                  M(pm('Y', 'a', q0), pm('X', 'b', q1), pm('Z', 'c', q2, c=-1)))),
        ('mid-circuit, control, swap-like', cirq.Circuit(M(cirq.H(q0), cirq.H(q1)), M(cirq.S(q0)), M(pm('X', 'a', q0)), M(cirq.Z(q1).with_classical_controls('a')),
                                                         M(cirq.ISWAP(q0, q1)), M(cirq.T(q0)), M(pm('Y', 'b', q0), cirq.measure(q1, key='m')))),
        ('diagonal 2q before XY, keyed channel then X', cirq.Circuit(M(cirq.H(q0), cirq.H(q1), cirq.H(q2)), M(cirq.CZ(q0, q1) ** 0.5, cirq.Z(q2)),
                                                                    M(pm('XY', 'a', q0, q1), flip.on(q2)), M(cirq.S(q2)), M(pm('X', 'c', q2)))),
    ]


def keyflow_grid(cirq):
    """Deterministic part of the 'measurement that is the last operation on its qubits but whose record is consumed later' class:
    a classically controlled operation (key condition, sympy condition over a two-bit record, measurement inside a sub-circuit)
    on ANOTHER qubit reads the key, then that qubit is measured.  Every measurement is terminal as far as qubits go."""
    import sympy
    q0, q1, q2 = cirq.LineQubit.range(3)
    M = cirq.Moment
    return [
        ('record of a qubit-terminal measurement controls another qubit',
         cirq.Circuit(M(cirq.H(q0)), M(cirq.measure(q0, key='a')), M(cirq.X(q1).with_classical_controls('a')), M(cirq.measure(q1, key='b')))),
        ('two-bit record, sympy condition',
         cirq.Circuit(M(cirq.H(q0), cirq.X(q1) ** 0.5), M(cirq.measure(q0, q1, key='a', invert_mask=(True,))), M(cirq.H(q2)),
                      M(cirq.Z(q2).with_classical_controls(sympy.Symbol('a') >= 2)), M(cirq.H(q2)), M(cirq.measure(q2, key='b')))),
        ('measurement inside a sub-circuit, read outside',
         cirq.Circuit(M(cirq.CircuitOperation(cirq.FrozenCircuit(cirq.H(q0), cirq.measure(q0, key='a')))), M(cirq.Y(q1) ** 0.5),
                      M(cirq.X(q1).with_classical_controls('a')), M(cirq.measure(q1, key='b')))),
    ]


def ignored_grid(cirq):
    """Deterministic part of the 'operation carrying an ignored tag BETWEEN operations the transformer would otherwise combine,
    commute or drop' class (run with tags_to_ignore set): the tagged operation is diagonal or not, on one or two qubits, a
    measurement or a negligible gate; its neighbours are phases (Z, S, T, Z**t, CZ**t), Pauli flips, general single-qubit gates
    and mergeable two-qubit gates; the measured circuits end in measurements of the same qubits, so a phase / flip that is
    pushed through or dropped as if the tagged operation were not there (or commuted with everything) changes the records.
    Returns (name, circuit, measured?)."""
    q0, q1, q2 = cirq.LineQubit.range(3)
    M = cirq.Moment
    ig = lambda op: op.with_tags(IGN)
    meas3 = M(cirq.measure(q0, key='a'), cirq.measure(q1, key='b'), cirq.measure(q2, key='c'))
    return [
        # ---- measured
        ('phase, ignored non-diagonal 1q, measure', cirq.Circuit(M(cirq.H(q0), cirq.H(q1), cirq.H(q2)), M(cirq.Z(q0), cirq.S(q1), cirq.T(q2)),
                                                                M(ig(cirq.H(q0)), ig(cirq.X(q1) ** 0.5), ig(cirq.Y(q2) ** 0.25)), meas3), True),
        ('CZ**t, ignored non-diagonal on one leg, measure', cirq.Circuit(M(cirq.H(q0), cirq.H(q1), cirq.H(q2)), M(cirq.CZ(q0, q1)), M(cirq.CZ(q1, q2) ** 0.5),
                                                                        M(ig(cirq.H(q1)), cirq.Z(q2) ** 0.3), meas3), True),
        ('phase, ignored non-diagonal 2q, measure', cirq.Circuit(M(cirq.H(q0), cirq.H(q1), cirq.H(q2)), M(cirq.S(q0), cirq.Z(q1), cirq.Z(q2) ** -0.5),
                                                                M(ig(cirq.CNOT(q0, q1))), M(ig(cirq.ISWAP(q1, q2) ** 0.5)), meas3), True),
        ('phase, ignored diagonal, non-diagonal, measure', cirq.Circuit(M(cirq.H(q0), cirq.H(q1), cirq.X(q2) ** 0.3), M(cirq.Z(q0), cirq.CZ(q1, q2)), M(ig(cirq.Z(q0) ** 0.5), ig(cirq.CZ(q1, q2) ** 0.5)),
                                                                       M(cirq.H(q0), cirq.X(q1) ** 0.5), M(cirq.T(q0)), meas3), True),
        ('pauli flip, ignored op, measure', cirq.Circuit(M(cirq.X(q0) ** 0.3, cirq.H(q1), cirq.Y(q2) ** 0.2), M(cirq.X(q0), cirq.Y(q1), cirq.PhasedXPowGate(phase_exponent=0.25).on(q2)),
                                                        M(ig(cirq.S(q0)), ig(cirq.H(q1)), ig(cirq.T(q2))), M(cirq.X(q0) ** 0.5, cirq.Z(q1)), meas3), True),
        ('ignored mid-circuit measurement', cirq.Circuit(M(cirq.H(q0), cirq.H(q1)), M(cirq.S(q0), cirq.Z(q1)), M(ig(cirq.measure(q0, key='a'))), M(cirq.H(q0), ig(cirq.X(q1) ** 0.5)),
                                                        M(cirq.T(q0)), M(cirq.measure(q0, key='b'), cirq.measure(q1, key='c'))), True),
        # ---- unitary
        ('phase, ignored non-diagonal, phase', cirq.Circuit(M(cirq.X(q0) ** 0.3, cirq.H(q1)), M(cirq.Z(q0) ** 0.3, cirq.S(q1)), M(ig(cirq.H(q0)), ig(cirq.X(q1) ** 0.5)),
                                                           M(cirq.Z(q0) ** 0.2), M(cirq.CZ(q0, q1)), M(cirq.T(q1), cirq.H(q0))), False),
        ('pauli flip, ignored op, pauli flip', cirq.Circuit(M(cirq.X(q0), cirq.Y(q1)), M(ig(cirq.S(q0)), ig(cirq.H(q1))), M(cirq.X(q0), cirq.PhasedXPowGate(phase_exponent=0.125).on(q1)),
                                                           M(ig(cirq.CZ(q0, q1) ** 0.5)), M(cirq.Y(q0), cirq.X(q1) ** 0.5)), False),
        ('1q gates around ignored 1q / 2q', cirq.Circuit(M(cirq.H(q0), cirq.X(q1) ** 0.5), M(ig(cirq.T(q0)), ig(cirq.X(q1) ** 0.5)), M(cirq.H(q0), cirq.X(q1) ** 0.5),
                                                        M(ig(cirq.CNOT(q0, q1))), M(cirq.Y(q0) ** 0.25, cirq.H(q1)), M(ig(cirq.Z(q0) ** 1e-10))), False),
        ('2q gates around ignored equal 2q', cirq.Circuit(M(cirq.H(q0), cirq.H(q1), cirq.H(q2)), M(cirq.CZ(q0, q1)), M(ig(cirq.CZ(q0, q1)), cirq.Z(q2)), M(cirq.CZ(q0, q1) ** 0.5),
                                                         M(cirq.ISWAP(q1, q2)), M(ig(cirq.ISWAP(q1, q2)), ig(cirq.X(q0))), M(cirq.ISWAP(q1, q2) ** 0.5), M(cirq.ZZ(q0, q1) ** 0.3), M(ig(cirq.ZZ(q0, q1)))), False),
    ]


def swaplike_gates(cirq):
    """every representation of a gate that exchanges the two qubits up to phases (what a phase tracker must carry across)"""
    return [cirq.SWAP, cirq.ISWAP, cirq.ISWAP ** -1, cirq.FSimGate(theta=np.pi / 2, phi=0.3), cirq.ISWAP ** 3, cirq.FSimGate(theta=-np.pi / 2, phi=0.0)]


def absorb_grid(cirq):
    """Deterministic part of the 'something the transformer holds on a qubit; an operation it cannot carry it across; more of it;
    the end' class, for the phase / flip ejecting transformers: a holder on qubit a (a general PhasedXZ gate - whose z part
    eject_z keeps open for a later phase -, a PhasedXZ flip, a PhasedX flip), then a barrier (every swap-like gate, a one- and
    a two-qubit sub-circuit, a one- and a two-qubit operation carrying the ignored tag, a classically controlled operation),
    then a phase or a flip on the same qubit, then the end of the circuit / a gate that is opaque to phases / gates that take
    them; and the same one level down for deep=True.  Returns (name, circuit, deep)."""
    a, b = cirq.LineQubit.range(2)
    holders = [('PhXZ', cirq.PhasedXZGate(x_exponent=0.3, z_exponent=0.4, axis_phase_exponent=0.2)),
               ('PhXZ flip', cirq.PhasedXZGate(x_exponent=1.0, z_exponent=0.0, axis_phase_exponent=-0.25)),
               ('PhX flip', cirq.PhasedXPowGate(phase_exponent=0.25, exponent=1.0))]
    followers = [('Z**0.5', cirq.Z ** 0.5), ('Z**-0.3', cirq.Z ** -0.3), ('X', cirq.X)]
    barriers = [(str(g), lambda g=g: [g.on(a, b)]) for g in swaplike_gates(cirq)[:4]] + [
        ('sub-circuit(H)', lambda: [cirq.CircuitOperation(cirq.FrozenCircuit(cirq.H(a)))]),
        ('sub-circuit(CNOT,H)x2', lambda: [cirq.CircuitOperation(cirq.FrozenCircuit(cirq.CNOT(a, b), cirq.H(a))).repeat(2)]),
        ('H[ign]', lambda: [cirq.H(a).with_tags(IGN)]),
        ('CNOT[ign]', lambda: [cirq.CNOT(b, a).with_tags(IGN)]),
        ('X controlled by a record', lambda: [cirq.measure(b, key='m'), cirq.X(a).with_classical_controls('m')]),
    ]
    tails = [('end', lambda: []), ('H', lambda: [cirq.H(a)]), ('CZ, X**0.5', lambda: [cirq.CZ(a, b), cirq.X(b) ** 0.5])]
    out = []
    for (hn, h), (bn, mk) in itertools.product(holders, barriers):
        for ti, (tn, tail) in enumerate(tails):
            for fn, f in (followers if ti == 0 else followers[:1]):
                c = cirq.Circuit([cirq.Y(b) ** 0.25, h.on(a)] + mk() + [f.on(a)] + tail(), strategy=cirq.InsertStrategy.NEW)
                out.append((f'{hn}; {bn}; {fn}; {tn}', c, False))
    for (hn, h), (bn, mk) in itertools.product(holders, (barriers[0], barriers[3], barriers[6])):
        inner = cirq.FrozenCircuit([h.on(a)] + mk() + [cirq.Z(a) ** 0.5, cirq.H(b)], strategy=cirq.InsertStrategy.NEW)
        out.append((f'one level down: [{hn}; {bn}; Z**0.5; H]', cirq.Circuit(cirq.X(a) ** 0.5, cirq.CircuitOperation(inner), cirq.CZ(a, b)), True))
    return out


def nested_grid(cirq):
    """Deterministic part of the 'sub-circuits that the transformer has something to do in' class, run with deep=True on a mutable
    cirq.Circuit argument: the nested circuits hold empty moments, phases in front of flips, runs of single-qubit gates, composite
    gates, negligible gates, operations that can be moved left / right and (measured variant) phases in front of a measurement;
    repeated, tagged (innocent and ignored) and twice-nested sub-circuit operations.  Every oracle applies; in particular the
    argument, down to the innermost sub-circuit, must be what it was.  Returns (name, circuit, measured?, ignore?)."""
    q0, q1 = cirq.LineQubit.range(2)
    M = cirq.Moment
    sub1 = cirq.FrozenCircuit(M(cirq.H(q0), cirq.Z(q1) ** 0.25), M(), M(cirq.Z(q0), cirq.X(q1) ** 0.5), M(cirq.X(q0) ** 0.5, cirq.Z(q1) ** 1e-10),
                              M(cirq.CNOT(q0, q1)), M(cirq.S(q1)), M(cirq.Y(q0) ** 0.25))
    n1 = cirq.Circuit(M(cirq.X(q1)), M(), M(cirq.CircuitOperation(sub1).repeat(2)), M(cirq.T(q0)), M(cirq.H(q0)))
    inner = cirq.FrozenCircuit(M(cirq.Z(q0) ** 0.5), M(), M(cirq.X(q0) ** 0.5, cirq.H(q1)), M(cirq.CZ(q0, q1)), M(cirq.Y(q1)))
    mid = cirq.FrozenCircuit(M(cirq.H(q0)), M(cirq.CircuitOperation(inner)), M(), M(cirq.S(q0), cirq.T(q1)), M(cirq.X(q1)))
    n2 = cirq.Circuit(M(cirq.CircuitOperation(mid).with_tags(KEEP)), M(), M(cirq.CircuitOperation(inner).with_tags(IGN)), M(cirq.Y(q0) ** 0.5, cirq.Z(q1)),
                      M(cirq.CircuitOperation(inner)), M(cirq.ISWAP(q0, q1)))
    sub3 = cirq.FrozenCircuit(M(cirq.H(q0), cirq.X(q1) ** 0.5), M(), M(cirq.Z(q0) ** 0.5, cirq.S(q1)), M(cirq.CZ(q0, q1)), M(cirq.T(q0)), M(cirq.Z(q0)), M(cirq.measure(q0, key='a')))
    n3 = cirq.Circuit(M(cirq.X(q0) ** 0.3), M(cirq.CircuitOperation(sub3)), M(), M(cirq.H(q1)), M(cirq.Z(q1)), M(cirq.measure(q1, key='b')))
    return [('repeated sub-circuit', n1, False, False), ('twice nested, tagged sub-circuits', n2, False, True), ('sub-circuit ending in a measurement', n3, True, False)]


def dd_walls(cirq):
    """single-qubit gates a Pauli cannot be pulled through (not Clifford): what add_dynamical_decoupling must merge the pulled Paulis in front of"""
    return [('X**0.25', cirq.X ** 0.25), ('Y**-0.3', cirq.Y ** -0.3), ('T', cirq.T), ('PhXZ', cirq.PhasedXZGate(x_exponent=0.3, z_exponent=0.2, axis_phase_exponent=0.1))]


def dd_doors(cirq):
    """two-qubit Clifford gates (both orientations of the asymmetric one): a Pauli on one qubit is pulled through them onto the other"""
    return [('CZ', lambda a, b: cirq.CZ(a, b)), ('CNOT', lambda a, b: cirq.CNOT(a, b)), ('CNOT reversed', lambda a, b: cirq.CNOT(b, a)),
            ('ISWAP', lambda a, b: cirq.ISWAP(a, b)), ('SWAP', lambda a, b: cirq.SWAP(a, b))]


def dd_grid(cirq):
    """Deterministic part of the 'inserted pulse travels to another qubit' class for add_dynamical_decoupling: qubit a idles for 1-3
    moments inside its busy range (pulses go there; an odd number leaves a Pauli to carry along), then a two-qubit Clifford gate (every
    kind, both orientations) or a chain of two of them takes the carried Pauli to another qubit, where the next operation is one that
    no Pauli can be pulled through: every kind of non-Clifford single-qubit gate, a measurement, a classically controlled gate, a
    non-Clifford two-qubit gate; with / without a single-qubit Clifford gate or an idle moment in between, with the wall on one or on
    both lines.  The circuits end in a layer of H.  Returns (name, circuit)."""
    a, b, c = cirq.LineQubit.range(3)
    M, H = cirq.Moment, cirq.H
    walls, doors = dd_walls(cirq), dd_doors(cirq)
    out = []
    for (dn, door), (wn, wall), idle in itertools.product(doors, walls, (1, 2)):
        out.append((f'idle x{idle}; {dn}; {wn} on the partner',
                    cirq.Circuit([M(H(a), H(b))] + [M(H(b))] * idle + [M(door(a, b)), M(wall(b)), M(H(a), H(b))])))
    for i, (dn, door) in enumerate(doors):
        for j in (0, 1):
            (d2n, door2), (wn, wall) = doors[(i + 1 + 2 * j) % len(doors)], walls[(i + 2 * j) % len(walls)]
            out.append((f'idle x1; {dn}; {d2n}; {wn} at the end of the chain',
                        cirq.Circuit(M(H(a), H(b), H(c)), M(H(b), H(c)), M(door(a, b)), M(door2(b, c)), M(wall(c)), M(H(a), H(b), H(c)))))
    phxz = walls[3][1]
    out += [
        ('idle x3; CNOT; walls on both lines', cirq.Circuit([M(H(a), H(b))] + [M(cirq.S(b))] * 3 + [M(cirq.CNOT(a, b)), M(cirq.T(a), cirq.X(b) ** 0.25), M(H(a), H(b))])),
        ('idle x1; CNOT reversed; S on the partner; wall', cirq.Circuit(M(H(a), H(b)), M(H(b)), M(cirq.CNOT(b, a)), M(cirq.S(b)), M(cirq.Y(b) ** -0.3), M(H(a), H(b)))),
        ('idle x1; ISWAP; idle partner; wall', cirq.Circuit(M(H(a), H(b)), M(H(b)), M(cirq.ISWAP(a, b)), M(H(a)), M(phxz.on(b), cirq.S(a)), M(H(a), H(b)))),
        ('idle x1; CNOT; non-Clifford two-qubit gate', cirq.Circuit(M(H(a), H(b), H(c)), M(H(b), H(c)), M(cirq.CNOT(a, b)), M(cirq.CZ(b, c) ** 0.5), M(H(a), H(b), H(c)))),
        ('idle x1; CNOT; measurement of the partner', cirq.Circuit(M(H(a), cirq.X(b) ** 0.3), M(cirq.S(b)), M(cirq.CNOT(b, a)), M(cirq.measure(b, key='m')), M(H(a)), M(cirq.T(a)))),
        ('idle x1; CNOT; classically controlled gate on the partner',
         cirq.Circuit(M(H(a), H(b), H(c)), M(cirq.measure(c, key='k'), H(b)), M(cirq.CNOT(a, b)), M(cirq.Y(b).with_classical_controls('k')), M(H(a), H(b)))),
        ('both qubits idle in turn; CZ; walls', cirq.Circuit(M(H(a), H(b)), M(cirq.S(b)), M(cirq.S(a)), M(cirq.CZ(a, b)), M(cirq.X(a) ** 0.25, cirq.Y(b) ** -0.3), M(H(a), H(b)))),
    ]
    return out


def gen_dd(cirq, rng, measured=False):
    """Clifford-dense sparse circuits for add_dynamical_decoupling: layers of single-qubit operations (idle / Clifford / non-Clifford)
    and layers of two-qubit gates (mostly Clifford), so that pulses inserted in idle slots are pulled through chains of Clifford gates
    (onto other qubits) before they meet a gate they cannot pass; measured=True adds a mid-circuit measurement, gates controlled by its
    record and terminal measurements."""
    n = rng.randint(2, 4)
    qs = cirq.LineQubit.range(n)
    cliff1 = [cirq.H, cirq.S, cirq.S ** -1, cirq.X, cirq.Y, cirq.Z, cirq.X ** 0.5, cirq.Y ** -0.5, cirq.PhasedXZGate(x_exponent=0.5, z_exponent=0.5, axis_phase_exponent=-0.5)]
    cliff2 = [cirq.CZ, cirq.CNOT, cirq.ISWAP, cirq.SWAP, cirq.CZ, cirq.CNOT, cirq.ISWAP ** -1]
    other2 = [cirq.CZ ** 0.5, cirq.SQRT_ISWAP, cirq.CZ ** gates.draw_exp(rng)]
    moments = []
    depth = rng.randint(5, 9)
    mid = rng.randint(1, depth - 2) if measured else None
    have_key = False
    for d in range(depth):
        ops_ = []
        free = list(qs)
        rng.shuffle(free)
        if d == mid:
            ops_.append(cirq.measure(free.pop(), key='k'))
        elif rng.random() < 0.45:
            while len(free) >= 2 and rng.random() < 0.8:
                x, y = free.pop(), free.pop()
                ops_.append((rng.choice(cliff2) if rng.random() < 0.85 else rng.choice(other2)).on(x, y))
            free = [q for q in free if rng.random() < 0.3]
        for q in free:
            r = rng.random()
            if r < 0.4:
                continue
            if r < 0.75:
                ops_.append(rng.choice(cliff1).on(q))
            elif r < 0.85 and have_key:
                ops_.append(rng.choice([cirq.X, cirq.Z, cirq.H]).on(q).with_classical_controls('k'))
            else:
                ops_.append(rng.choice([w for _, w in dd_walls(cirq)] + [cirq.Z ** 0.3, cirq.H ** 0.5, cirq.X ** gates.draw_exp(rng)]).on(q))
        moments.append(cirq.Moment(ops_))
        have_key = have_key or d == mid
    if measured:
        moments.append(cirq.Moment([cirq.measure(*rng.sample(list(qs), rng.randint(1, 2)), key='m')]))
    return cirq.Circuit(moments)


def keypath_grid(cirq):
    """Deterministic part of the 'measurement keys that differ only by their path' class: sub-circuits that measure key 'a' on the
    same qubit mid-circuit, repeated with repetition ids ('0:a', '1:a', ...), placed twice under different key paths ('A:a', 'B:a'),
    nested (paths of depth two), next to 'a' repeated without ids; with feed-forward inside the sub-circuit, with
    the record of one repetition read outside; one- and two-qubit measurements; and measurements that are terminal inside path-
    qualified sub-circuits.  Every transformer that accepts measurements and sub-circuits gets them.  Returns (name, circuit)."""
    q0, q1 = cirq.LineQubit.range(2)
    M, X, H = cirq.Moment, cirq.X, cirq.H
    cop = cirq.CircuitOperation
    toggle = cirq.FrozenCircuit(M(cirq.measure(q0, key='a')), M(X(q0)))
    feed = cirq.FrozenCircuit(M(cirq.measure(q0, key='a')), M(X(q1).with_classical_controls('a')), M(X(q0)))
    turn = cirq.FrozenCircuit(M(cirq.measure(q0, key='a')), M(X(q0) ** 0.5), M(cirq.CZ(q0, q1)), M(H(q1)))
    pair = cirq.FrozenCircuit(M(cirq.measure(q0, q1, key='a', invert_mask=(True,))), M(X(q0)), M(cirq.CNOT(q0, q1)))
    tail = M(cirq.measure(q0, key='z'), cirq.measure(q1, key='b'))
    return [
        ('repetition ids, the measured qubit flipped in between', cirq.Circuit(M(X(q0) ** 0.3, H(q1)), M(cop(toggle, repetitions=2, use_repetition_ids=True)), M(H(q0)), tail)),
        ('repetition ids, feed-forward inside', cirq.Circuit(M(cirq.Y(q0) ** 0.4), M(cop(feed, repetitions=3, use_repetition_ids=True)), tail)),
        ('two sub-circuits under different key paths', cirq.Circuit(M(H(q0)), M(cop(feed).with_key_path(('A',))), M(cop(feed).with_key_path(('B',))), tail)),
        ('record of one repetition read outside', cirq.Circuit(M(H(q0)), M(cop(toggle, repetitions=2, use_repetition_ids=True)), M(X(q1).with_classical_controls('0:a')), M(H(q1)),
                                                               M(cirq.Z(q1).with_classical_controls('1:a')), M(H(q1)), tail)),
        ('key paths of depth two', cirq.Circuit(M(X(q0) ** 0.5), M(cop(cirq.FrozenCircuit(M(cop(turn).with_key_path(('A',))), M(cop(toggle).with_key_path(('B',))))).repeat(2, use_repetition_ids=True)),
                                                M(cirq.measure(q0, q1, key='z')))),
        ('repeated key without ids, then path keys of the same name', cirq.Circuit(M(H(q0)), M(cop(toggle, repetitions=2, use_repetition_ids=False)), M(X(q0) ** 0.5),
                                                                                   M(cop(turn, repetitions=2, use_repetition_ids=True)), tail)),
        ('two-qubit measurement with repetition ids', cirq.Circuit(M(H(q0), X(q1) ** 0.3), M(cop(pair, repetitions=2, use_repetition_ids=True)), M(H(q0)), tail)),
        ('terminal measurements inside sub-circuits under different key paths',
         cirq.Circuit(M(H(q0)), M(cirq.CNOT(q0, q1)), M(cirq.S(q0), X(q1) ** 0.5), M(cop(cirq.FrozenCircuit(cirq.measure(q0, key='a'))).with_key_path(('A',)),
                                                                                     cop(cirq.FrozenCircuit(cirq.measure(q1, key='a'))).with_key_path(('B',))))),
    ]


def gen_absorb(cirq, rng):
    """Short circuits dense in what the ejecting transformers hold (PhasedXZ gates, Pauli / PhasedX flips, phases) and in what they
    cannot carry it across (swap-like gates, sub-circuits, gates opaque to phases), so that 'holder; barrier; phase; end' and its
    variations are frequent; tags (through decorate) add operations with the ignored tag."""
    n = rng.randint(2, 3)
    qs = cirq.LineQubit.range(n)
    c = cirq.Circuit()
    for _ in range(rng.randint(4, 10)):
        r = rng.random()
        q = rng.choice(qs)
        a, b = rng.sample(list(qs), 2)
        if r < 0.25:
            o = cirq.PhasedXZGate(x_exponent=rng.choice([gates.draw_exp(rng), 1.0, 0.5]), z_exponent=gates.draw_exp(rng), axis_phase_exponent=gates.draw_exp(rng)).on(q)
        elif r < 0.5:
            o = rng.choice([cirq.Z ** gates.draw_exp(rng), cirq.S, cirq.T, cirq.Z, cirq.rz(gates.draw_angle(rng))]).on(q)
        elif r < 0.64:
            o = rng.choice(swaplike_gates(cirq)).on(a, b)
        elif r < 0.72:
            o = cirq.CircuitOperation(cirq.FrozenCircuit(rng.choice([cirq.H(q), cirq.CNOT(a, b), cirq.X(q) ** 0.5, cirq.Z(q) ** 0.5])))
        elif r < 0.82:
            o = rng.choice([cirq.H, cirq.X ** gates.draw_exp(rng), cirq.Y]).on(q)
        elif r < 0.9:
            o = (cirq.CZ ** rng.choice([1.0, 0.5, gates.draw_exp(rng)])).on(a, b)
        else:
            o = rng.choice([cirq.PhasedXPowGate(phase_exponent=gates.draw_exp(rng), exponent=1.0), cirq.X, cirq.Y]).on(q)
        c.append(o, strategy=cirq.InsertStrategy.NEW if rng.random() < 0.3 else cirq.InsertStrategy.EARLIEST)
    return c


def gen_param(cirq, rng):
    import sympy
    syms = [sympy.Symbol(n) for n in 'abcd']
    n = rng.randint(2, 3)
    qs = cirq.LineQubit.range(n)
    ops_ = []
    for _ in range(rng.randint(3, 9)):
        r = rng.random()
        sym = rng.choice(syms)
        e = rng.choice([sym, sym, 2 * sym, sym + 0.25, -sym])
        q = rng.choice(qs)
        if r < 0.25:
            ops_.append(cirq.Z(q) ** e)
        elif r < 0.4:
            ops_.append(cirq.X(q) ** e)
        elif r < 0.5:
            ops_.append(cirq.PhasedXPowGate(phase_exponent=rng.choice([e, 0.25]), exponent=rng.choice([1.0, 0.5, sym])).on(q))
        elif r < 0.6:
            a, b = rng.sample(list(qs), 2)
            ops_.append(cirq.CZ(a, b) ** rng.choice([1.0, e, 0.5]))
        elif r < 0.7:
            a, b = rng.sample(list(qs), 2)
            ops_.append(rng.choice([cirq.SWAP, cirq.ISWAP, cirq.CNOT])(a, b))
        else:
            ops_.append(rand_1q(cirq, rng).on(q))
    c = cirq.Circuit()
    for o in ops_:
        c.append(o, strategy=cirq.InsertStrategy.NEW if rng.random() < 0.2 else cirq.InsertStrategy.EARLIEST)
    return c


def gauge_alternates(cirq, mods):
    """Other representations of the gauge transformers' target gates: the exponent shifted by whole periods (both signs, so that the
    sign of the raw exponent differs from the sign of the canonical representative), a global shift (target gate sets ignore the
    global phase), the parent class of a named gate.  A transformer's own `op in transformer.target` decides which of them it takes."""
    return ([cirq.CZ ** e for e in (3.0, -1.0, 1.5, -1.5, 2.5, -3.5, 2.3, -1.7)] + [cirq.ZZ ** e for e in (3.0, -1.0, 2.3, -1.7)]
            + [cirq.ISWAP ** e for e in (5.0, -3.0, 4.5, -3.5)]
            + [cirq.FSimGate(np.pi / 2, np.pi / 6), cirq.CZPowGate(exponent=1.0, global_shift=0.5), cirq.CZPowGate(exponent=-0.5, global_shift=-0.25),
               cirq.ISwapPowGate(exponent=1.0, global_shift=1.0), cirq.ISwapPowGate(exponent=0.5, global_shift=0.5), cirq.ZZPowGate(exponent=1.0, global_shift=-0.5)])


def accepted_alternates(cirq, mods, tr, base):
    """the alternates `tr` gauges (decided by its own target) that are not literally (repr) one of `base`"""
    q0, q1 = cirq.LineQubit.range(2)
    target = getattr(tr, 'target', None)
    if target is None:
        return []
    seen, out = {repr(g) for g in base}, []
    for g in gauge_alternates(cirq, mods):
        if repr(g) not in seen and g.on(q0, q1) in target:
            seen.add(repr(g))
            out.append(g)
    return out


def gauge_transformers(cirq, mods):
    t, gc = cirq.transformers, cirq.transformers.gauge_compiling
    return {'cz': t.CZGaugeTransformer, 'sqrt_cz': t.SqrtCZGaugeTransformer, 'iswap': t.ISWAPGaugeTransformer, 'sqrt_iswap': t.SqrtISWAPGaugeTransformer,
            'zz': t.SpinInversionGaugeTransformer, 'cphase': gc.CPhaseGaugeTransformer, 'syc': mods['cirq_google'].transformers.SYCGaugeTransformer}


def gauge_targets(cirq, rng, mods, kind):
    """targets for the random streams: the canonical ones and, as often, their other accepted representations"""
    base = GAUGE_TARGETS[kind](cirq, rng, mods)
    alts = accepted_alternates(cirq, mods, gauge_transformers(cirq, mods)[kind], base)
    return base + ([rng.choice(alts) for _ in base] if alts else [])


GAUGE_TARGETS = {
    'cz': lambda cirq, rng, mods: [cirq.CZ],
    'sqrt_cz': lambda cirq, rng, mods: [cirq.CZ ** 0.5, cirq.CZ ** -0.5],
    'iswap': lambda cirq, rng, mods: [cirq.ISWAP],
    'sqrt_iswap': lambda cirq, rng, mods: [cirq.SQRT_ISWAP],
    'zz': lambda cirq, rng, mods: [cirq.ZZ ** gates.draw_exp(rng), cirq.ZZ],
    'cphase': lambda cirq, rng, mods: [cirq.CZ ** gates.draw_exp(rng), cirq.CZ, cirq.CZ ** round(rng.uniform(-2, 2), 3)],
    'syc': lambda cirq, rng, mods: [mods['cirq_google'].SYC],
}


def gen_circuit(cirq, rng, kinds, tags=True, nest=True, mods=None):
    kind = rng.choice(kinds)
    if kind == 'unitary':
        c = gen_unitary(cirq, rng)
    elif kind == 'qudit':
        c = gen_unitary(cirq, rng, qudits=True, fams=gates.CORE_FAMILIES)
    elif kind == 'terminal':
        c = gen_measured(cirq, rng, cc=False, mid=False)
    elif kind == 'terminal-nc':
        c = gen_measured(cirq, rng, cc=False, mid=False, confusion=False)
    elif kind == 'measured-nc':
        c = gen_measured(cirq, rng, confusion=False)
    elif kind == 'measured-nocc':
        c = gen_measured(cirq, rng, cc=False)
    elif kind == 'measured-nocc-nc':
        c = gen_measured(cirq, rng, cc=False, confusion=False)
    elif kind == 'ejectable':
        c = gen_ejectable(cirq, rng)
    elif kind == 'ejectable-measured':
        c = gen_ejectable(cirq, rng, measured=True)
    elif kind == 'param':
        c = gen_param(cirq, rng)
    elif kind == 'layers':
        c = gen_layers(cirq, rng)
    elif kind == 'layers-measured':
        c = gen_layers(cirq, rng, measured=True)
    elif kind == 'gmeasured':           # measurement-like operations of every kind, classical control on their keys
        c = gen_layers(cirq, rng, measured=True, cc=rng.random() < 0.5, general=True, paulis=0.3)
    elif kind == 'gmeasured-nocc':
        c = gen_layers(cirq, rng, measured=True, general=True, paulis=0.3)
    elif kind == 'pmeasured':           # the same without keyed channels
        c = gen_layers(cirq, rng, measured=True, cc=rng.random() < 0.5, general=True, paulis=0.3, channels=False)
    elif kind == 'ejectable-gmeasured':
        c = gen_ejectable(cirq, rng, measured=True, general=True)
    elif kind == 'alphabet':
        c = gen_alphabet(cirq, rng)
    elif kind == 'absorb':
        c = gen_absorb(cirq, rng)
    elif kind in ('idle', 'idle:measured'):
        c = gen_idle(cirq, rng, measured=kind.endswith('measured'))
    elif kind in ('dd', 'dd:measured'):
        c = gen_dd(cirq, rng, measured=kind.endswith('measured'))
    elif kind.startswith('gauge:'):
        parts = kind.split(':')
        tw = gauge_targets(cirq, rng, mods, parts[1])
        tw = tw * 3 + [cirq.CNOT, cirq.CZ ** 0.3]
        c = gen_layers(cirq, rng, twoq=tw, measured=len(parts) > 2, cc=len(parts) > 2)
    else:
        c = gen_measured(cirq, rng)
    if rng.random() < 0.3:
        c.insert(rng.randint(0, len(c)), cirq.Moment())
    if rng.random() < 0.25 and kind in ('unitary', 'ejectable', 'layers', 'alphabet', 'absorb'):
        qs = sorted(c.all_qubits())
        c.insert(rng.randint(0, len(c)), cirq.Z(rng.choice(qs)) ** rng.choice([1e-10, 2.0, 1e-9, 4.0, 0.0]))
    return decorate(cirq, rng, c, tags=tags, nest=nest), kind


# --------------------------------------------------------------------------------------------------------------------
# transformer configurations
class Cfg:
    def __init__(self, name, variant, call, cat, kinds=('unitary', 'measured'), ctx=True, deep=True, ignore=True, contract='same',
                 reference=None, same=eq_plain, sub_exempt=False, n=1.0, tags=True, nest=True, expect_raise=None, perm=False, inplace=None, sem_reference=None):
        self.name, self.variant, self.call, self.cat, self.kinds = name, variant, call, cat, kinds
        self.ctx, self.deep, self.ignore, self.contract = ctx, deep, ignore, contract
        self.reference, self.same, self.sub_exempt, self.n = reference, same, sub_exempt, n
        self.tags, self.nest, self.expect_raise, self.perm, self.inplace = tags, nest, expect_raise, perm, inplace
        self.sem_reference = sem_reference      # (circuit, deep, ignore) -> the circuit the output must mean the same as (default: the input)

    @property
    def id(self):
        return f'{self.name}[{self.variant}]' if self.variant else self.name


def unroll_reference(cirq, tags_to_check):
    def ref(c, deep):
        out = []
        for op in c.all_operations():
            u = op.untagged
            if isinstance(u, cirq.CircuitOperation):
                hit = tags_to_check is None or set(tags_to_check) & set(op.tags)
                if deep:
                    u = u.replace(circuit=cirq.FrozenCircuit(ref_circuit(u.circuit, deep)))
                if hit:
                    out.extend(u.mapped_circuit(deep=False).all_operations())
                else:
                    out.append(u.with_tags(*op.tags))
            else:
                out.append(op)
        return out
    def ref_circuit(c, deep):
        return cirq.Circuit(ref(c, deep))
    return ref


def map_moments_reference(cirq, circuit, func, deep, ignore):
    """What cirq.map_moments is documented to return, built from scratch: func applied to every moment in order (a moment or a
    list of moments each); with deep, first inside every sub-circuit operation that does not carry an ignored tag."""
    moments = []
    for i, m in enumerate(circuit):
        if deep:
            m = cirq.Moment(op.untagged.replace(circuit=map_moments_reference(cirq, op.untagged.circuit, func, deep, ignore).freeze()).with_tags(*op.tags)
                            if isinstance(op.untagged, cirq.CircuitOperation) and not (ignore and IGN in op.tags) else op for op in m)
        r = func(m, i)
        moments.extend([r] if isinstance(r, cirq.Moment) else list(r))
    return cirq.Circuit(moments)


def make_configs(cirq, mods):
    t = cirq.transformers
    C = []
    def ctx_call(f, **kw):
        return lambda c, context: f(c, context=context, **kw)
    MEAS = ('unitary', 'measured', 'terminal', 'gmeasured')
    RE = ('unitary', 'measured', 'terminal', 'qudit', 'gmeasured')
    # ---- reorder-only ----
    C.append(Cfg('align_left', '', ctx_call(t.align_left), 'reorder', kinds=RE, inplace='index'))
    C.append(Cfg('align_right', '', ctx_call(t.align_right), 'reorder', kinds=RE, inplace='index_from_end'))
    C.append(Cfg('stratified_circuit', 'no categories', ctx_call(t.stratified_circuit), 'reorder', kinds=RE, n=0.5))
    C.append(Cfg('stratified_circuit', 'gate types', ctx_call(t.stratified_circuit, categories=[cirq.XPowGate, cirq.ZPowGate, cirq.MeasurementGate]), 'reorder', kinds=RE, n=0.5))
    C.append(Cfg('stratified_circuit', 'predicate', ctx_call(t.stratified_circuit, categories=[lambda op: len(op.qubits) == 1, cirq.CZ]), 'reorder', kinds=RE, n=0.5))
    C.append(Cfg('synchronize_terminal_measurements', 'after_other_operations=True', ctx_call(t.synchronize_terminal_measurements), 'reorder', kinds=('measured', 'terminal', 'measured', 'gmeasured')))
    C.append(Cfg('synchronize_terminal_measurements', 'after_other_operations=False', ctx_call(t.synchronize_terminal_measurements, after_other_operations=False), 'reorder', kinds=('measured', 'terminal', 'measured', 'gmeasured')))
    C.append(Cfg('drop_empty_moments', '', ctx_call(t.drop_empty_moments), 'reorder', kinds=RE, n=0.5))
    C.append(Cfg('index_tags', '', ctx_call(t.index_tags, target_tags={KEEP}), 'reorder', kinds=RE, ignore=False, same=eq_untagged, n=0.5))
    C.append(Cfg('remove_tags', '', ctx_call(t.remove_tags, target_tags={KEEP}), 'reorder', kinds=RE, ignore=False, same=eq_untagged, n=0.5))
    C.append(Cfg('toggle_tags', '', lambda c, context: t.toggle_tags(c, [KEEP], deep=context.deep), 'reorder', kinds=RE, ignore=False, same=eq_untagged, n=0.5))
    for nm in ('unroll_circuit_op', 'unroll_circuit_op_greedy_earliest', 'unroll_circuit_op_greedy_frontier'):
        f = getattr(t, nm)
        C.append(Cfg(nm, 'tags_to_check=unroll', (lambda f: lambda c, context: f(c, deep=context.deep, tags_to_check=(UNROLL,)))(f), 'reorder',
                     kinds=MEAS, ignore=False, reference=unroll_reference(cirq, (UNROLL,)), sub_exempt=True, n=0.7))
        C.append(Cfg(nm, 'tags_to_check=None', (lambda f: lambda c, context: f(c, deep=context.deep, tags_to_check=None))(f), 'reorder',
                     kinds=MEAS, ignore=False, reference=unroll_reference(cirq, None), sub_exempt=True, n=0.5))
    C.append(Cfg('map_moments', 'identity', lambda c, context: t.map_moments(c, lambda m, i: m, deep=context.deep, tags_to_ignore=context.tags_to_ignore), 'reorder', kinds=RE, n=0.4))
    # map functions that change the circuit: one operation per moment (nothing but moves: trace validated) and a layer of phases behind
    # every moment (the result is compared with the circuit built by the specification of the primitive, map_moments_reference)
    split_moment = lambda m, i: [cirq.Moment([op]) for op in m]
    C.append(Cfg('map_moments', 'one operation per moment', lambda c, context: t.map_moments(c, split_moment, deep=context.deep, tags_to_ignore=context.tags_to_ignore), 'reorder', kinds=RE, n=0.4))
    phase_layer = lambda m, i: [m, cirq.Moment(cirq.Z(q) ** 0.25 for q in sorted(m.qubits))] if m.qubits else m
    C.append(Cfg('map_moments', 'phase layer behind every moment', lambda c, context: t.map_moments(c, phase_layer, deep=context.deep, tags_to_ignore=context.tags_to_ignore), 'semantic', kinds=MEAS, n=0.4,
                 sem_reference=lambda c, deep, ignore: map_moments_reference(cirq, c, phase_layer, deep, ignore), sub_exempt=False))
    C.append(Cfg('map_operations', 'identity', lambda c, context: t.map_operations(c, lambda op, i: op, deep=context.deep, tags_to_ignore=context.tags_to_ignore), 'reorder', kinds=RE, n=0.4))
    C.append(Cfg('map_operations_and_unroll', 'identity', lambda c, context: t.map_operations_and_unroll(c, lambda op, i: op, deep=context.deep, tags_to_ignore=context.tags_to_ignore), 'reorder', kinds=RE, n=0.4))
    # ---- semantic ----
    U = ('unitary', 'measured', 'terminal', 'unitary', 'gmeasured', 'alphabet')
    EJ = U + ('ejectable', 'ejectable-gmeasured', 'absorb', 'absorb')
    def raises_documented(kind_of_error, when):
        return lambda circuit, deep, ignore, e: isinstance(e, kind_of_error) and when(circuit, deep, ignore)
    C.append(Cfg('expand_composite', '', ctx_call(t.expand_composite), 'semantic', kinds=U, sub_exempt=True))
    C.append(Cfg('expand_composite', 'no_decomp=1q', ctx_call(t.expand_composite, no_decomp=lambda op: len(op.qubits) == 1), 'semantic', kinds=U, sub_exempt=True, n=0.5))
    C.append(Cfg('eject_z', 'atol=0', ctx_call(t.eject_z), 'semantic', kinds=EJ, n=1.3))
    C.append(Cfg('eject_z', 'atol=1e-8', ctx_call(t.eject_z, atol=1e-8), 'semantic', kinds=EJ, n=0.6))
    C.append(Cfg('eject_z', 'eject_parameterized', ctx_call(t.eject_z, eject_parameterized=True), 'semantic', kinds=('param',), n=0.6))
    C.append(Cfg('eject_phased_paulis', '', ctx_call(t.eject_phased_paulis), 'semantic', kinds=EJ, n=1.3))
    C.append(Cfg('eject_phased_paulis', 'eject_parameterized', ctx_call(t.eject_phased_paulis, eject_parameterized=True), 'semantic', kinds=('param',), n=0.6))
    C.append(Cfg('drop_negligible_operations', '', ctx_call(t.drop_negligible_operations), 'semantic', kinds=U))
    C.append(Cfg('drop_diagonal_before_measurement', '', ctx_call(t.drop_diagonal_before_measurement), 'semantic', kinds=('measured', 'terminal', 'ejectable-measured', 'ejectable-gmeasured')))
    C.append(Cfg('merge_single_qubit_gates_to_phased_x_and_z', '', ctx_call(t.merge_single_qubit_gates_to_phased_x_and_z), 'semantic', kinds=U))
    C.append(Cfg('merge_single_qubit_gates_to_phxz', '', ctx_call(t.merge_single_qubit_gates_to_phxz), 'semantic', kinds=U))
    C.append(Cfg('merge_single_qubit_moments_to_phxz', '', ctx_call(t.merge_single_qubit_moments_to_phxz), 'semantic', kinds=U + ('layers',)))
    for k in (1, 2, 3):
        C.append(Cfg('merge_k_qubit_unitaries', f'k={k}', ctx_call(t.merge_k_qubit_unitaries, k=k), 'semantic', kinds=U, n=0.5))
    C.append(Cfg('merge_k_qubit_unitaries', 'k=2,rewriter', ctx_call(t.merge_k_qubit_unitaries, k=2, rewriter=lambda cop: list(cop.mapped_circuit().all_operations())), 'semantic', kinds=U, n=0.5))
    for k in (1, 2):
        C.append(Cfg('merge_k_qubit_unitaries_to_circuit_op', f'k={k}', (lambda k: lambda c, context: t.merge_k_qubit_unitaries_to_circuit_op(c, k=k, tags_to_ignore=context.tags_to_ignore, deep=context.deep))(k), 'semantic', kinds=U, n=0.5))

    def merge_func(op1, op2):
        for op in (op1, op2):
            if IGN in op.tags:
                merge_func.saw_ignored = True
            if not cirq.has_unitary(op) or cirq.is_measurement(op):
                return None
        qs = sorted(set(op1.qubits) | set(op2.qubits))
        if len(qs) > 2:
            return None
        return cirq.MatrixGate(cirq.Circuit(op1, op2).unitary(qubit_order=qs)).on(*qs)
    merge_func.saw_ignored = False
    C.append(Cfg('merge_operations', 'unitaries<=2q', lambda c, context: t.merge_operations(c, merge_func, tags_to_ignore=context.tags_to_ignore, deep=context.deep), 'semantic', kinds=U, n=1.2))
    C[-1].probe = merge_func

    def can_merge(left, right):
        ops_ = list(left) + list(right)
        return all(cirq.has_unitary(o) and not cirq.is_measurement(o) for o in ops_) and len({q for o in ops_ for q in o.qubits}) <= 2
    C.append(Cfg('merge_operations_to_circuit_op', 'unitaries<=2q', lambda c, context: t.merge_operations_to_circuit_op(c, can_merge, tags_to_ignore=context.tags_to_ignore, deep=context.deep), 'semantic', kinds=U))

    def mergeable_moment(m):
        return len(m) > 0 and all(len(o.qubits) == 1 and cirq.has_unitary(o) and not o.tags and not isinstance(o.untagged, cirq.CircuitOperation) for o in m)

    def merge_two_moments(m1, m2):
        if not (mergeable_moment(m1) and mergeable_moment(m2)):
            return None
        out = []
        for q in sorted(m1.qubits | m2.qubits):
            u = np.eye(2, dtype=complex)
            for m in (m1, m2):
                o = m.operation_at(q)
                if o is not None:
                    u = cirq.unitary(o) @ u
            out.append(cirq.MatrixGate(u).on(q))
        return cirq.Moment(out)
    C.append(Cfg('merge_moments', '1q moments', lambda c, context: t.merge_moments(c, merge_two_moments, tags_to_ignore=context.tags_to_ignore, deep=context.deep), 'semantic', kinds=U + ('layers',), n=0.7))

    def merge_batch(moments):
        first, rest = moments[0], list(moments[1:])
        while rest:
            m = merge_two_moments(first, rest[0])
            if m is None:
                break
            first, rest = m, rest[1:]
        return first, rest
    C.append(Cfg('merge_moments_batch', '1q moments', lambda c, context: t.merge_moments_batch(c, merge_batch, tags_to_ignore=context.tags_to_ignore, deep=context.deep), 'semantic', kinds=U + ('layers',), n=0.7))
    C.append(Cfg('map_operations', 'decompose_once', lambda c, context: t.map_operations(c, lambda op, i: cirq.decompose_once(op, default=op) if not cirq.is_measurement(op) and not isinstance(op.untagged, cirq.CircuitOperation) else op, deep=context.deep, tags_to_ignore=context.tags_to_ignore), 'semantic', kinds=U, n=0.5))
    C.append(Cfg('map_operations_and_unroll', 'decompose_once', lambda c, context: t.map_operations_and_unroll(c, lambda op, i: cirq.decompose_once(op, default=op) if not cirq.is_measurement(op) and not isinstance(op.untagged, cirq.CircuitOperation) else op, deep=context.deep, tags_to_ignore=context.tags_to_ignore), 'semantic', kinds=U, n=0.5))
    C.append(Cfg('insertion_sort_transformer', '', ctx_call(t.insertion_sort_transformer), 'semantic', kinds=U + ('alphabet', 'alphabet'), perm=True, n=1.5))
    C[-1].placement = True
    dd_deep = raises_documented(ValueError, lambda c, deep, ign: deep)
    DD = ('dd', 'dd', 'dd:measured', 'layers', 'unitary', 'layers-measured')
    for schema in ('DEFAULT', 'XX_PAIR', 'X_XINV', 'YY_PAIR', 'Y_YINV'):
        C.append(Cfg('add_dynamical_decoupling', f'schema={schema}', ctx_call(t.add_dynamical_decoupling, schema=schema), 'semantic', kinds=DD, expect_raise=dd_deep, n=0.4, ignore=False, nest=False))
    C.append(Cfg('add_dynamical_decoupling', 'all moments', ctx_call(t.add_dynamical_decoupling, single_qubit_gate_moments_only=False), 'semantic', kinds=DD, expect_raise=dd_deep, n=0.6, ignore=False, nest=False))
    C.append(Cfg('add_dynamical_decoupling', 'custom sequence', ctx_call(t.add_dynamical_decoupling, schema=(cirq.X, cirq.Y, cirq.X, cirq.Y)), 'semantic', kinds=('dd', 'layers', 'unitary'), expect_raise=dd_deep, n=0.3, ignore=False, nest=False))
    C.append(Cfg('add_dynamical_decoupling', 'custom sequence X,Z,Y', ctx_call(t.add_dynamical_decoupling, schema=(cirq.X, cirq.Z, cirq.Y)), 'semantic', kinds=('dd', 'layers', 'unitary'), expect_raise=dd_deep, n=0.3, ignore=False, nest=False))
    C.append(Cfg('optimize_for_target_gateset', 'CZTargetGateset', ctx_call(t.optimize_for_target_gateset, gateset=cirq.CZTargetGateset()), 'semantic', kinds=('unitary', 'terminal'), n=0.4))
    C.append(Cfg('optimize_for_target_gateset', 'SqrtIswapTargetGateset', ctx_call(t.optimize_for_target_gateset, gateset=cirq.SqrtIswapTargetGateset()), 'semantic', kinds=('unitary', 'terminal'), n=0.3))
    # ---- gauge compiling ----
    gdeep = raises_documented(ValueError, lambda c, deep, ign: deep)
    gc = cirq.transformers.gauge_compiling
    def gauge_call(tr):
        return lambda c, context: tr(c, context=context, prng=np.random.default_rng(GAUGE_SEED[0]))
    for nm, tr, kind in (('CZGaugeTransformer', t.CZGaugeTransformer, 'gauge:cz'), ('SqrtCZGaugeTransformer', t.SqrtCZGaugeTransformer, 'gauge:sqrt_cz'),
                         ('ISWAPGaugeTransformer', t.ISWAPGaugeTransformer, 'gauge:iswap'), ('SqrtISWAPGaugeTransformer', t.SqrtISWAPGaugeTransformer, 'gauge:sqrt_iswap'),
                         ('SpinInversionGaugeTransformer', t.SpinInversionGaugeTransformer, 'gauge:zz'), ('CPhaseGaugeTransformer', gc.CPhaseGaugeTransformer, 'gauge:cphase'),
                         ('CPhaseGaugeTransformerMM', t.CPhaseGaugeTransformerMM(), 'gauge:cphase'),
                         ('SYCGaugeTransformer', mods['cirq_google'].transformers.SYCGaugeTransformer, 'gauge:syc')):
        call = (lambda tr: lambda c, context: tr(c, context=context, rng_or_seed=GAUGE_SEED[0]))(tr) if nm.endswith('MM') else gauge_call(tr)
        C.append(Cfg(nm, '', call, 'semantic', kinds=(kind, kind, kind + ':measured'), expect_raise=gdeep, n=0.6, nest=False))
    # IdleMomentsGauge: G at the start of every idle window of a qubit, G^-1 at its end, both merged into neighbouring 1q gates
    for variant, kw in (('pauli,min=1', dict(min_length=1, gauges='pauli')), ('clifford,min=2', dict(min_length=2, gauges='clifford')),
                        ('inv_clifford,min=1,both ends', dict(min_length=1, gauges='inv_clifford', gauge_beginning=True, gauge_ending=True)),
                        ('custom,min=2,both ends', dict(min_length=2, gauges=idle_custom_gauges(cirq), gauge_beginning=True, gauge_ending=True))):
        tr = gc.IdleMomentsGauge(**kw)
        C.append(Cfg('IdleMomentsGauge', variant, (lambda tr: lambda c, context: tr(c, context=context, rng_or_seed=GAUGE_SEED[0]))(tr), 'semantic',
                     kinds=('idle', 'idle', 'idle:measured'), expect_raise=gdeep, n=0.5, nest=False))
    # ---- special contracts ----
    # an ignored (hence not deferred) measurement whose record a classical control needs: documented ValueError
    defer_ignored = lambda circuit, deep, ignore, e: (ignore and isinstance(e, ValueError) and ('Deferred measurement for key' in str(e) or 'Invalid index for' in str(e))
                                                      and any(cirq.is_measurement(o) for o in collect_ignored(cirq, circuit, True)))
    C.append(Cfg('defer_measurements', '', ctx_call(t.defer_measurements), 'special', kinds=('measured', 'measured', 'terminal', 'measured-nc', 'pmeasured'), contract='defer', sub_exempt=True, deep=False, n=1.5,
                 expect_raise=defer_ignored))
    no_cc = raises_documented(ValueError, lambda c, deep, ign: any(cirq.control_keys(op) for op in flatten_ops(cirq, c)))
    C.append(Cfg('dephase_measurements', '', lambda c, context: t.dephase_measurements(c, context=cirq.TransformerContext(deep=True, tags_to_ignore=context.tags_to_ignore)), 'special',
                 kinds=('measured-nocc', 'terminal', 'gmeasured-nocc'), contract='average', sub_exempt=True, deep=False, expect_raise=no_cc))
    def not_terminal(c, deep, ign):
        # a measurement followed by an operation on its qubits, or whose record a later operation consumes, is not terminal
        return not c.are_all_measurements_terminal() or record_consumed(cirq, c)
    C.append(Cfg('drop_terminal_measurements', '', lambda c, context: t.drop_terminal_measurements(c, context=cirq.TransformerContext(deep=True, tags_to_ignore=context.tags_to_ignore)), 'special',
                 kinds=('terminal-nc', 'terminal-nc', 'measured-nocc-nc', 'gmeasured-nocc', 'measured-nc'), contract='drop_terminal', sub_exempt=True, deep=False, expect_raise=raises_documented(ValueError, not_terminal)))
    C.append(Cfg('lightcone_filter', '', ctx_call(t.lightcone_filter), 'special', kinds=('measured', 'terminal', 'gmeasured'), contract='records', ignore=False, deep=False, sub_exempt=True))
    return C


# --------------------------------------------------------------------------------------------------------------------
def run_case(ctx, cirq, cfg, circuit, kind, deep, ignore, checks, case_no, prng_seed=None, mutable=None):
    """Runs one transformer configuration on one circuit; python oracles immediately, Coq checks appended to `checks`."""
    import random
    rng = random.Random(f'{ctx.seed}:{case_no}')        # per-case stream: a case replays alone
    context = cirq.TransformerContext(deep=deep, tags_to_ignore=(IGN,) if ignore else ())
    desc = f'{cfg.id} deep={deep} tags_to_ignore={(IGN,) if ignore else ()} on {str(circuit)[:600]}'
    if kind.startswith('grid:') and not top_circuit_ops(cirq, circuit):        # flat grid circuits: the operation list reads better than the diagram
        desc = f'{cfg.id} deep={deep} tags_to_ignore={(IGN,) if ignore else ()} on {kind}: [{", ".join(str(op) for op in circuit.all_operations())[:700]}]'
    rep = dict(config=cfg.id, deep=deep, ignore=ignore, circuit=repr(circuit), diagram=str(circuit), circuit_kind=kind, mutable=bool(mutable))
    before = snapshot(cirq, circuit)
    pristine = circuit.copy()           # own list of (immutable) moments: what the argument was, whatever the call does to it
    frozen_copy = circuit.freeze() if rng.random() < 0.3 and not mutable else None      # mutable=True: the argument is the cirq.Circuit itself
    arg = frozen_copy if frozen_copy is not None else circuit
    if getattr(cfg, 'probe', None) is not None:
        cfg.probe.saw_ignored = False
    rep['prng_seed'] = rng.randrange(1 << 30) if prng_seed is None else prng_seed
    GAUGE_SEED[0] = rep['prng_seed']
    try:
        out = cfg.call(arg, context)
    except Exception as e:
        if cfg.expect_raise and cfg.expect_raise(circuit, deep, ignore, e):
            ctx.count(cfg.id + ':documented-error', [rep['circuit'], deep, ignore], False)
            return
        import traceback
        if input_reads_missing_record(cirq, circuit):
            # the generated circuit is not executable itself (a control reads an index beyond the records of its key, or a key nobody
            # measures): every simulator refuses it, so a transformer that refuses it too says nothing about the property
            ctx.count(cfg.id + ':input-not-executable', [rep['circuit'], deep, ignore], False)
            return
        sig = f'{cfg.name}:raises:{type(e).__name__}:{error_class(str(e))}'
        if subcircuit_unitary_raises(cirq, circuit):
            sig = 'gate-defect:subcircuit-unitary-raises'
        elif cfg.name == 'add_dynamical_decoupling' and stabilizer_effect_without_tableau_action(cirq, circuit):
            sig = 'gate-defect:has-stabilizer-effect-but-clifford-act-on-fails'
        elif isinstance(e, TypeError) and 'unhashable type' in str(e) and unhashable_operation(cirq, circuit):
            sig = 'gate-defect:unhashable-operation'
        elif cfg.name == 'IdleMomentsGauge' and idle_merge_without_unitary(cirq, circuit, ignore, e):
            sig = 'IdleMomentsGauge:raises:TypeError:window-next-to-1q-gate-without-unitary'
        ctx.violation(sig, f'{cfg.id} raised {type(e).__name__}: {str(e)[:300]} (deep={deep}, ignore={ignore}) on\n{circuit}',
                      dict(kind='raises', error=traceback.format_exc()[-1500:], **rep))
        return
    # (v) the argument is not modified
    if snapshot(cirq, circuit) != before:
        ctx.violation(f'{cfg.name}:input-modified', f'{cfg.id} modified its argument ({type(arg).__name__}): {desc}\nthe argument after the call:\n{str(circuit)[:600]}',
                      dict(kind='input-modified', argument_after=repr(circuit), **rep))
        circuit = pristine              # the remaining oracles judge the output against what was passed in
    # (iii) ignored-tag operations are left untouched
    if ignore:
        miss = ignored_missing(cirq, circuit, out, deep)
        if miss:
            only_sub = all(isinstance(o.untagged, cirq.CircuitOperation) for o in miss)
            ctx.violation(f'{cfg.name}:ignored-op-touched' + (':subcircuit-unrolled' if only_sub else ''), f'{cfg.id}: operation(s) carrying the ignored tag were changed or removed: {miss[:3]!r}; {desc}\noutput:\n{out}',
                          dict(kind='ignored', missing=repr(miss), output=repr(out), **rep))
        if cfg.inplace and not miss:
            # documented for align_left/right: ignored operations "continue to stay in their original position"
            def positions(c):
                n = len(c)
                return sorted((repr(op), i if cfg.inplace == 'index' else n - 1 - i) for i, m in enumerate(c) for op in m if IGN in op.tags)
            if positions(circuit) != positions(out):
                ctx.violation(f'{cfg.name}:ignored-op-moved', f'{cfg.id}: an operation carrying the ignored tag did not stay in its moment; {desc}\noutput:\n{out}',
                              dict(kind='ignored-moved', output=repr(out), **rep))
    # (iv) sub-circuits are only rewritten when deep=True
    if not deep and not cfg.sub_exempt:
        ins = top_circuit_ops(cirq, circuit)
        own = {'<mapped_circuit_op>'}
        outs = [op for op in top_circuit_ops(cirq, out) if not (set(map(str, op.tags)) & own) and not any('erged' in str(tg) for tg in op.tags)]
        changed = multiset_missing([o.untagged if cfg.same is eq_untagged else o for o in outs], [i.untagged if cfg.same is eq_untagged else i for i in ins])
        if changed:
            ctx.violation(f'{cfg.name}:subcircuit-rewritten', f'{cfg.id}: a sub-circuit was rewritten although deep=False: {changed[:2]!r}; {desc}',
                          dict(kind='subcircuit', changed=repr(changed), output=repr(out), **rep))
    if ignore and getattr(cfg, 'probe', None) is not None and cfg.probe.saw_ignored:
        ctx.violation(f'{cfg.name}:callback-saw-ignored-op', f'{cfg.id}: the user callback was called with an operation carrying an ignored tag; {desc}', dict(kind='ignored-callback', **rep))
    if cfg.perm:
        a, b = flatten_ops(cirq, circuit), flatten_ops(cirq, out)
        if multiset_missing(a, b) or multiset_missing(b, a):
            ctx.violation(f'{cfg.name}:not-a-permutation', f'{cfg.id}: the output operations are not a permutation of the input operations; {desc}\noutput:\n{out}', dict(kind='permutation', output=repr(out), **rep))
    # the output is executable: it reads no measurement record that it does not produce first (if the input is executable)
    dangling = [k for k in unmeasured_reads(cirq, out) if k not in unmeasured_reads(cirq, circuit)]
    if cfg.contract == 'defer' and ignore and any(cirq.control_keys(o) or cirq.is_measurement(o) for o in collect_ignored(cirq, circuit, True)):
        dangling = []       # an ignored classically controlled operation cannot be both left untouched and fed by a deferred measurement (see below)
    if dangling:
        ctx.violation(f'{cfg.name}:output-reads-unmeasured-key', f'{cfg.id}: the output reads measurement key(s) {dangling} that it never records before (the input records them first), '
                      f'so it cannot be executed and means nothing; {desc}\noutput:\n{str(out)[:600]}', dict(kind='dangling-key', keys=dangling, output=repr(out), **rep))
        ctx.count(cfg.id, [rep['circuit'], deep, ignore], True)
        return
    # semantic comparison through the reference semantics
    c_in, c_out = circuit, out
    if cfg.sem_reference is not None:
        c_in = cfg.sem_reference(circuit, deep, ignore)
    if cirq.is_parameterized(circuit) or cirq.is_parameterized(out):
        names = sorted(cirq.parameter_names(circuit) | cirq.parameter_names(out))
        resolver = {nm: round(rng.uniform(-1.5, 1.5), 3) for nm in names}
        rep['resolver'] = resolver
        c_in, c_out = cirq.resolve_parameters(c_in, resolver), cirq.resolve_parameters(out, resolver)
    ops_in, ops_out = flatten_ops(cirq, c_in), flatten_ops(cirq, c_out)
    nontrivial = len(ops_in) >= 2 and (out != circuit)
    sem_kind = None
    try:
        if cfg.contract == 'defer' and ignore and any(cirq.control_keys(o) or cirq.is_measurement(o) for o in collect_ignored(cirq, circuit, True)):
            # an ignored measurement / classically controlled operation cannot be both left untouched and deferred: not comparable
            raise opsem.Unsupported('defer_measurements with an ignored measurement or classically controlled operation')
        expr, sem_kind = semantic_check(cirq, rng, ops_in, ops_out, cfg.contract)
        checks.append(dict(case=case_no, what='semantics', stream=f'{cfg.id}:{sem_kind}', expr=expr, cfg=cfg, desc=desc, light=kind.startswith('grid:') and len(circuit.all_qubits()) <= 2,
                           rep=dict(rep, output=repr(out), output_diagram=str(out), root_cause=root_cause(cirq, cfg, circuit, out, deep))))
    except opsem.Unsupported as e:
        ctx.count(cfg.id + ':unsupported', str(e), False)
    # (vi) reorder-only: exact trace validation
    if cfg.cat == 'reorder':
        try:
            if cfg.reference:
                pairs = nested_pairs(cirq, cfg.reference(circuit, deep), list(out.all_operations()), cfg.same, deep)
            else:
                pairs = trace_pairs(cirq, circuit, out, deep, cfg.same)
            expr = ' && '.join(f'({trace_terms(cirq, a, b, s)})' for a, b, s in pairs)
            checks.append(dict(case=case_no, what='trace', stream=f'{cfg.id}:trace', expr=expr, cfg=cfg, desc=desc,
                               rep=dict(rep, output=repr(out), output_diagram=str(out), root_cause=root_cause(cirq, cfg, circuit, out, deep))))
        except Exception as e:
            ctx.mark_broken(f'harness:trace:{cfg.id}', repr(e))
    feats = features(cirq, circuit)
    ctx.count(cfg.id, [rep['circuit'], deep, ignore], nontrivial,
              sample=dict(transformer=cfg.id, deep=deep, ignore=ignore, circuit=str(circuit)[:300], output=str(out)[:300], semantics=sem_kind))
    ctx.cov.setdefault('features', {})
    for f in feats:
        ctx.cov['features'][f] = ctx.cov['features'].get(f, 0) + 1


def features(cirq, c):
    f = set()
    for op in c.all_operations():
        if isinstance(op.untagged, cirq.CircuitOperation):
            f.add('subcircuit')
            if op.untagged.repetitions != 1:
                f.add('repeated-subcircuit')
        if IGN in op.tags:
            f.add('ignored-tag')
        if cirq.control_keys(op):
            f.add('classical-control')
        if cirq.is_measurement(op):
            f.add('measurement')
            if isinstance(op.gate, cirq.PauliMeasurementGate):
                f.add('pauli-measurement')
            elif not isinstance(op.gate, cirq.MeasurementGate) and not isinstance(op.untagged, cirq.CircuitOperation):
                f.add('keyed-channel')
        if cirq.is_parameterized(op):
            f.add('parameterized')
    if any(not m for m in c):
        f.add('empty-moment')
    return f or {'plain'}


def error_class(msg):
    import re
    m = re.match(r'[A-Za-z ]+', msg)
    return ' '.join((m.group(0) if m else '').split()[:4])


def evaluate(ctx, checks):
    """Evaluate all Coq booleans in parallel shards; returns set of indices (into checks) that are false."""
    failed = set()
    for what, pre, SH in (('trace', PRE_TRACE, 120), ('ejectz', PRE_EJECTZ, 120), ('idle', PRE_IDLE[0], 60), ('semantics', PRE_NUM, 14)):
        idxs = [i for i, c in enumerate(checks) if c['what'] == what and not c.get('light')]
        light = [i for i, c in enumerate(checks) if c['what'] == what and c.get('light')]     # circuits of a few small operations: larger shards
        parts = [idxs[s0:s0 + SH] for s0 in range(0, len(idxs), SH)] + [light[s0:s0 + 5 * SH] for s0 in range(0, len(light), 5 * SH)]
        shards = []
        for k, part in enumerate(parts):
            text = pre + 'Definition checks : list bool := [\n' + ';\n'.join(checks[i]['expr'] for i in part) + '].\nEval vm_compute in failing (fun b => b) checks.\n'
            shards.append((f'c06_{what}_{ctx.seed}_{k}', text, part))
        outs = coq.coq_eval_many([(n, t) for n, t, _ in shards], workers=14)
        for (n, t, part), out in zip(shards, outs):
            for k in coq.parse_nat_list(coq.parse_evals(out)[0]):
                failed.add(part[k])
    return failed


def report(ctx, checks, failed):
    by_case = {}
    for i in sorted(failed):
        by_case.setdefault(checks[i]['case'], {})[checks[i]['what']] = checks[i]
    for case, d in sorted(by_case.items()):
        if 'semantics' in d:
            c = d['semantics']
            cfg = c['cfg']
            sig = f'{cfg.name}:semantics:{c["stream"].split(":")[-1]}:{signature_features(c["rep"])}'
            gd = [x for x in signature_features(c['rep']).split('+') if x.startswith('decompose-disagrees-with-unitary:')]
            if gd:
                sig = 'gate-defect:' + gd[0]
            elif 'tagged-measurement-loses-key-path' in signature_features(c['rep']).split('+'):
                sig = 'gate-defect:tagged-measurement-loses-key-path'
            what = (f'{cfg.id}: the output does not mean the same as the input ({c["stream"].split(":")[-1]} compared through the reference semantics, '
                    f'contract={cfg.contract}); {c["desc"]}\noutput:\n{c["rep"]["output_diagram"][:600]}')
            ctx.disagree(f'validation:{c["stream"]}', what, sig, what, dict(kind='semantics', **c['rep']))
        elif 'ejectz' in d or (d.get('trace') and d['trace']['stream'].startswith('eject_z[model]')):
            c = d.get('ejectz') or d['trace']
            ctx.mark_broken(f'correspondence:{c["stream"]}', f'the Gallina model of eject_z\'s loop and the transformer disagree ({c["stream"]}); {c["desc"]}\noutput:\n{c["rep"].get("output_diagram", "")[:600]}')
        elif 'idle' in d:
            c = d['idle']
            ctx.mark_broken(f'correspondence:{c["stream"]}', f'the Gallina model of IdleMomentsGauge and the transformer disagree ({c["stream"]}); {c["desc"]}\noutput:\n{c["rep"].get("output_diagram", "")[:600]}')
        elif 'trace' in d:
            c = d['trace']
            what = f'{c["cfg"].id}: output is not trace equivalent to the input (dependent operations exchanged; the semantics of this instance agree numerically); {c["desc"]}\noutput:\n{c["rep"]["output_diagram"][:600]}'
            if ctx.violation(f'{c["cfg"].name}:trace:{signature_features(c["rep"])}', what, dict(kind='trace', **c['rep']), found_input=False) != 'known':
                ctx.mark_broken(f'validation:{c["stream"]}', what)


def signature_features(rep):
    return rep.get('root_cause', '')


def key_order(cirq, ops_in, ops_out):
    """True iff some key's measurement instances appear in a different order in the output.  Output instances are
    identified with input instances by equality; ancilla measurements of defer_measurements (`_MeasurementQid`) by
    their index among the instances of the key that are not present any more."""
    def meas(ops):
        d = {}
        for op in ops:
            if isinstance(op.gate, cirq.MeasurementGate):
                d.setdefault(str(op.gate.key), []).append(op)
        return d
    mi, mo = meas(ops_in), meas(ops_out)
    for k, ins in mi.items():
        if len(ins) < 2:
            continue
        outs = mo.get(k, [])
        plain = [o for o in outs if not any(hasattr(q, '_qid') for q in o.qubits)]
        labels, used = [], set()
        deferred = [j for j, i_op in enumerate(ins) if not any(i_op == p for p in plain)]
        for o in outs:
            if any(hasattr(q, '_qid') for q in o.qubits):
                idx = o.qubits[0]._index
                labels.append(deferred[idx] if idx < len(deferred) else -1)
            else:
                j = next((j for j, i_op in enumerate(ins) if j not in used and i_op == o), -1)
                used.add(j)
                labels.append(j)
        if labels != sorted(labels):
            return True
    return False


def decompose_defect(cirq, ops):
    """An operation of the input whose own decomposition disagrees with its own unitary (a defect of that gate, C04)."""
    seen = set()
    for op in ops:
        if op.gate is None or type(op.gate).__name__ in seen or not cirq.has_unitary(op) or not (1 <= len(op.qubits) <= 3):
            continue
        qs = sorted(op.qubits)
        try:
            dec = cirq.decompose(op)
            if len(dec) == 1 and dec[0] == op:
                continue
            u, v = cirq.Circuit(dec).unitary(qubit_order=qs, qubits_that_should_be_present=qs), cirq.Circuit(op).unitary(qubit_order=qs)
            if not cirq.equal_up_to_global_phase(u, v, atol=1e-6):
                return type(op.gate).__name__
        except Exception:
            continue
    return None


def subcircuit_unitary_raises(cirq, circuit):
    """a CircuitOperation of the input that claims a unitary but whose cirq.unitary raises (defect of CircuitOperation, C12)"""
    for op in circuit.all_operations():
        if isinstance(op.untagged, cirq.CircuitOperation):
            try:
                if cirq.has_unitary(op):
                    cirq.unitary(op)
            except Exception:
                return True
            if subcircuit_unitary_raises(cirq, op.untagged.circuit):
                return True
    return False


def unhashable_operation(cirq, circuit):
    """an operation of the input (at any depth) whose gate cannot be hashed (defect of that gate class: __eq__ without __hash__)"""
    for op in circuit.all_operations():
        if isinstance(op.untagged, cirq.CircuitOperation):
            if unhashable_operation(cirq, op.untagged.circuit):
                return True
        elif op.gate is not None:
            try:
                hash(op.gate)
            except TypeError:
                return True
    return False


def idle_merge_without_unitary(cirq, circuit, ignore, e):
    """IdleMomentsGauge failed in cirq.unitary and the circuit has a single-qubit gate operation (not carrying the ignored tag) that
    has no unitary (a measurement, a channel, a reset, a parameterized gate): what it calls mergeable and multiplies into the gauge"""
    if not (isinstance(e, TypeError) and 'cirq.unitary failed' in str(e)):
        return False
    return any(len(op.qubits) == 1 and op.gate is not None and not (ignore and IGN in op.tags) and not cirq.has_unitary(op) for op in circuit.all_operations())


def stabilizer_effect_without_tableau_action(cirq, circuit):
    """an operation that claims a stabilizer effect but cannot act on a Clifford tableau (defect of the protocol pair, C13)"""
    for op in circuit.all_operations():
        try:
            if op.gate is not None and cirq.has_unitary(op) and not cirq.control_keys(op) and cirq.has_stabilizer_effect(op):
                cirq.CliffordGate.from_op_list([cirq.inverse(op)], list(op.qubits))
        except Exception:
            return True
    return False


def keys_lose_path(cirq, circuit, flat_ops):
    """The keys the circuit's sub-circuit operations declare (repetition ids / key paths applied) are not the keys its unrolled
    operations record although a tagged measurement is inside: cirq.TaggedOperation does not forward the key-path protocols to the
    measurement it wraps (defect of that class, not of a transformer)."""
    declared = {str(k) for op in circuit.all_operations() for k in cirq.measurement_key_objs(op)}
    recorded = {str(k) for op in flat_ops for k in cirq.measurement_key_objs(op)}
    return declared != recorded and any(op.tags and cirq.is_measurement(op) for op in flat_ops)




def input_reads_missing_record(cirq, circuit):
    """Does running the circuit fail because a classically controlled operation reads a record that does not exist?"""
    try:
        if cirq.is_parameterized(circuit):
            return False
        cirq.Simulator(seed=0).run(circuit, repetitions=1)
        return False
    except IndexError as ex:
        return 'index out of range' in str(ex)
    except ValueError as ex:
        return 'missing when testing classical control' in str(ex) or 'Measurement key' in str(ex) and 'missing' in str(ex)
    except Exception:
        return False

def measures_inside_a_loop(cirq, circuit):
    """Does some CircuitOperation with |repetitions| >= 2 (at any depth) hold a measurement?  Its measurements are followed by the
    next iteration's operations on the same qubits, so only those of the last iteration are terminal; Circuit.are_all_measurements_terminal
    looks at the CircuitOperation as one operation and calls them all terminal."""
    def walk(c):
        for op in c.all_operations():
            u = op.untagged
            if isinstance(u, cirq.CircuitOperation):
                reps = u.repetitions
                if isinstance(reps, (int, np.integer)) and abs(int(reps)) >= 2 and cirq.is_measurement(u):
                    return True
                if walk(u.circuit):
                    return True
        return False
    return walk(circuit)

def root_cause(cirq, cfg, circuit, out, deep):
    """Features of a failing case, computed on the real input/output, that name a recorded defect class (part of the signature)."""
    f = []
    ops_in, ops_out = flatten_ops(cirq, circuit), flatten_ops(cirq, out)
    if key_order(cirq, ops_in, ops_out):
        f.append('per-key-measurement-order-changed')
    if cfg.name == 'drop_diagonal_before_measurement' and \
            any(isinstance(op.untagged, cirq.CircuitOperation) and cirq.is_measurement(op) for op in circuit.all_operations()):
        f.append('measurement-inside-subcircuit')
    for m in circuit:
        if any(isinstance(op.gate, cirq.CZPowGate) for op in m) and any(op.gate is None for op in m):
            gone = multiset_missing([op for op in m if op.gate is None], list(out.all_operations()))
            if gone:
                f.append('gateless-op-in-cphase-moment-dropped')
                break
    if cfg.name == 'defer_measurements':
        n_inst = {}
        for o in ops_in:
            if isinstance(o.gate, cirq.MeasurementGate):
                n_inst[str(o.gate.key)] = n_inst.get(str(o.gate.key), 0) + 1
        for o in ops_in:
            for cnd in getattr(o.untagged, 'classical_controls', ()):
                if isinstance(cnd, cirq.BitMaskKeyCondition) and n_inst.get(str(cnd.key), 0) > 1 and cnd.index not in (-1, n_inst[str(cnd.key)] - 1):
                    f.append('bitmask-condition-index-ignored')
        f[:] = sorted(set(f))
    if cfg.cat == 'reorder':
        ref = cfg.reference(circuit, deep) if cfg.reference else ops_in
        ref = flatten_ops(cirq, cirq.Circuit(ref)) if cfg.reference else ref
        same = cfg.same
        def proj(ops, pred):
            return [o.untagged if same is eq_untagged else o for o in ops if pred(o)]
        qubits = {q for o in ref for q in o.qubits}
        if any(proj(ref, lambda o: q in o.qubits) != proj(ops_out, lambda o: q in o.qubits) for q in qubits):
            f.append('per-qubit-order-changed')
        keys = {k for o in ref for k in cirq.measurement_key_objs(o) | cirq.control_keys(o)}
        touches = lambda k: (lambda o: k in cirq.measurement_key_objs(o) or k in cirq.control_keys(o))
        if any(proj(ref, touches(k)) != proj(ops_out, touches(k)) for k in keys) and 'per-key-measurement-order-changed' not in f:
            f.append('per-key-order-changed')
    if keys_lose_path(cirq, circuit, ops_in) or keys_lose_path(cirq, out, ops_out):
        f.append('tagged-measurement-loses-key-path')
    if cfg.name == 'drop_terminal_measurements' and measures_inside_a_loop(cirq, circuit):
        f.append('measurement-inside-a-repeated-sub-circuit-taken-as-terminal')
    if cfg.name in ('expand_composite', 'optimize_for_target_gateset', 'map_operations', 'map_operations_and_unroll', 'merge_k_qubit_unitaries'):
        g = decompose_defect(cirq, ops_in)
        if g:
            f.append(f'decompose-disagrees-with-unitary:{g}')
    return '+'.join(f)


PRE_EJECTZ = ('From Coq Require Import List ZArith Bool Arith.\nFrom VF Require Import Base.Harness Xform.EjectZ.\nImport ListNotations.\nOpen Scope Z_scope.\n'
              'Definition nle := list_eqb Nat.eqb.\n'
              'Definition oop_eqb (a b : oop nat) : bool := match a, b with\n'
              ' | OZ q p, OZ q2 p2 => Nat.eqb q q2 && Z.eqb p p2\n'
              ' | OGate g qs ps, OGate g2 qs2 ps2 => Nat.eqb g g2 && nle qs qs2 && list_eqb Z.eqb ps ps2\n'
              ' | OSwap g a c, OSwap g2 a2 c2 => Nat.eqb g g2 && Nat.eqb a a2 && Nat.eqb c c2\n'
              ' | OMeas g qs, OMeas g2 qs2 => Nat.eqb g g2 && nle qs qs2\n'
              ' | OOpaque g qs, OOpaque g2 qs2 => Nat.eqb g g2 && nle qs qs2\n'
              ' | OPhXZ g q p z, OPhXZ g2 q2 p2 z2 => Nat.eqb g g2 && Nat.eqb q q2 && Z.eqb p p2 && Z.eqb z z2\n'
              ' | _, _ => false end.\n')


def ejectz_item(cirq, rng, qs, i, kind=None, on=None):
    """One operation of the eject_z model's alphabet on qubits `qs` (dyadic exponents, phase unit 1/16 turn): returns
    (model item, cirq operation).  Kinds: Z (absorbed), X (PhasedXZ: phased, its z part absorbed, remembered as the last thing
    on its qubit), G (phaseable gate), S (swap-like), M (measurement), O (opaque: phase_by undefined, a measurement-like operation
    that is not a MeasurementGate, an operation carrying the ignored tag, an operation without a gate)."""
    nq = len(qs)
    q = rng.randrange(nq) if on is None else on
    pair = rng.sample(range(nq), 2) if nq >= 2 else None
    if pair and on is not None and on not in pair:
        pair[rng.randrange(2)] = on
    if kind is None:
        r = rng.random()
        kind = ('Z' if r < 0.26 else 'X' if r < 0.4 else 'G1' if r < 0.52 else 'G2' if r < 0.62 else 'S' if r < 0.74 else 'M' if r < 0.8 else 'O')
    if kind in ('G2', 'S') and not pair:
        kind = 'G1'
    if kind == 'Z':
        kk = rng.choice([1, 2, 4, 8, -2, 3, 16, -8, 12, 32, 5])
        return ('Z', q, kk), cirq.Z(qs[q]) ** (kk / 8)
    if kind == 'X':
        kz = rng.choice([0, 1, 2, 4, -4, 8, 3, -6, 16, 5])
        g = cirq.PhasedXZGate(x_exponent=rng.choice([1.0, 0.5, 0.25, -0.5, 0.375]), z_exponent=kz / 8, axis_phase_exponent=rng.choice([0.0, 0.25, 0.125, -0.5]))
        return ('X', i, q, kz), g.on(qs[q])
    if kind == 'G1':
        g = rng.choice([cirq.PhasedXPowGate(phase_exponent=rng.choice([0.0, 0.25, 0.125, -0.5]), exponent=rng.choice([1.0, 0.5, 0.25])),
                        cirq.X ** rng.choice([1.0, 0.5]), cirq.Y ** rng.choice([1.0, -0.5])])
        return ('G', i, [q]), g.on(qs[q])
    if kind == 'G2':
        return ('G', i, pair), (cirq.CZ ** rng.choice([1.0, 0.5, -0.25])).on(*[qs[x] for x in pair])
    if kind == 'S':
        g = rng.choice([cirq.SWAP, cirq.ISWAP, cirq.ISWAP ** -1, cirq.FSimGate(theta=np.pi / 2, phi=0.3)])
        return ('S', i, pair), g.on(*[qs[x] for x in pair])
    if kind == 'M':
        ms = rng.sample(range(nq), rng.randint(1, nq))
        if on is not None and on not in ms:
            ms[0] = on
        return ('M', i, ms), cirq.measure(*[qs[x] for x in ms], key=f'k{i}')
    sub = kind[2:] if kind.startswith('O:') else rng.choice(['H', 'pauli-meas', 'ign1', 'ign2', 'cop1', 'cop2'])
    if sub in ('ign2', 'cop2') and not pair:
        sub = sub[:-1] + '1'
    if sub == 'H':
        return ('O', i, [q]), cirq.H(qs[q])
    if sub == 'pauli-meas':          # a measurement-like operation that is not a MeasurementGate does not absorb the phase: opaque
        return ('O', i, [q]), cirq.PauliMeasurementGate(cirq.DensePauliString(rng.choice('XYZ'), coefficient=rng.choice([1, -1])), key=f'k{i}').on(qs[q])
    if sub == 'ign1':
        return ('O', i, [q]), (cirq.X(qs[q]) ** 0.5).with_tags(IGN)
    if sub == 'ign2':
        return ('O', i, pair), cirq.CZ(*[qs[x] for x in pair]).with_tags(IGN)
    if sub == 'cop1':                # an operation without a gate
        return ('O', i, [q]), cirq.CircuitOperation(cirq.FrozenCircuit(cirq.Y(qs[q]) ** 0.5, cirq.T(qs[q])))
    return ('O', i, sorted(pair)), cirq.CircuitOperation(cirq.FrozenCircuit(cirq.CNOT(*[qs[x] for x in pair]), cirq.H(qs[pair[0]]))).repeat(2)


def ejectz_model_grid(cirq):
    """Deterministic part of the model stream: a PhasedXZ gate on qubit 0, then one operation of every kind on that qubit (nothing, a
    Z gate, every swap-like gate, every kind of opaque operation, a measurement, phaseable gates, another PhasedXZ gate), then
    phase, then every kind of tail (the end of the circuit, a gate that takes the phase, an opaque operation that makes it leave as
    a Z gate, a swap-like gate).  Returns (name, [kinds]); the gates' parameters are drawn."""
    mids = ['-', 'Z', 'S', 'S', 'S', 'O:H', 'O:pauli-meas', 'O:ign1', 'O:ign2', 'O:cop1', 'O:cop2', 'M', 'G1', 'G2', 'X']
    tails = [[], ['Z'], ['Z', 'G1'], ['Z', 'O:H'], ['Z', 'S'], ['Z', 'G2', 'Z']]
    out = []
    for mi, mid in enumerate(mids):
        for ti, tail in enumerate(tails):
            out.append((f'PhXZ;{mid};{",".join(tail) or "end"}', ['X'] + ([] if mid == '-' else [mid]) + tail))
    return out


def ejectz_model_stream(ctx, cirq, checks, case_no, n):
    """Correspondence of the Gallina model of eject_z's loop (Xform/EjectZ.v) with the real transformer, over the model's alphabet
    with dyadic exponents (phase unit 1/16 turn), on a fixed grid of neighbourhoods of a PhasedXZ gate and on drawn operation
    lists.  A python replica of the bookkeeping is only a bridge: Coq checks model(input) == replica's symbolic output, and the
    real output must be trace equivalent (trace_equiv_b) to the operations the replica predicts through cirq.phase_by /
    PhasedXZGate.with_z_exponent."""
    import random
    nat = lambda xs: '[' + '; '.join(f'{int(x)}%nat' for x in xs) + ']'
    zl = lambda xs: '[' + '; '.join(coq.zlit(x) for x in xs) + ']'
    plans = [(f'grid:{name}', kinds) for name, kinds in ejectz_model_grid(cirq)] + [(f'random:{k}', None) for k in range(n)]
    for k, (name, kinds) in enumerate(plans):
        rng = random.Random(f'{ctx.seed}:ejectz-model:{name}')
        iops, cops = [], []
        if kinds is None:
            nq = rng.randint(1, 3)
            qs = cirq.LineQubit.range(nq)
            for i in range(rng.randint(2, 10)):
                it, o = ejectz_item(cirq, rng, qs, i)
                iops.append(it); cops.append(o)
            circuit = cirq.Circuit()
            for o in cops:
                circuit.append(o, strategy=cirq.InsertStrategy.NEW if rng.random() < 0.3 else cirq.InsertStrategy.EARLIEST)
        else:
            # the neighbourhood is on qubit 0: single-qubit operations go there, two-qubit ones on (0, 1) in a drawn orientation
            nq = 2
            qs = cirq.LineQubit.range(nq)
            for i, kd in enumerate(kinds):
                it, o = ejectz_item(cirq, rng, qs, i, kind=kd, on=0)
                iops.append(it); cops.append(o)
            if rng.random() < 0.5:
                iops.insert(0, ('Z', 1, 3)); cops.insert(0, cirq.Z(qs[1]) ** (3 / 8))       # a phase on the other qubit, for the swaps to bring over
            circuit = cirq.Circuit(cops, strategy=cirq.InsertStrategy.NEW)
        # the order in which the transformer visits the operations is the circuit's
        order = list(circuit.all_operations())
        idx = [next(j for j, o in enumerate(cops) if o is v) for v in order]
        iops_v, cops_v = [iops[j] for j in idx], [cops[j] for j in idx]
        # replica (bridge)
        ph = {q: 0 for q in range(nq)}
        mark = {q: None for q in range(nq)}
        sym, exp_ops = [], []
        def dump(which):
            for x in which:
                if ph[x] % 16:
                    sym.append(f'OZ {x}%nat {coq.zlit(ph[x])}'); exp_ops.append(cirq.Z(qs[x]) ** (ph[x] / 8))
                ph[x] = 0
        for t, o in zip(iops_v, cops_v):
            kind = t[0]
            if kind == 'Z':
                _, a, b = t
                mark[a] = None
                ph[a] += b
            elif kind == 'X':
                _, a, x, kz = t
                po = cirq.phase_by(o, -ph[x] / 16, 0) if ph[x] % 16 else o
                sym.append(f'OPhXZ {a}%nat {x}%nat {coq.zlit(ph[x])} 0'); exp_ops.append(po.gate.with_z_exponent(0).on(qs[x]))
                mark[x] = len(exp_ops) - 1
                ph[x] += kz
            elif kind == 'G':
                _, a, b = t
                po = o
                for pos, x in enumerate(b):
                    mark[x] = None
                    if ph[x] % 16:
                        po = cirq.phase_by(po, -ph[x] / 16, pos)
                sym.append(f'OGate {a}%nat {nat(b)} {zl([ph[x] for x in b])}'); exp_ops.append(po)
            elif kind == 'S':
                _, a, b = t
                mark[b[0]] = mark[b[1]] = None
                ph[b[0]], ph[b[1]] = ph[b[1]], ph[b[0]]
                sym.append(f'OSwap {a}%nat {b[0]}%nat {b[1]}%nat'); exp_ops.append(o)
            elif kind == 'M':
                _, a, b = t
                for x in b:
                    ph[x] = 0
                    mark[x] = None
                sym.append(f'OMeas {a}%nat {nat(b)}'); exp_ops.append(o)
            else:
                _, a, b = t
                for x in b:
                    mark[x] = None
                dump(b)
                sym.append(f'OOpaque {a}%nat {nat(b)}'); exp_ops.append(o)
        for x in range(nq):          # the final dump: a qubit whose last operation is a PhasedXZ gate hands its phase to that gate
            if mark[x] is not None:
                j = mark[x]
                head, zold = sym[j].rsplit(' ', 1)
                sym[j] = f'{head} {coq.zlit(ph[x])}'
                exp_ops[j] = exp_ops[j].gate.with_z_exponent(ph[x] / 8).on(qs[x])
                ph[x] = 0
            else:
                dump([x])
        def iterm(t):
            kind = t[0]
            return {'Z': lambda: f'IZ {t[1]}%nat {coq.zlit(t[2])}', 'G': lambda: f'IGate {t[1]}%nat {nat(t[2])}', 'S': lambda: f'ISwap {t[1]}%nat {t[2][0]}%nat {t[2][1]}%nat',
                    'M': lambda: f'IMeas {t[1]}%nat {nat(t[2])}', 'O': lambda: f'IOpaque {t[1]}%nat {nat(t[2])}',
                    'X': lambda: f'IPhXZ {t[1]}%nat {t[2]}%nat {coq.zlit(t[3])}'}[kind]()
        case_no += 1
        cfg = Cfg('eject_z', 'model', None, 'semantic')
        rep = dict(config=cfg.id, deep=False, ignore=True, circuit=repr(circuit), diagram=str(circuit), circuit_kind='ejectz-model', root_cause='')
        try:
            out = cirq.eject_z(circuit, context=cirq.TransformerContext(tags_to_ignore=(IGN,)))
        except Exception as e:
            ctx.violation(f'eject_z:raises:{type(e).__name__}:{error_class(str(e))}', f'eject_z raised {type(e).__name__}: {e} on\n{circuit}', dict(kind='raises', **rep))
            continue
        rep.update(output=repr(out), output_diagram=str(out))
        desc = f'eject_z model on {name}: [{", ".join(str(o) for o in order)[:500]}]'
        checks.append(dict(case=case_no, what='ejectz', stream='eject_z[model]:model-vs-replica', cfg=cfg, rep=rep, desc=desc,
                           expr=f'list_eqb oop_eqb (eject_z 16 {nat(range(nq))} [{"; ".join(iterm(t) for t in iops_v)}]) [{"; ".join(sym)}]'))
        checks.append(dict(case=case_no, what='trace', stream='eject_z[model]:output-vs-model', cfg=cfg, rep=rep, desc=desc,
                           expr=trace_terms(cirq, exp_ops, list(out.all_operations()), eq_plain)))
        # the real output judged by the property itself (reference semantics), so that a disagreement with the model comes with a verdict
        try:
            expr, skind = semantic_check(cirq, rng, flatten_ops(cirq, circuit), flatten_ops(cirq, out), 'same')
            checks.append(dict(case=case_no, what='semantics', stream=f'{cfg.id}:{skind}', expr=expr, cfg=cfg, rep=rep, desc=desc, light=True))
        except opsem.Unsupported as e:
            ctx.count(cfg.id + ':unsupported', str(e), False)
        ctx.count('eject_z[model]', [rep['circuit']], any(t[0] in 'ZX' for t in iops),
                  sample=dict(transformer='eject_z[model]', case=name, circuit=str(circuit)[:300], output=str(out)[:300]))
    return case_no


def grid_stream(ctx, cirq, configs, checks, case_no):
    """The fixed grids (same in both tiers and for every seed): measurement-like operations that are not a cirq.MeasurementGate
    behind every kind of phase / flip, for every configuration that accepts such circuits; the placement grid for the
    configurations that decide by commutation (plain options: deep=False, no ignored tags; the random stream varies those);
    the ignored-tag grid (tags_to_ignore set, a tagged operation between operations the transformer would combine, commute or
    drop) for every configuration that takes tags_to_ignore; the holder / barrier / phase grid for the ejecting configurations
    (tags_to_ignore set); the nested grid (deep=True wherever the configuration takes it, the argument a mutable cirq.Circuit) for
    every configuration that accepts sub-circuits; the key-path grid (keys that differ only by their path) for every configuration
    that accepts measurements and sub-circuits; the idle / Clifford chain / wall grid for the dynamical-decoupling configurations."""
    grid = measlike_grid(cirq)
    ign_grid = ignored_grid(cirq)
    key_grid = keyflow_grid(cirq)
    absorb = absorb_grid(cirq)
    nested = nested_grid(cirq)
    dd = dd_grid(cirq)
    keypaths = keypath_grid(cirq)
    for cfg in configs:
        kinds = set(cfg.kinds)
        if kinds & {'gmeasured', 'ejectable-gmeasured', 'pmeasured', 'gmeasured-nocc'}:
            for gi, (name, circuit) in enumerate(grid):
                if cfg.cat == 'reorder' and gi not in (0, 2, 4):
                    continue            # "move, never change" configurations are decided by the exact trace validator: half the grid
                ops_ = list(circuit.all_operations())
                if not kinds & {'gmeasured', 'ejectable-gmeasured'}:
                    if 'pmeasured' in kinds and any(isinstance(o.gate, (cirq.KrausChannel, cirq.MixedUnitaryChannel)) for o in ops_):
                        continue
                    if 'gmeasured-nocc' in kinds and any(cirq.control_keys(o) for o in ops_):
                        continue
                case_no += 1
                run_case(ctx, cirq, cfg, circuit.copy(), 'grid:' + name, False, False, checks, case_no)
        if getattr(cfg, 'placement', False):
            for name, circuit in placement_grid(cirq, ctx.rng):
                case_no += 1
                run_case(ctx, cirq, cfg, circuit, 'grid:' + name, False, False, checks, case_no)
        if cfg.call is not None and any(('measured' in k or 'terminal' in k) for k in kinds):
            for name, circuit in key_grid:
                case_no += 1
                run_case(ctx, cirq, cfg, circuit.copy(), 'grid:keyflow:' + name, False, False, checks, case_no)
        if cfg.ignore and cfg.call is not None:
            takes_unitary = bool(kinds & {'unitary', 'layers', 'ejectable', 'alphabet', 'idle'}) or any(k.startswith('gauge:') for k in kinds)
            takes_measured = any(('measured' in k or 'terminal' in k) for k in kinds)
            for name, circuit, measured in ign_grid:
                if takes_measured if measured else takes_unitary:
                    case_no += 1
                    run_case(ctx, cirq, cfg, circuit.copy(), 'grid:ignored:' + name, False, True, checks, case_no)
        if 'absorb' in kinds and cfg.call is not None:
            for name, circuit, deep in absorb:
                case_no += 1
                run_case(ctx, cirq, cfg, circuit.copy(), 'grid:absorb:' + name, deep and cfg.deep, cfg.ignore, checks, case_no)
        if cfg.name == 'add_dynamical_decoupling' and cfg.variant != 'custom sequence':       # that one is the DEFAULT sequence given as a tuple
            for name, circuit in dd:
                case_no += 1
                run_case(ctx, cirq, cfg, circuit.copy(), 'grid:dd:' + name, False, False, checks, case_no)
        if cfg.nest and cfg.call is not None and any(('measured' in k or 'terminal' in k) for k in kinds):
            for gi, (name, circuit) in enumerate(keypaths):
                if cfg.cat == 'reorder' and gi % 2:
                    continue            # "move, never change" configurations are decided by the exact trace validator: half the grid
                case_no += 1
                run_case(ctx, cirq, cfg, circuit.copy(), 'grid:keypath:' + name, cfg.deep and gi % 2 == 1, False, checks, case_no)
        if cfg.nest and cfg.call is not None:
            takes_unitary = bool(kinds & {'unitary', 'layers', 'ejectable', 'alphabet'})
            takes_measured = any(('measured' in k or 'terminal' in k) for k in kinds)
            for name, circuit, measured, ignore in nested:
                if takes_measured if measured else takes_unitary:
                    case_no += 1
                    run_case(ctx, cirq, cfg, circuit.copy(), 'grid:nested:' + name, cfg.deep, ignore and cfg.ignore, checks, case_no, mutable=True)
    return case_no


def symbolized_stream(ctx, cirq, checks, case_no, n):
    """merge_single_qubit_gates_to_phxz_symbolized (and through it symbolize_single_qubit_gates_by_indexed_tags): the returned
    circuit resolved with the i-th returned resolver must mean the same as the input resolved with the i-th input resolver."""
    import random
    t = cirq.transformers
    for k in range(n):
        rng = random.Random(f'{ctx.seed}:symbolized:{k}')
        c = gen_param(cirq, rng)
        if rng.random() < 0.4:
            c.append(cirq.measure(*sorted(c.all_qubits())[:1], key='m'))
        names = sorted(cirq.parameter_names(c))
        if not names:
            continue
        sweep = cirq.Zip(*[cirq.Points(key=nm, points=[round(rng.uniform(-1.5, 1.5), 3) for _ in range(3)]) for nm in names])
        cfg = Cfg('merge_single_qubit_gates_to_phxz_symbolized', '', None, 'special')
        rep = dict(config=cfg.id, deep=False, ignore=False, circuit=repr(c), diagram=str(c), circuit_kind='param', sweep=repr(sweep))
        before = snapshot(cirq, c)
        try:
            out, new_sweep = t.merge_single_qubit_gates_to_phxz_symbolized(c, sweep=sweep)
        except Exception as e:
            import traceback
            ctx.violation(f'{cfg.name}:raises:{type(e).__name__}:{error_class(str(e))}', f'{cfg.id} raised {type(e).__name__}: {str(e)[:300]} on\n{c}\nsweep {sweep!r}',
                          dict(kind='raises', error=traceback.format_exc()[-1500:], **rep))
            continue
        if snapshot(cirq, c) != before:
            ctx.violation(f'{cfg.name}:input-modified', f'{cfg.id} modified its argument on\n{c}', dict(kind='input-modified', **rep))
        res_in, res_out = list(sweep), list(new_sweep)
        if len(res_in) != len(res_out):
            ctx.violation(f'{cfg.name}:sweep-length', f'{cfg.id}: returned sweep has {len(res_out)} resolvers for {len(res_in)} input resolvers on\n{c}', dict(kind='sweep', **rep))
            continue
        for i, (ri, ro) in enumerate(zip(res_in, res_out)):
            case_no += 1
            try:
                ci, co = cirq.resolve_parameters(c, ri), cirq.resolve_parameters(out, ro)
                if cirq.is_parameterized(co):
                    ctx.violation(f'{cfg.name}:unresolved-symbols', f'{cfg.id}: the returned sweep does not resolve {sorted(cirq.parameter_names(co))} on\n{c}\noutput\n{out}', dict(kind='sweep', **rep))
                    break
                expr, kind = semantic_check(cirq, rng, flatten_ops(cirq, ci), flatten_ops(cirq, co), 'same')
            except opsem.Unsupported:
                continue
            sym1 = set().union(*[cirq.parameter_names(o) for o in c.all_operations() if len(o.qubits) == 1] or [set()])
            symn = set().union(*[cirq.parameter_names(o) for o in c.all_operations() if len(o.qubits) != 1] or [set()])
            checks.append(dict(case=case_no, what='semantics', stream=f'{cfg.id}:{kind}', expr=expr, cfg=cfg, desc=f'{cfg.id} resolver {i} on {str(c)[:400]}',
                               rep=dict(rep, output=repr(out), output_diagram=str(out), resolver_index=i, new_sweep=repr(new_sweep),
                                        root_cause='symbol-shared-with-multi-qubit-gate' if sym1 & symn else '')))
            ctx.count(cfg.id, [rep['circuit'], i], True, sample=dict(transformer=cfg.id, circuit=str(c)[:300], output=str(out)[:300], resolver=i))
    return case_no


def gauge_as_sweep_stream(ctx, cirq, mods, checks, case_no, n):
    """GaugeTransformer.as_sweep: the returned parameterized circuit resolved with each returned resolver must mean the same as the input."""
    import random
    t, gc = cirq.transformers, cirq.transformers.gauge_compiling
    trs = [('CZGaugeTransformer', t.CZGaugeTransformer, 'cz'), ('SqrtCZGaugeTransformer', t.SqrtCZGaugeTransformer, 'sqrt_cz'), ('CPhaseGaugeTransformer', gc.CPhaseGaugeTransformer, 'cphase'),
           ('SpinInversionGaugeTransformer', t.SpinInversionGaugeTransformer, 'zz'), ('ISWAPGaugeTransformer', t.ISWAPGaugeTransformer, 'iswap'),
           ('SqrtISWAPGaugeTransformer', t.SqrtISWAPGaugeTransformer, 'sqrt_iswap'), ('SYCGaugeTransformer', mods['cirq_google'].transformers.SYCGaugeTransformer, 'syc')]
    for name, tr, kind in trs:
        for k in range(n):
            rng = random.Random(f'{ctx.seed}:as_sweep:{name}:{k}')
            c = gen_layers(cirq, rng, twoq=gauge_targets(cirq, rng, mods, kind) * 3 + [cirq.CNOT], n=rng.randint(2, 3), depth=rng.randint(2, 5))
            cfg = Cfg(name, 'as_sweep', None, 'semantic')
            seed = rng.randrange(1 << 30)
            rep = dict(config=cfg.id, deep=False, ignore=False, circuit=repr(c), diagram=str(c), circuit_kind='gauge-as-sweep', prng_seed=seed, root_cause='')
            before = snapshot(cirq, c)
            try:
                out, sweep = tr.as_sweep(c, N=2, prng=np.random.default_rng(seed))
                resolved = [cirq.resolve_parameters(out, r) for r in sweep]
            except Exception as e:
                import traceback
                ctx.violation(f'{name}:as_sweep:raises:{type(e).__name__}:{error_class(str(e))}', f'{cfg.id} raised {type(e).__name__}: {str(e)[:300]} on\n{c}', dict(kind='raises', error=traceback.format_exc()[-1500:], **rep))
                continue
            if snapshot(cirq, c) != before:
                ctx.violation(f'{name}:as_sweep:input-modified', f'{cfg.id} modified its argument on\n{c}', dict(kind='input-modified', **rep))
            for i, co in enumerate(resolved):
                case_no += 1
                if cirq.is_parameterized(co):
                    ctx.violation(f'{name}:as_sweep:unresolved-symbols', f'{cfg.id}: the returned sweep does not resolve {sorted(cirq.parameter_names(co))} on\n{c}', dict(kind='sweep', **rep))
                    break
                expr, skind = semantic_check(cirq, rng, flatten_ops(cirq, c), flatten_ops(cirq, co), 'same')
                checks.append(dict(case=case_no, what='semantics', stream=f'{cfg.id}:{skind}', expr=expr, cfg=cfg, desc=f'{cfg.id} resolver {i} on {str(c)[:400]}',
                                   rep=dict(rep, output=repr(out), output_diagram=str(out), resolver_index=i)))
                ctx.count(cfg.id, [rep['circuit'], i], True, sample=dict(transformer=cfg.id, circuit=str(c)[:300], output=str(out)[:300], resolver=i))
    return case_no


def randomized_measurements_stream(ctx, cirq, n):
    """RandomizedMeasurements changes the measured basis by design: only `the argument is not modified` applies."""
    import random
    for k in range(n):
        rng = random.Random(f'{ctx.seed}:randmeas:{k}')
        c = gen_unitary(cirq, rng, max_ops=6)
        before = snapshot(cirq, c)
        try:
            cirq.transformers.RandomizedMeasurements()(c, rng=np.random.default_rng(k))
        except Exception as e:
            ctx.violation(f'RandomizedMeasurements:raises:{type(e).__name__}:{error_class(str(e))}', f'RandomizedMeasurements raised {type(e).__name__}: {e} on\n{c}', dict(kind='raises', circuit=repr(c)))
            continue
        if snapshot(cirq, c) != before:
            ctx.violation('RandomizedMeasurements:input-modified', f'RandomizedMeasurements modified its argument on\n{c}', dict(kind='input-modified', circuit=repr(c)))
        ctx.count('RandomizedMeasurements:input-unchanged', repr(c), False)


def make_gauge_seed():
    from ..scripted import ScriptedSeed

    class GaugeSeed(ScriptedSeed):
        """scripted prng: every discrete draw follows the script; a continuous draw (prng.random()) comes from `inner`"""
        def __init__(self, script, inner):
            super().__init__(script)
            self.inner = inner

        def random(self, size=None):
            return self.inner.random()
    return GaugeSeed


def enumerate_gauge_runs(fn, inner_seed, cap):
    """DFS over the discrete draws of fn(prng) (last draw varied first); returns [(probability, result, script)], at most cap."""
    import random
    from ..scripted import NeedBranch
    GaugeSeed = make_gauge_seed()
    runs, stack = [], [[]]
    while stack and len(runs) < cap:
        script = stack.pop()
        seed = GaugeSeed(script, random.Random(inner_seed))
        try:
            runs.append((seed.prob, fn(seed), script))
        except NeedBranch as nb:
            stack.extend(script + [k] for k in reversed(range(len(nb.probs))) if nb.probs[k] > 0)
    return runs


def gauge_sweep_cases(cirq, mods):
    t = cirq.transformers
    gc = t.gauge_compiling
    return [('CZGaugeTransformer', t.CZGaugeTransformer, [cirq.CZ]), ('SqrtCZGaugeTransformer', t.SqrtCZGaugeTransformer, [cirq.CZ ** 0.5, cirq.CZ ** -0.5]),
            ('CPhaseGaugeTransformer', gc.CPhaseGaugeTransformer, [cirq.CZ ** 0.3, cirq.CZ ** -1.7]), ('SpinInversionGaugeTransformer', t.SpinInversionGaugeTransformer, [cirq.ZZ ** 0.3, cirq.ZZ]),
            ('ISWAPGaugeTransformer', t.ISWAPGaugeTransformer, [cirq.ISWAP]), ('SqrtISWAPGaugeTransformer', t.SqrtISWAPGaugeTransformer, [cirq.SQRT_ISWAP]),
            ('SYCGaugeTransformer', mods['cirq_google'].transformers.SYCGaugeTransformer, [mods['cirq_google'].SYC])]


def as_sweep_resolved(cirq, tr, c, prng):
    """as_sweep with one parameter set, resolved: the circuit that sweep point runs"""
    pc, sweep = tr.as_sweep(c, N=1, prng=prng)
    points = list(sweep)
    if len(points) != 1:
        raise ValueError(f'as_sweep(N=1) returned {len(points)} sweep points')
    return pc, cirq.resolve_parameters(pc, points[0])


def gauge_sweep_stream(ctx, cirq, mods, checks, case_no):
    """Every branch of every gauge selector (scripted prng, DFS over its choices) on one target gate between random 1q gates, through
    both entry points: the one-shot call and as_sweep (N=1; the draws of its circuit-building pass stay on their first branch while
    the draws that choose the sweep values are enumerated).  Targets: the canonical gates (both orientations) and every other
    representation of them that the transformer's own target accepts (exponent shifted by periods, global shift, parent class)."""
    import random
    q0, q1 = cirq.LineQubit.range(2)
    for name, tr, base in gauge_sweep_cases(cirq, mods):
        alts = accepted_alternates(cirq, mods, tr, base)
        if ctx.tier == 'quick':
            alts = alts[:5]
        for gi, g in enumerate(base + alts):
            orients = ((q0, q1), (q1, q0)) if gi < len(base) else (((q0, q1), (q1, q0))[gi % 2],)
            for orient in orients:
                rng = random.Random(f'{ctx.seed}:sweep:{name}:{g}:{orient}')
                c = cirq.Circuit(cirq.Moment(rand_1q(cirq, rng).on(q) for q in (q0, q1)), cirq.Moment(g.on(*orient)), cirq.Moment(rand_1q(cirq, rng).on(q) for q in (q0, q1)))
                inner_seed = rng.random()
                entries = [('every gauge', 'gauge-sweep', 'gauge-branch', lambda seed: tr(c, prng=seed), 80)]
                if orient == orients[0]:
                    entries.append(('every gauge as_sweep', 'gauge-sweep-as_sweep', 'as_sweep-branch', lambda seed: as_sweep_resolved(cirq, tr, c, seed)[1], 100))
                n_branches = 80
                for variant, ckind, rc, fn, cap in entries:
                    cfg = Cfg(name, variant, None, 'semantic')
                    try:
                        # as_sweep draws a gauge per target in its building pass and again per sweep point: the first `n_branches` runs
                        # of the DFS are exactly "building pass on its first branch x every branch of the value pass"
                        runs = enumerate_gauge_runs(fn, inner_seed, cap if ckind == 'gauge-sweep' else n_branches)
                        if ckind == 'gauge-sweep':
                            n_branches = len(runs)
                    except Exception as e:
                        import traceback
                        ctx.violation(f'{name}:{variant.replace(" ", "-")}:raises:{type(e).__name__}:{error_class(str(e))}', f'{cfg.id} raised {type(e).__name__}: {str(e)[:300]} on {g!r} {orient}:\n{c}',
                                      dict(kind='raises', error=traceback.format_exc()[-1500:], config=cfg.id, circuit=repr(c), circuit_kind=ckind))
                        continue
                    for prob, out, script in runs:
                        case_no += 1
                        if cirq.is_parameterized(out):
                            ctx.violation(f'{name}:as_sweep:unresolved-symbols', f'{cfg.id}: the returned sweep does not resolve {sorted(cirq.parameter_names(out))} on\n{c}',
                                          dict(kind='sweep', config=cfg.id, circuit=repr(c), circuit_kind=ckind, gauge_script=script))
                            continue
                        ops_in, ops_out = flatten_ops(cirq, c), flatten_ops(cirq, out)
                        expr, kind = semantic_check(cirq, rng, ops_in, ops_out, 'same')
                        rep = dict(config=cfg.id, deep=False, ignore=False, circuit=repr(c), diagram=str(c), circuit_kind=ckind, gauge_script=script, inner_seed=inner_seed,
                                   output=repr(out), output_diagram=str(out), root_cause=f'{rc}:{script}')
                        checks.append(dict(case=case_no, what='semantics', stream=f'{cfg.id}:{kind}', expr=expr, cfg=cfg, rep=rep,
                                           desc=f'{cfg.id} gauge branch {script} on target {g!r} {orient} in [{", ".join(str(op) for op in c.all_operations())}]'))
                        ctx.count(cfg.id, [name, repr(g), str(orient), script], True, sample=dict(transformer=cfg.id, target=repr(g), gauge_script=script, output=str(out)[:300]))
    return case_no


# ---- IdleMomentsGauge: every branch of the gauge draw at every window, model correspondence ----
def make_scripted_generator():
    class ScriptedGenerator(np.random.Generator):
        """A numpy Generator (the transformers that take `rng_or_seed` accept nothing else as a source of randomness) whose draws
        follow a script: draw number p of `choice` returns index script[p], or base(p, arity) beyond the script; every draw is
        recorded as (index, arity).  Any other way of drawing is refused, so an enumeration is never silently incomplete."""
        def __init__(self, script, base=None):
            super().__init__(np.random.PCG64(0))
            self.script_, self.base_, self.draws = list(script), base or (lambda p, arity: 0), []

        def choice(self, a, size=None, replace=True, p=None, axis=0, shuffle=True):
            if size is not None or p is not None:
                raise RuntimeError('ScriptedGenerator: choice with size / p is not scripted')
            arity = int(a) if isinstance(a, (int, np.integer)) else len(a)
            pos = len(self.draws)
            k = self.script_[pos] if pos < len(self.script_) else self.base_(pos, arity)
            if not 0 <= k < arity:
                raise RuntimeError('ScriptedGenerator: script index out of range')
            self.draws.append((k, arity))
            return k if isinstance(a, (int, np.integer)) else a[k]

    def refuse(name):
        def f(self, *a, **kw):
            raise RuntimeError(f'ScriptedGenerator: unexpected draw {name}')
        return f
    for name in dir(np.random.Generator):
        if not name.startswith('_') and name not in ('choice', 'bit_generator'):
            setattr(ScriptedGenerator, name, refuse(name))
    return ScriptedGenerator


def idle_base(pos, arity):
    """the branch the other windows stay on while one window takes every branch: never index 0 (the identity of 'pauli' / 'clifford')"""
    return (1 + 2 * pos) % arity if arity > 1 else 0


def enumerate_draw_sites(fn):
    """Runs fn(generator) with every draw site taking every branch in turn while the other sites stay on idle_base:
    [(full script, result)], distinct scripts; one site => every branch of the selector."""
    SG = make_scripted_generator()
    g = SG([], idle_base)
    first = fn(g)
    sites = list(g.draws)
    runs, seen = [(tuple(k for k, _ in sites), first)], {tuple(k for k, _ in sites)}
    for pos, (_, arity) in enumerate(sites):
        for k in range(arity):
            script = [idle_base(j, a) for j, (_, a) in enumerate(sites[:pos])] + [k]
            g = SG(script, idle_base)
            out = fn(g)
            full = tuple(i for i, _ in g.draws)
            if full not in seen:
                seen.add(full)
                runs.append((full, out))
    return runs


IDLE_GAUGE_SETS = ('pauli', 'clifford', 'inv_clifford', 'custom')


def idle_transformer(cirq, gauges, opts):
    gc = cirq.transformers.gauge_compiling
    return gc.IdleMomentsGauge(gauges=idle_custom_gauges(cirq) if gauges == 'custom' else gauges, **opts)


def idle_shapes(cirq):
    """Deterministic part of the 'gauge inserted around an idle window' class: one window on q0 (q1 is busy in every moment) whose
    first / last moment holds every kind of neighbour - a non-Pauli single-qubit gate (H, T, X**0.5, a general PhasedXZ), a Pauli,
    a tagged gate, a two-qubit gate, an operation / a moment carrying the ignored tag, the beginning / the end of the circuit
    (gauge_beginning / gauge_ending), windows of one moment; then several windows sharing a gate, windows on two qubits, and
    windows next to a single-qubit operation that has no unitary (measurement, channel).
    Returns (name, circuit, options, tags_to_ignore set?)."""
    q0, q1, q2 = cirq.LineQubit.range(3)
    M, H, T, X, Y, Z, S, CZ = cirq.Moment, cirq.H, cirq.T, cirq.X, cirq.Y, cirq.Z, cirq.S, cirq.CZ
    B = lambda: cirq.X(q1) ** 0.5
    ig = lambda op: op.with_tags(IGN)
    phxz = cirq.PhasedXZGate(x_exponent=0.3, z_exponent=0.7, axis_phase_exponent=-0.2)
    C = cirq.Circuit
    return [
        ('H, idle x3, H', C(M(H(q0), B()), M(B()), M(B()), M(B()), M(H(q0), B())), dict(min_length=2), False),
        ('X, idle x3, T[keep]', C(M(X(q0), B()), M(B()), M(B()), M(B()), M(T(q0).with_tags(KEEP))), dict(min_length=3), False),
        ('CZ, idle x2, X**0.5, CZ', C(M(H(q0), H(q1)), M(CZ(q0, q1)), M(B()), M(B()), M(X(q0) ** 0.5, B()), M(CZ(q0, q1))), dict(min_length=2), False),
        ('Y**0.25, idle x1, PhXZ', C(M(Y(q0) ** 0.25, B()), M(B()), M(phxz.on(q0))), dict(min_length=1), False),
        ('X, idle x3, Y', C(M(X(q0)), M(B()), M(B()), M(B()), M(Y(q0), B())), dict(min_length=2), False),
        ('H, idle x3, CZ, H', C(M(H(q0), B()), M(B()), M(B()), M(B()), M(CZ(q0, q1)), M(H(q0))), dict(min_length=2), False),
        ('S, idle x2, H[ign]', C(M(S(q0), B()), M(B()), M(B()), M(ig(H(q0)), B()), M(T(q0))), dict(min_length=2), True),
        ('T[ign], idle x2, X**0.5', C(M(ig(T(q0)), B()), M(B()), M(B()), M(X(q0) ** 0.5, B())), dict(min_length=2), True),
        ('H, idle x2, ignored moment, T', C(M(H(q0), B()), M(B()), M(B()), cirq.Moment([T(q0), B()], tags=(IGN,)), M(H(q0))), dict(min_length=2), True),
        ('idle x2, H (gauge_beginning)', C(M(B()), M(B()), M(H(q0), B()), M(CZ(q0, q1))), dict(min_length=2, gauge_beginning=True), False),
        ('idle x2, CZ (gauge_beginning)', C(M(B()), M(B()), M(CZ(q0, q1)), M(H(q0))), dict(min_length=2, gauge_beginning=True), False),
        ('CZ, T, idle x2 (gauge_ending)', C(M(CZ(q0, q1)), M(T(q0), B()), M(B()), M(B())), dict(min_length=2, gauge_ending=True), False),
        ('CZ, idle x1, CZ', C(M(H(q0), H(q1)), M(CZ(q0, q1)), M(B()), M(CZ(q0, q1)), M(H(q0))), dict(min_length=1), False),
        ('idle x2, H, idle x3, T, idle x2 (both ends)', C(M(B()), M(B()), M(H(q0), B()), M(B()), M(B()), M(B()), M(T(q0)), M(B()), M(B())),
         dict(min_length=2, gauge_beginning=True, gauge_ending=True), False),
        ('windows on two qubits', C(M(X(q0) ** 0.5, H(q2)), M(S(q1), T(q2)), M(H(q2)), M(H(q0), T(q2)), M(T(q1), H(q2)), M(CZ(q0, q1), X(q2) ** 0.5)), dict(min_length=1), False),
        ('H, idle x3, measure', C(M(H(q0), H(q1)), M(B()), M(B()), M(B()), M(cirq.measure(q0, key='a'), cirq.measure(q1, key='b'))), dict(min_length=2), False),
        ('T, idle x2, depolarize', C(M(T(q0), H(q1)), M(B()), M(B()), M(cirq.depolarize(0.1).on(q0), B()), M(cirq.measure(q0, q1, key='m'))), dict(min_length=2), False),
        ('H, idle x2, joint measurement', C(M(H(q0), H(q1)), M(B()), M(B()), M(cirq.measure(q0, q1, key='m'))), dict(min_length=2), False),
    ]


def idle_wires(cirq, circuit, qubits, ignore, fixed_moments=None):
    """The circuit as each qubit sees it (Xform/IdleGauge.v `moment`): per moment 'I' (free), ('M', unitary) (a single-qubit gate
    operation without the ignored tag), 'F' (anything else; every moment that carries the ignored tag).  None if a mergeable
    operation has no unitary (the model has no matrix for it)."""
    tags = {IGN} if ignore else set()
    fixed = [bool(tags & set(m.tags)) for m in circuit] if fixed_moments is None else fixed_moments
    wires = []
    for q in qubits:
        w = []
        for m, fx in zip(circuit, fixed):
            op = m.operation_at(q)
            if fx:
                w.append('F')
            elif op is None:
                w.append('I')
            elif len(op.qubits) == 1 and op.gate is not None and not (tags & set(op.tags)):
                u = cirq.unitary(op, None)
                if u is None:
                    return None, fixed
                w.append(('M', u))
            else:
                w.append('F')
        wires.append(w)
    return wires, fixed


def wires_term(wires):
    return '[' + ';\n  '.join('[' + '; '.join('mi' if x == 'I' else 'mf' if x == 'F' else f'mm {gates.fmat(x[1])}' for x in w) + ']' for w in wires) + ']'


def idle_pre(cirq):
    """prelude of the idle-gauge case files: the transformer's own tables gauges / gauges_inverse, as matrices, for each gauge set"""
    out = [gates.COQ_HEADER + 'From VF Require Import Xform.IdleGauge Xform.IdleGaugeFloat.\n']
    for name in IDLE_GAUGE_SETS:
        tr = idle_transformer(cirq, name, dict(min_length=1))
        for nm, tup in (('gs', tr.gauges), ('gis', tr.gauges_inverse)):
            out.append(f'Definition {nm}_{name} : list FM := [' + ';\n  '.join(gates.fmat(cirq.unitary(g)) for g in tup) + '].\n')
    return ''.join(out)


def idle_case(ctx, cirq, checks, case_no, name, circuit, opts, ignore, gset, script, out, stream_kind):
    """semantic comparison of one run with the input, and comparison with the model's run on the same draws"""
    import random
    cfg = Cfg('IdleMomentsGauge', 'every gauge', None, 'semantic')
    rng = random.Random(f'{ctx.seed}:idle:{case_no}')
    context_s = f'tags_to_ignore={(IGN,) if ignore else ()}'
    opt_s = ', '.join(f'{k}={v}' for k, v in sorted(opts.items()))
    desc = (f'IdleMomentsGauge({opt_s}, gauges={gset!r}) {context_s} with gauge draws {list(script)} on {name}: '
            f'[{" | ".join(", ".join(str(op) for op in m) for m in circuit)}]')
    rep = dict(config=cfg.id, deep=False, ignore=ignore, circuit=repr(circuit), diagram=str(circuit), circuit_kind='idle-gauge', idle_opts=opts, idle_gauges=gset,
               gauge_script=list(script), output=repr(out), output_diagram=str(out), root_cause='idle-window')
    if ignore:
        miss = ignored_missing(cirq, circuit, out, False)
        if miss:
            ctx.violation('IdleMomentsGauge:ignored-op-touched', f'{cfg.id}: operation(s) carrying the ignored tag were changed or removed: {miss[:3]!r}; {desc}\noutput:\n{out}',
                          dict(kind='ignored', missing=repr(miss), **rep))
    try:
        expr, kind = semantic_check(cirq, rng, flatten_ops(cirq, circuit), flatten_ops(cirq, out), 'same')
        checks.append(dict(case=case_no, what='semantics', stream=f'{cfg.id}:{kind}', expr=expr, cfg=cfg, rep=rep, desc=desc, light=len(circuit.all_qubits()) <= 3))
    except opsem.Unsupported as e:
        ctx.count(cfg.id + ':unsupported', str(e), False)
    qubits = list(circuit.all_qubits())          # the order in which the transformer visits the qubits (and consumes the draws)
    wires, fixed = idle_wires(cirq, circuit, qubits, ignore)
    real, _ = idle_wires(cirq, out, qubits, ignore, fixed_moments=fixed) if len(out) == len(circuit) else (None, None)
    if wires is not None and real is not None:
        b = lambda x: 'true' if x else 'false'
        checks.append(dict(case=case_no, what='idle', stream='IdleMomentsGauge[model]:output-vs-model', cfg=cfg, rep=rep, desc=desc,
                           expr=(f'idle_check {TOL} {int(opts["min_length"])}%nat {b(opts.get("gauge_beginning"))} {b(opts.get("gauge_ending"))} gs_{gset} gis_{gset}\n '
                                 f'{wires_term(wires)}\n {gates.nlist(script)}\n {wires_term(real)}')))
    elif wires is not None:
        ctx.mark_broken('correspondence:IdleMomentsGauge[model]', f'the output has {len(out)} moments, the input {len(circuit)}; {desc}')
    ctx.count(f'{cfg.id}:{stream_kind}', [name, repr(circuit), opt_s, gset, list(script), ignore], bool(script),
              sample=dict(transformer=cfg.id, gauges=gset, options=opt_s, gauge_script=list(script), circuit=str(circuit)[:300], output=str(out)[:300]))


def idle_gauge_stream(ctx, cirq, checks, case_no, n_random):
    """IdleMomentsGauge through a scripted generator: on the fixed shapes every window takes every index of the gauge tuple
    (for 'pauli', 'clifford', 'inv_clifford' and a custom tuple) while the other windows stay on a fixed non-identity index; on
    generated sparse circuits (gen_idle) the draws are random.  Each run is compared with the input through the reference
    semantics and with the model of the transformer (Xform/IdleGauge.v) run on the same draws; the transformer's gauge tables are
    checked to be inverse pairs."""
    import random, traceback
    PRE_IDLE[0] = idle_pre(cirq)
    for gset in IDLE_GAUGE_SETS:
        case_no += 1
        cfg = Cfg('IdleMomentsGauge', 'gauge table', None, 'semantic')
        checks.append(dict(case=case_no, what='idle', stream='IdleMomentsGauge[model]:inverse-pairs', cfg=cfg, expr=f'pairs_ok 0x1p-30 gs_{gset} gis_{gset}',
                           rep=dict(config=cfg.id, idle_gauges=gset, root_cause=''), desc=f'gauges_inverse[k] . gauges[k] is a phase for every k, gauges={gset!r}'))
        ctx.count('IdleMomentsGauge[gauge table]', gset, True)
    def run_one(name, circuit, opts, ignore, gset, runs_of, stream_kind):
        nonlocal case_no
        tr = idle_transformer(cirq, gset, opts)
        context = cirq.TransformerContext(tags_to_ignore=(IGN,) if ignore else ())
        before = snapshot(cirq, circuit)
        try:
            runs = runs_of(lambda g: tr(circuit, context=context, rng_or_seed=g))
        except Exception as e:
            sig = f'IdleMomentsGauge:raises:{type(e).__name__}:{error_class(str(e))}'
            if idle_merge_without_unitary(cirq, circuit, ignore, e):
                sig = 'IdleMomentsGauge:raises:TypeError:window-next-to-1q-gate-without-unitary'
            case_no += 1
            ctx.violation(sig, f'IdleMomentsGauge({opts}, gauges={gset!r}) raised {type(e).__name__}: {str(e)[:200]} (tags_to_ignore={(IGN,) if ignore else ()}) on {name}:\n{circuit}',
                          dict(kind='raises', error=traceback.format_exc()[-1500:], config='IdleMomentsGauge[every gauge]', circuit=repr(circuit), circuit_kind='idle-gauge',
                               idle_opts=opts, idle_gauges=gset, ignore=ignore, gauge_script=[]))
            ctx.count('IdleMomentsGauge[every gauge]:raises', [name, gset], False)
            return
        if snapshot(cirq, circuit) != before:
            ctx.violation('IdleMomentsGauge:input-modified', f'IdleMomentsGauge modified its argument on {name}:\n{circuit}', dict(kind='input-modified', circuit=repr(circuit)))
        for script, out in runs:
            case_no += 1
            idle_case(ctx, cirq, checks, case_no, name, circuit, opts, ignore, gset, script, out, stream_kind)
    shapes = idle_shapes(cirq)
    for si, (name, circuit, opts, ignore) in enumerate(shapes):
        for gset in IDLE_GAUGE_SETS:
            if ctx.tier == 'quick' and gset == 'inv_clifford' and si % 3 != 0:
                continue            # the inverse table is the clifford table with the two roles exchanged: a third of the shapes in the quick tier
            run_one('shape:' + name, circuit, opts, ignore, gset, enumerate_draw_sites, 'shapes')
    SG = make_scripted_generator()
    for k in range(n_random):
        rng = random.Random(f'{ctx.seed}:idle-random:{k}')
        circuit = gen_idle(cirq, rng, measured=False)
        ignore = rng.random() < 0.4
        if ignore:
            circuit = decorate(cirq, rng, circuit, tags=True, nest=False)
        gset = IDLE_GAUGE_SETS[k % len(IDLE_GAUGE_SETS)]
        opts = dict(min_length=rng.randint(1, 3))
        if rng.random() < 0.5:
            opts['gauge_beginning'] = True
        if rng.random() < 0.5:
            opts['gauge_ending'] = True
        draw = random.Random(rng.random())
        def one_random_run(fn, draw=draw):
            g = SG([], lambda pos, arity: draw.randrange(arity))
            out = fn(g)
            return [(tuple(i for i, _ in g.draws), out)]
        run_one(f'random:{k}', circuit, opts, ignore, gset, one_random_run, 'random')
    return case_no


PRE_IDLE = ['']


def run(ctx):
    mods = env.import_cirq(('cirq_google',))
    cirq = mods['cirq']
    ctx.rule = ('every exported transformer x options (deep, tags_to_ignore, variants) on generated circuits: unitary circuits over the gate vocabulary (2-4 qubits), '
                'circuits with mid-circuit/terminal measurements (invert masks, confusion maps, repeated keys), classical control (key, bit-mask, sympy conditions), '
                'tags (ignored / innocent), empty moments, nested (repeated, tagged) CircuitOperations, qudits for the reorder-only family; '
                'measurement-like operations of every kind (Pauli-basis measurements X/Y/Z, +/-, 1-2 qubits, keyed Kraus / mixed-unitary channels) mid-circuit and terminal; '
                'circuits over 2-4 distinct gates in many placements; fixed grids (measurement-like neighbourhoods x every measuring configuration, placement grid x insertion sort, '
                'ignored-tag barrier grid x every configuration taking tags_to_ignore, consumed-record grid x every measuring configuration, holder/barrier/phase grid x ejecting configurations, nested grid (mutable argument, deep=True) x every configuration accepting sub-circuits, key-path grid x every measuring configuration accepting sub-circuits, idle / Clifford chain / wall grid x every dynamical-decoupling configuration); Clifford-dense sparse circuits for dynamical decoupling; sub-circuits whose keys get repetition ids or a key path; gauge targets in every accepted representation '
                '(exponent modulo period, global shift) x every selector branch x {call, as_sweep}; IdleMomentsGauge: idle-window shapes x {pauli, clifford, inv_clifford, custom gauges} x every gauge index at every window, '
                'sparse generated circuits (idle runs of 1-5 moments) x {min_length, gauge_beginning, gauge_ending, tags_to_ignore}; '
                'non-trivial = >=2 operations and the output differs from the input; distinct by (transformer, options, circuit)')
    ctx.assumptions += ['float tolerance 1e-6 for the numeric comparison', 'operations enter the model through their own cirq.unitary/kraus/measurement description',
                        'CircuitOperation.mapped_circuit is used to flatten nested circuits on both sides']
    # frozen export list
    names = exported(cirq)
    unknown = [n for n in names if n not in CLASSIFICATION]
    gone = [n for n in CLASSIFICATION if n not in names]
    if unknown or gone:
        ctx.mark_broken('classification:exports', f'unclassified exports: {unknown}; classified but no longer exported: {gone}')
    gc_names = exported_gauge_compiling(cirq)
    gc_unknown, gc_gone = [n for n in gc_names if n not in GC_CLASSIFICATION], [n for n in GC_CLASSIFICATION if n not in gc_names]
    if gc_unknown or gc_gone:
        ctx.mark_broken('classification:gauge_compiling-exports', f'unclassified exports of cirq.transformers.gauge_compiling: {gc_unknown}; classified but no longer exported: {gc_gone}')
    ctx.cov['classification'] = {k: sorted([n for n, v in CLASSIFICATION.items() if v == k] + [f'gauge_compiling.{n}' for n, v in GC_CLASSIFICATION.items() if v == k])
                                 for k in ('reorder', 'semantic', 'special', 'api', 'other')}
    err = tables.regenerate(['GaugeTables'])
    if err['GaugeTables']:
        ctx.mark_broken('table:GaugeTables', err['GaugeTables'])
    ctx.set_obligations(coq.compile_props('C06'))
    mult = 1 if ctx.tier == 'quick' else 10
    configs = make_configs(cirq, mods)
    checks = []
    case_no = grid_stream(ctx, cirq, configs, checks, 0)       # first: a failure is reported on the smallest input that shows it
    case_no = idle_gauge_stream(ctx, cirq, checks, case_no, 12 * mult)
    for cfg in configs:
        n = max(3, int(round(16 * cfg.n * mult)))
        for _ in range(n):
            circuit, kind = gen_circuit(cirq, ctx.rng, cfg.kinds, tags=cfg.tags, nest=cfg.nest, mods=mods)
            deep = cfg.deep and ctx.rng.random() < 0.4
            ignore = cfg.ignore and ctx.rng.random() < 0.5
            case_no += 1
            run_case(ctx, cirq, cfg, circuit, kind, deep, ignore, checks, case_no)
    case_no = gauge_sweep_stream(ctx, cirq, mods, checks, case_no)
    case_no = symbolized_stream(ctx, cirq, checks, case_no, 8 * mult)
    case_no = gauge_as_sweep_stream(ctx, cirq, mods, checks, case_no, 2 * mult)
    randomized_measurements_stream(ctx, cirq, 5 * mult)
    case_no = ejectz_model_stream(ctx, cirq, checks, case_no, 60 * mult)
    failed = evaluate(ctx, checks)
    report(ctx, checks, failed)
    ctx.cov['programs'] = case_no
    ctx.cov['coq_checks'] = {w: sum(1 for c in checks if c['what'] == w) for w in ('trace', 'semantics', 'ejectz', 'idle')}
    ctx.cov['transformers_run'] = sorted({c.name for c in configs})


def replay(ctx, data):
    """Re-runs the single stored case (circuit rebuilt from its repr, same transformer configuration, options and prng seed) through
    the same oracles and the same Coq comparison; True iff the property holds on it."""
    import sympy
    mods = env.import_cirq(('cirq_google',))
    cirq = mods['cirq']
    if data.get('kind') == 'broken' or 'circuit' not in data:
        print('replay: this file names obligations that no longer check, not an input:', [b.get('name') for b in data.get('broken', [])])
        return False
    ns = dict(cirq=cirq, np=np, numpy=np, sympy=sympy, cirq_google=mods['cirq_google'])
    circuit = eval(data['circuit'], ns)
    checks = []
    cid = data.get('config', '')
    if data.get('circuit_kind') in ('gauge-sweep', 'gauge-sweep-as_sweep'):
        import random
        trs = {nm: tr for nm, tr, _ in gauge_sweep_cases(cirq, mods)}
        tr = trs[cid.split('[')[0]]
        seed = make_gauge_seed()(data['gauge_script'], random.Random(data.get('inner_seed', 0)))
        out = as_sweep_resolved(cirq, tr, circuit, seed)[1] if data['circuit_kind'].endswith('as_sweep') else tr(circuit, prng=seed)
        expr, kind = semantic_check(cirq, random.Random(0), flatten_ops(cirq, circuit), flatten_ops(cirq, out), 'same')
        checks.append(dict(case=0, what='semantics', stream=f'{cid}:{kind}', expr=expr, cfg=Cfg(cid.split('[')[0], 'every gauge', None, 'semantic'), rep=dict(data, output_diagram=str(out)), desc=cid))
    elif data.get('circuit_kind') == 'idle-gauge':
        PRE_IDLE[0] = idle_pre(cirq)
        opts, gset, ignore, script = data['idle_opts'], data['idle_gauges'], bool(data.get('ignore')), data.get('gauge_script', [])
        tr = idle_transformer(cirq, gset, opts)
        g = make_scripted_generator()(script, idle_base)
        out = tr(circuit, context=cirq.TransformerContext(tags_to_ignore=(IGN,) if ignore else ()), rng_or_seed=g)
        idle_case(ctx, cirq, checks, 0, 'replay', circuit, opts, ignore, gset, tuple(k for k, _ in g.draws), out, 'replay')
    elif cid.startswith('merge_single_qubit_gates_to_phxz_symbolized'):
        sweep = eval(data['sweep'], ns)
        out, new_sweep = cirq.transformers.merge_single_qubit_gates_to_phxz_symbolized(circuit, sweep=sweep)
        import random
        for i, (ri, ro) in enumerate(zip(sweep, new_sweep)):
            expr, kind = semantic_check(cirq, random.Random(i), flatten_ops(cirq, cirq.resolve_parameters(circuit, ri)), flatten_ops(cirq, cirq.resolve_parameters(out, ro)), 'same')
            checks.append(dict(case=i, what='semantics', stream=f'{cid}:{kind}', expr=expr, cfg=Cfg(cid, '', None, 'special'), rep=dict(data, output_diagram=str(out)), desc=cid))
    else:
        cfg = next((c for c in make_configs(cirq, mods) if c.id == cid), None)
        if cfg is None:
            print('replay: unknown transformer configuration', cid)
            return False
        run_case(ctx, cirq, cfg, circuit, data.get('circuit_kind', '?'), bool(data.get('deep')), bool(data.get('ignore')), checks, 0, prng_seed=data.get('prng_seed'), mutable=data.get('mutable'))
    failed = evaluate(ctx, checks)
    for i in sorted(failed):
        print('replay: Coq check fails:', checks[i]['stream'])
    for v in ctx.violations:
        print('replay: oracle fails:', v['signature'])
    for k in ctx.known_hits:
        print('replay: oracle fails (recorded finding):', k['signature'])
    return not failed and not ctx.violations and not ctx.known_hits
