"""C13 — the Clifford/stabilizer subsystem agrees with full state simulation (DESIGN 5/C13)."""
import cmath, itertools, math, random
from concurrent.futures import ThreadPoolExecutor
import numpy as np
from .. import env, coq, runner, tables

LEVEL = 'proof'
META = dict(
    text='Coq theorems over a hand-written symplectic model of CliffordTableau (rules in the shape of the code): every regenerated rule table (apply_x/y/z/h/cz/cx/_swap over all effective exponents and local patterns, g, _rowsum) equals the model; each local rule is conjugation by the documented gate matrix (generic commutative ring with i, 1/2, 1/sqrt2, any global shift), lifted to n qubits and to whole circuits (every tableau row is U P U^dagger; stabilizers stabilize the evolved state); the 24 single-qubit Cliffords form the group their matrices form; the padded tableau of a multi-qubit CliffordGate object is the tableau of its circuit placed on the chosen axes in the order given (any k, n, axes); kron / reindex of the CH form permute and multiply amplitudes (exact, small n).  On every run the model is evaluated by vm_compute against the implementation after every gate and measurement branch of random Clifford circuits, and spec-level oracles on the real code compare stabilizers, CH-form amplitudes (with phase), measurement probabilities of every branch and the CliffordGate group laws with numpy matrices; run / sample with 2 and 3 repetitions are enumerated over every script of random bits and the joint distribution of the repetitions must be the product of the Born distribution of one execution (copies of a stabilizer state, also copy(deep_copy_buffers=False), are states of their own).',
    note='Trusted: Coq kernel; docstring matrices in coq/Gates/GateSpecs.v; vf/tables_c13.py (exhaustive evaluation of the rules, fail closed); the Python adapters and the numpy reference simulation in vf/checks/c13.py (cirq.unitary of each gate, tensordot, projectors). _measure, then and inverse are modelled and compared exactly but proved only in part (see DESIGN C13); the CH form (with kron / reindex) is compared with the reference state vector and proved only for short circuits on <= 3 qubits.',
    technique='Rocq/Coq proof over regenerated rule tables + vm_compute correspondence + exact branch enumeration with a scripted seed object',
)

ATOL = 1e-6
SHIFTS = [0.0, 0.0, 0.5, -0.5, 0.25, 1.0, 0.125, 0.3, -1.0]
PHASES = [1j, -1, cmath.exp(0.25j * math.pi), cmath.exp(0.3j), 1, -1j]


class Unsupported(Exception):
    pass


class Script:
    """Scripted seed object: every random bit the implementation asks for is answered from a list."""

    def __init__(self, bits=()):
        self.bits = list(bits)
        self.pos = 0

    def randint(self, *a, **k):
        if a != (2,) or k:
            raise Unsupported(f'randint{a}{k}')
        if self.pos >= len(self.bits):
            self.bits.append(0)
        b = self.bits[self.pos]
        self.pos += 1
        return b

    def choice(self, a, p=None, **k):
        # a unitary seen as a one-component mixture: no randomness involved
        if k or p is None or not isinstance(a, (int, np.integer)):
            raise Unsupported('choice')
        sure = [i for i, x in enumerate(p) if abs(x - 1) < 1e-12]
        if len(sure) != 1:
            raise Unsupported('choice with a proper mixture')
        return sure[0]

    def __getattr__(self, name):
        raise Unsupported(name)


# ------------------------------------------------------------------ numpy reference
PAULI = {(False, False): np.eye(2), (True, False): np.array([[0, 1], [1, 0]], dtype=complex),
         (False, True): np.array([[1, 0], [0, -1]], dtype=complex), (True, True): np.array([[0, -1j], [1j, 0]])}


def ref_apply(psi, u, axes, n):
    k = len(axes)
    t = np.asarray(psi, dtype=complex).reshape((2,) * n)
    u = np.asarray(u, dtype=complex).reshape((2,) * (2 * k))
    t = np.tensordot(u, t, axes=(list(range(k, 2 * k)), list(axes)))
    t = np.moveaxis(t, list(range(k)), list(axes))
    return t.reshape(-1)


def embed(u, axes, n):
    """Matrix of u on the given axes of n qubits (columns = images of the basis states)."""
    dim = 2 ** n
    return np.stack([ref_apply(np.eye(dim)[:, j], u, axes, n) for j in range(dim)], axis=1)


def row_apply(bits, sign, psi, n):
    out = psi
    for j, b in enumerate(bits):
        if b != (False, False):
            out = ref_apply(out, PAULI[b], [j], n)
    return -out if sign else out


def row_matrix(bits, sign):
    m = np.eye(1)
    for b in bits:
        m = np.kron(m, PAULI[b])
    return -m if sign else m


def tab_rows(t):
    return [([(bool(t.xs[i, j]), bool(t.zs[i, j])) for j in range(t.n)], bool(t.rs[i])) for i in range(2 * t.n)]


def stabilizer_failures(t, psi):
    n = t.n
    rows = tab_rows(t)
    return [i for i in range(n, 2 * n) if not np.allclose(row_apply(rows[i][0], rows[i][1], psi, n), psi, atol=ATOL)]


def tableau_matches_unitary(t, u):
    """Row j is U X_j U^dagger, row n+j is U Z_j U^dagger, signs included."""
    n = t.n
    rows = tab_rows(t)
    ud = u.conj().T
    for j in range(n):
        for k, p in ((j, (True, False)), (n + j, (False, True))):
            gen = row_matrix([p if i == j else (False, False) for i in range(n)], False)
            if not np.allclose(u @ gen @ ud, row_matrix(*rows[k]), atol=ATOL):
                return False
    return True


def phase_equal(a, b):
    k = np.unravel_index(np.argmax(np.abs(b)), b.shape)
    if abs(b[k]) < 1e-9:
        return False
    c = a[k] / b[k]
    return abs(abs(c) - 1) < ATOL and np.allclose(a, c * b, atol=ATOL)


# ------------------------------------------------------------------ vocabulary
FAM1 = {'X': 'XPowGate', 'Y': 'YPowGate', 'Z': 'ZPowGate', 'H': 'HPowGate'}
FAM2 = {'CZ': 'CZPowGate', 'CX': 'CXPowGate', 'SWAP': 'SwapPowGate'}
CQ = {'X': 'CX_', 'Y': 'CY_', 'Z': 'CZ_', 'H': 'CH_', 'CZ': 'CCZ_', 'CX': 'CCX_', 'SWAP': 'CSWAP_'}


def draw_op(rng, n, allow_derived=True):
    r = rng.random()
    if r < 0.12 and allow_derived:
        return draw_derived(rng, n)
    if r < 0.16:
        return dict(kind='g', fam='PH', phase=rng.randrange(len(PHASES)), axes=[])
    if n >= 2 and r < 0.5:
        fam = rng.choice(['CZ', 'CX', 'CX', 'SWAP'])
        q4 = 4 * rng.choice([1, 1, 1, -1, 3, 2, 0, 5])
        c, t = rng.sample(range(n), 2)
        return dict(kind='g', fam=fam, q4=q4, shift=rng.choice(SHIFTS), axes=[c, t])
    fam = rng.choice(['X', 'Y', 'Z', 'H', 'H', 'Z'])
    if fam == 'H':
        q4 = 4 * rng.choice([1, 1, 1, -1, 3, 2, 0])
    else:
        q4 = 2 * rng.choice([1, 2, 3, -1, -2, -3, 5, 7, 4, 0, 1, 3])
    return dict(kind='g', fam=fam, q4=q4, shift=rng.choice(SHIFTS), axes=[rng.randrange(n)])


def draw_derived(rng, n):
    """Clifford operations the stabilizer states execute through decomposition (compared with the reference only)."""
    names = ['I', 'SQC', 'PhX', 'PhXZ', 'Mat', 'Rx', 'DPS']
    if n >= 2:
        names += ['ISWAP', 'CY', 'XX', 'YY', 'ZZ', 'CG2', 'PS', 'CGN', 'CGN']
    name = rng.choice(names)
    two = name in ('ISWAP', 'CY', 'XX', 'YY', 'ZZ', 'CG2', 'PS')
    axes = rng.sample(range(n), 2) if two else [rng.randrange(n)]
    if name == 'DPS':
        axes = list(range(n))
    op = dict(kind='d', name=name, axes=axes, a=rng.randrange(24), b=rng.randrange(-3, 5), c=rng.randrange(4),
              word=[rng.randrange(5) for _ in range(rng.randrange(1, 7))])
    if name == 'CGN':            # a multi-qubit CliffordGate object on k of the n qubits (half of the time on all of them), any order
        k = min(n, 4) if rng.random() < 0.5 else rng.randint(2, min(n, 4))
        op.update(axes=rng.sample(range(n), k), spec=draw_cg_spec(rng, k))
    return op


# ---- multi-qubit cirq.CliffordGate objects.  A spec is {'k', 'named'} (a gate cirq names) or {'k', 'word'} (from_op_list
# of a word over H_i, S_i, CX_ij on k qubits); its reference matrix is the numpy product of the generator matrices.
NAMED_CG = {'CNOT': [('CX', [0, 1])], 'CZ': [('CZ', [0, 1])], 'SWAP': [('SWAP', [0, 1])],
            'CXSWAP': [('CX', [0, 1]), ('SWAP', [0, 1])], 'CZSWAP': [('CZ', [0, 1]), ('SWAP', [0, 1])]}


def cg_gens(k):
    return [('H', [i]) for i in range(k)] + [('S', [i]) for i in range(k)] + [('CX', [i, j]) for i in range(k) for j in range(k) if i != j]


def draw_cg_spec(rng, k, minlen=2):
    if k == 2 and rng.random() < 0.4:
        return dict(k=2, named=rng.choice(sorted(NAMED_CG)))
    m = len(cg_gens(k))
    return dict(k=k, word=[rng.randrange(m) for _ in range(rng.randint(minlen, 4 * k))])


def cg_gate(cirq, spec):
    """(the CliffordGate of the spec, its reference matrix from numpy products of generator matrices)."""
    k = spec['k']
    if 'named' in spec:
        nm = spec['named']
        gate = getattr(cirq.CliffordGate, nm) if hasattr(cirq.CliffordGate, nm) else getattr(cirq, nm)
        word = NAMED_CG[nm]
    else:
        gens = cg_gens(k)
        word = [gens[i] for i in spec['word']]
        q = cirq.LineQubit.range(k)
        mk = {'H': cirq.H, 'S': cirq.S, 'CX': cirq.CNOT}
        gate = cirq.CliffordGate.from_op_list([mk[nm].on(*[q[a] for a in ax]) for nm, ax in word], q)
    u = np.eye(2 ** k, dtype=complex)
    for nm, ax in word:
        u = embed(gen_unitary(cirq, nm), ax, k) @ u
    return gate, u


def cg_text(spec):
    if 'named' in spec:
        return 'CliffordGate.' + spec['named'] if spec['named'] in ('CNOT', 'CZ', 'SWAP') else 'cirq.' + spec['named']
    gens = cg_gens(spec['k'])
    return 'from_op_list[' + ' '.join(f'{gens[i][0]}{"".join(str(a) for a in gens[i][1])}' for i in spec['word']) + ']'


def make_gate(cirq, op):
    if op['kind'] == 'g':
        f = op['fam']
        if f == 'PH':
            return cirq.GlobalPhaseGate(PHASES[op['phase']])
        cls = getattr(cirq, FAM1.get(f) or FAM2[f])
        return cls(exponent=op['q4'] / 4.0, global_shift=op['shift'])
    nm, a, b, c = op['name'], op['a'], op['b'], op['c']
    if nm == 'I':
        return cirq.I
    if nm == 'SQC':
        return cirq.SingleQubitCliffordGate.all_single_qubit_cliffords[a]
    if nm == 'PhX':
        return cirq.PhasedXPowGate(phase_exponent=b / 2.0, exponent=c / 2.0)
    if nm == 'PhXZ':
        return cirq.PhasedXZGate(x_exponent=c / 2.0, z_exponent=b / 2.0, axis_phase_exponent=(a % 4) / 2.0)
    if nm == 'Mat':
        u = cirq.unitary(cirq.SingleQubitCliffordGate.all_single_qubit_cliffords[a]) * PHASES[c]
        return cirq.MatrixGate(u)
    if nm == 'Rx':
        return [cirq.rx, cirq.ry, cirq.rz][a % 3](b * math.pi / 2)
    if nm == 'DPS':
        return None          # built with the qubits in make_operation
    if nm == 'ISWAP':
        return cirq.ISWAP ** b
    if nm == 'CY':
        return cirq.ControlledGate(cirq.Y)
    if nm in ('XX', 'YY', 'ZZ'):
        return getattr(cirq, nm) ** (b / 2.0)
    if nm == 'CG2':
        q = cirq.LineQubit.range(2)
        gens = [cirq.H(q[0]), cirq.H(q[1]), cirq.S(q[0]), cirq.S(q[1]), cirq.CNOT(q[0], q[1])]
        return cirq.CliffordGate.from_op_list([gens[i] for i in op['word']], q)
    if nm == 'PS':
        return None
    if nm == 'CGN':
        return cg_gate(cirq, op['spec'])[0]
    raise KeyError(nm)


def make_operation(cirq, op, qubits):
    qs = [qubits[a] for a in op['axes']]
    if op['kind'] == 'd' and op['name'] == 'DPS':
        rng = np.random.RandomState(op['a'] * 7 + op['c'])
        mask = ''.join('IXYZ'[rng.randint(4)] for _ in qubits)
        return cirq.DensePauliString(mask, coefficient=[1, -1, 1j, -1j][op['c']]).on(*qubits)
    if op['kind'] == 'd' and op['name'] == 'PS':
        ps = [cirq.X, cirq.Y, cirq.Z]
        return cirq.PauliString({qs[0]: ps[op['a'] % 3], qs[1]: ps[op['c'] % 3]}, coefficient=[1, -1][op['b'] % 2])
    g = make_gate(cirq, op)
    return g.on(*qs)


def op_cgate(op):
    if op['fam'] == 'PH':
        return 'CPhase_'
    ax = ' '.join(str(a) for a in op['axes'])
    return f'({CQ[op["fam"]]} {coq.zlit(op["q4"])} {ax})'


def tab_coq(t):
    rows = tab_rows(t)
    return '[' + '; '.join('R [' + ';'.join(str(2 * int(x) + int(z)) for x, z in bits) + '] ' + ('true' if r else 'false')
                           for bits, r in rows) + ']'


def tab_lit(t):
    """The tableau as a packed literal for the generated cases files (Cliff/TableauHarness.v: TI)."""
    n, v, k = t.n, 0, 0
    for i in range(2 * n):
        for j in range(n):
            v |= (int(t.zs[i, j]) << k) | (int(t.xs[i, j]) << (k + 1))
            k += 2
        v |= int(t.rs[i]) << k
        k += 1
    chunks = [(v >> s) & ((1 << 60) - 1) for s in range(0, max(k, 1), 60)]
    return f'(TI {n} [' + ';'.join(str(c) for c in chunks) + '])'


def B(b):
    return 'true' if b else 'false'


def fcl(z):
    z = complex(z)
    f = lambda x: ('(%s)' % float(x).hex()) if float(x).hex().startswith('-') else float(x).hex()
    return f'({f(z.real)}, {f(z.imag)})%float'


def ch_coq(c):
    bmx = lambda m: '[' + ';'.join('[' + ';'.join(str(int(x)) for x in row) + ']' for row in np.asarray(m)) + ']'
    bvx = lambda v: '[' + ';'.join(str(int(x)) for x in np.asarray(v)) + ']'
    gam = '[' + ';'.join(str(int(x) % 4) for x in c.gamma) + ']%Z'
    return f'(C {bmx(c.F)} {bmx(c.G)} {bmx(c.M)} {gam} {bvx(c.v)} {bvx(c.s)} {fcl(c.omega)})'


def op_phase(op):
    if op['fam'] == 'PH':
        return PHASES[op['phase']]
    return cmath.exp(1j * math.pi * op['shift'] * (op['q4'] / 4.0))


# ------------------------------------------------------------------ the walk: one circuit, every oracle after every step
def measured_bit(state, key):
    rec = state.classical_data.records
    (k,) = [k for k in rec if str(k) == key]
    return int(rec[k][-1][0])


class FailList(list):
    """Failures of one walk; every entry remembers the index of the step at which it was found."""
    k = 0

    def append(self, item):
        list.append(self, tuple(item) + (self.k,))


def describe_ops(ops, limit=420):
    """Compact text of a generated circuit for the `what:` line of a violation."""
    out = []
    for op in ops:
        if op['kind'] == 'c':        # an operation controlled by the record of the measurement at index src
            out.append(describe_ops([op['op']]) + f'?k{op["src"]}')
            continue
        ax = ','.join(str(a) for a in op['axes'])
        if op['kind'] in ('m', 'r'):
            out.append(('M' if op['kind'] == 'm' else 'Reset') + f'({ax})')
        elif op['kind'] == 'd':
            out.append((cg_text(op['spec']) if op['name'] == 'CGN' else op['name']) + f'({ax})')
        elif op['fam'] == 'PH':
            out.append('Phase')
        else:
            e = '' if op['q4'] == 4 else f'^{op["q4"] / 4:g}'
            sh = '' if not op.get('shift') else f'[shift {op["shift"]:g}]'
            out.append(f'{op["fam"]}{e}{sh}({ax})' + ('!' if op['kind'] == 'e' else ''))
    text = ' '.join(out)
    return text if len(text) <= limit else '... ' + text[-limit:]


def product_class(t, q):
    """For a Z measurement of qubit q whose outcome is fixed by the stabilizer group of tableau t: (k, phase) where k is
    the number of stabilizer generators whose product is +/-Z_q (those whose destabilizer partner has an X on q) and
    phase says that multiplying their Pauli strings (signs left out) gives -Z_q, i.e. the i^k factors matter.
    Used to count which classes of measurement the generated cases reach, never to judge."""
    n = t.n
    rows = [i for i in range(n) if t.xs[i, q]]
    c = 1.0 + 0j
    for j in range(n):
        m = np.eye(2, dtype=complex)
        for i in rows:
            m = m @ PAULI[(bool(t.xs[n + i, j]), bool(t.zs[n + i, j]))]
        c *= m[0, 0] if abs(m[0, 0]) > 0.5 else m[0, 1]
    return len(rows), bool(c.real < -0.5)


def tableau_measure(ctx, pre, run, psi, q, key, first_bit, cid, advancing, steps, fails):
    """Measure qubit q of the tableau `pre` once per scripted random bit (run(bit) -> (tableau after, outcome, number of
    random values drawn, handle); every call starts from a copy of the same state), judge every branch against the
    reference state psi and append the SM/SMalt steps for the model.  Returns (handle, outcome) of the branch first_bit."""
    n = pre.n
    p1 = float(np.sum(np.abs(psi.reshape((2,) * n).take(1, axis=q)) ** 2))
    post, out, calls, handle = run(first_bit)
    if calls not in (0, 1):
        raise Unsupported('tableau measurement consumed %d random values' % calls)
    rnd = calls == 1
    tag = 'SM' if advancing else 'SMalt'
    sm = f'{tag} {q} {B(first_bit)} {tab_lit(post)} {B(out)} {B(rnd)}'
    if rnd:
        post2, out2, _, _ = run(1 - first_bit)
        steps.append(f'SMalt {q} {B(1 - first_bit)} {tab_lit(post2)} {B(out2)} true')   # from the same pre-state
        steps.append(sm)
        if abs(p1 - 0.5) > ATOL or out2 == out:
            fails.append(('measure-prob', 'tableau', f'tableau measurement of qubit {q} is random (1/2, 1/2) but Born P(1) = {p1:.6f}'))
        for tb, ob in ((post, out), (post2, out2)):
            alt = project(psi, q, ob, n)
            if alt is not None and stabilizer_failures(tb, alt):
                fails.append(('stabilizer', 'measure', f'after measuring qubit {q} -> {ob} the stabilizers do not stabilize the collapsed state'))
    else:
        steps.append(f'SMsame {q} {B(out)}' if post == pre else sm)
        if abs((p1 if out else 1 - p1) - 1) > ATOL:
            fails.append(('measure-prob', 'tableau', f'tableau measurement of qubit {q} is deterministic {out} but Born P(1) = {p1:.6f}'))
        kk, ph = product_class(pre, q)
        ctx.count('measure_deterministic', [cid, key, kk], kk >= 2)
        ctx.count('measure_product_phase', [cid, key, kk], ph)
    ctx.count('measure_branch', [cid, key, 't'], rnd)
    return handle, out


def act_on_measure(cirq, ts, qubits, q, key):
    """run(bit) for tableau_measure: act_on of a MeasurementGate on a copy of the simulation state ts."""
    mop = cirq.measure(qubits[q], key=key)

    def run(bit):
        c = ts.copy(deep_copy_buffers=bool(bit))      # (either kind of copy must be a state of its own: walk checks ts afterwards)
        c._prng = Script([bit])
        cirq.act_on(mop, c)
        return c.tableau, measured_bit(c, key), c.prng.pos, c
    return run


def chform_measure_probability(cirq, cs, qubits, q, key, want_out=None):
    """Run the CH-form measurement of qubit q under every script of random bits.  Returns (P(1), chosen state, its script)."""
    mop = cirq.measure(qubits[q], key=key)
    nv = int(np.sum(cs.state.v))
    hits, chosen, script = 0, None, None
    for bits in itertools.product([0, 1], repeat=nv):
        cc = cs.copy(deep_copy_buffers=bool(sum(bits) % 2))
        cc._prng = Script(bits)
        cirq.act_on(mop, cc)
        if cc.prng.pos != nv:
            raise Unsupported('CH-form measurement consumed %d random values, expected %d' % (cc.prng.pos, nv))
        o = measured_bit(cc, key)
        hits += o
        if o == want_out and chosen is None:
            chosen, script = cc, bits
    return hits / 2 ** nv, nv, chosen, script


def walk(ctx, cirq, case, report=True):
    """Run one generated circuit on the tableau and CH-form states and on the numpy reference.
    Returns (steps for the Coq trace, list of failure strings)."""
    n, init, ops = case['n'], case['init'], case['ops']
    qubits = cirq.LineQubit.range(n)
    ts = cirq.CliffordTableauSimulationState(tableau=cirq.CliffordTableau(n, initial_state=init), qubits=qubits, prng=Script())
    cs = cirq.StabilizerChFormSimulationState(qubits=qubits, prng=Script(), initial_state=init)
    psi = np.zeros(2 ** n, dtype=complex)
    psi[init] = 1
    t0 = tab_lit(ts.tableau)
    c0 = ch_coq(cs.state)
    steps, chsteps, fails, trimmed = [], [], FailList(), False

    def oracles(label):
        bad = stabilizer_failures(ts.tableau, psi)
        if bad:
            fails.append(('stabilizer', label, f'stabilizer row(s) {bad} of the tableau do not stabilize the reference state'))
        sv = cs.state.state_vector()
        if not np.allclose(sv, psi, atol=ATOL):
            kind = 'chform-phase' if phase_equal(sv, psi) else 'chform-state'
            fails.append((kind, label, f'CH-form state_vector differs from the reference (max diff {np.max(np.abs(sv - psi)):.3g})'))
        ctx.count('state_oracle', [case['id'], len(steps)], True)

    def unchanged(snap, what):
        # a copy (also one that shares scratch buffers, deep_copy_buffers=False) is a state of its own
        st, sc, bt, bsv = snap
        if tab_lit(st.tableau) != bt:
            fails.append(('copy-independence', 'tableau', f'CliffordTableauSimulationState: {what} changed the rows of the other tableau (copy(deep_copy_buffers=False))'))
        sv = sc.state.state_vector()
        if not np.allclose(sv, bsv, atol=ATOL):
            fails.append(('copy-independence', 'chform', f'StabilizerChFormSimulationState: {what} changed the state of the other one (copy(deep_copy_buffers=False)): '
                          f'its state vector was {cirq.dirac_notation(bsv)}, now it is {cirq.dirac_notation(sv)}'))
        ctx.count('copy_independence', [case['id'], fails.k], True)

    for k, op in enumerate(ops):
        fails.k = k
        if op['kind'] in ('g', 'd'):
            o = make_operation(cirq, op, qubits)
            label = op.get('fam') or op['name']
            if op['kind'] == 'g':
                label += ':' + str(op.get('q4', 0) % 8)
            snap = (ts.copy(deep_copy_buffers=False), cs.copy(deep_copy_buffers=False), tab_lit(ts.tableau), cs.state.state_vector())
            cirq.act_on(o, ts)
            cirq.act_on(o, cs)
            unchanged(snap, 'applying ' + describe_ops([op]) + ' to the state it was copied from')
            u = cirq.unitary(o)
            psi = ref_apply(psi, u, [qubits.index(q) for q in o.qubits], n) if o.qubits else psi * complex(u.reshape(-1)[0])
            if op['kind'] == 'd' and op['name'] == 'CGN':
                # a CliffordGate object acts on the tableau by then(padded tableau): replayed through the model (pad_tab, tab_then)
                gate, uref = cg_gate(cirq, op['spec'])
                steps.append(f'SCG {op["spec"]["k"]} {tab_lit(gate.clifford_tableau)} ([{";".join(str(a) for a in op["axes"])}])%nat {tab_lit(ts.tableau)}')
                if not phase_equal(np.asarray(cirq.unitary(gate)), uref) or not tableau_matches_unitary(gate.clifford_tableau, uref):
                    fails.append(('cgate-unitary', 'CGN', f'{cg_text(op["spec"])}: unitary / tableau of the CliffordGate is not the product of its generators\' matrices'))
                ctx.count('cgate_act_on', [case['id'], k], len(op['axes']) == n and op['axes'] != sorted(op['axes']),
                          sample=dict(n=n, gate=cg_text(op['spec']), on=op['axes']))
            else:
                steps.append(f'SG {op_cgate(op)} (Some {tab_lit(ts.tableau)})' if op['kind'] == 'g' else f'SSkip {tab_lit(ts.tableau)}')
            chsteps.append(f'HG {op_cgate(op)} {fcl(op_phase(op))} (Some {ch_coq(cs.state)})' if op['kind'] == 'g' else f'HSkip {ch_coq(cs.state)}')
            if not case.get('trim') or trimmed or k + 1 >= len(ops) or ops[k + 1]['kind'] not in ('g', 'd'):
                oracles(label)         # (a trimmed case is judged from the end of its gate prefix onwards)
        elif op['kind'] == 'e':          # direct call with an inadmissible exponent: must raise and leave the tableau alone
            t = ts.tableau
            before = t.copy()
            call = getattr(t, 'apply_' + op['fam'].lower())
            try:
                call(*op['axes'], op['q4'] / 4.0, op['shift'])
                raised = False
            except ValueError:
                raised = True
            steps.append(f'SG {op_cgate(op)} ({"None" if raised else "Some " + tab_lit(t)})')
            if raised and t != before:
                fails.append(('error-path', op['fam'], 'apply_* raised ValueError after modifying the tableau'))
            chb = cs.state.copy()
            try:
                getattr(cs.state, 'apply_' + op['fam'].lower())(*op['axes'], op['q4'] / 4.0, op['shift'])
                chsteps.append(f'HG {op_cgate(op)} {fcl(op_phase(op))} (Some {ch_coq(cs.state)})')
            except ValueError:
                chsteps.append(f'HG {op_cgate(op)} {fcl(op_phase(op))} None')
                if ch_coq(chb) != ch_coq(cs.state):
                    fails.append(('error-path', op['fam'], 'CH-form apply_* raised ValueError after modifying the state'))
        elif op['kind'] == 'm':
            if case.get('trim') and not trimmed:     # the model trace starts at the first measurement (gate rules: walk stream)
                t0, steps, trimmed = tab_lit(ts.tableau), [], True
            q = op['axes'][0]
            key = f'm{k}'
            p1 = float(np.sum(np.abs(psi.reshape((2,) * n).take(1, axis=q)) ** 2))
            snap = (ts, cs, tab_lit(ts.tableau), cs.state.state_vector())
            if case.get('probe'):        # every other qubit is measured on copies of the same pre-state first
                for pq in range(n):
                    if pq != q:
                        tableau_measure(ctx, ts.tableau, act_on_measure(cirq, ts, qubits, pq, f'p{k}_{pq}'), psi, pq, f'p{k}_{pq}', 0, case['id'], False, steps, fails)
                        if int(np.sum(cs.state.v)) <= 3:
                            pp = float(np.sum(np.abs(psi.reshape((2,) * n).take(1, axis=pq)) ** 2))
                            pch, nv, _, _ = chform_measure_probability(cirq, cs, qubits, pq, f'p{k}_{pq}')
                            if abs(pch - pp) > ATOL:
                                fails.append(('measure-prob', 'chform', f'CH-form measurement of qubit {pq}: P(1) = {pch:.6f} over all {2 ** nv} scripts, Born P(1) = {pp:.6f}'))
                            ctx.count('measure_branch', [case['id'], f'p{k}_{pq}', 'c'], nv > 0)
            c, out = tableau_measure(ctx, ts.tableau, act_on_measure(cirq, ts, qubits, q, key), psi, q, key, op['bit'], case['id'], True, steps, fails)
            # CH form: enumerate every script of this measurement
            pch, nv, chosen, script = chform_measure_probability(cirq, cs, qubits, q, key, want_out=out)
            if chosen is not None:
                chsteps.append(f'HM {q} [{"; ".join(B(b) for b in script)}] {ch_coq(chosen.state)} {B(out)}')
            if abs(pch - p1) > ATOL:
                fails.append(('measure-prob', 'chform', f'CH-form measurement of qubit {q}: P(1) = {pch:.6f} over all {2 ** nv} scripts, Born P(1) = {p1:.6f}'))
            ctx.count('measure_branch', [case['id'], key, 'c'], nv > 0)
            unchanged(snap, f'measuring qubit {q} (and probing the others) on copies')
            ts = c
            ts._prng = Script()
            newpsi = project(psi, q, out, n)
            if newpsi is None or chosen is None:
                fails.append(('measure-prob', 'impossible', f'measurement of qubit {q} returned {out}, which has Born probability 0 or is never produced by the CH form'))
                break
            psi, cs = newpsi, chosen
            cs._prng = Script()
            oracles('measure')
        elif op['kind'] == 'r':          # reset = measurement followed by X on outcome 1; the outcome is not recorded
            if case.get('trim') and not trimmed:
                t0, steps, trimmed = tab_lit(ts.tableau), [], True
            q = op['axes'][0]
            rop = cirq.ResetChannel().on(qubits[q])
            p1 = float(np.sum(np.abs(psi.reshape((2,) * n).take(1, axis=q)) ** 2))
            cands = {}
            for o in (0, 1):
                pj = project(psi, q, o, n)
                if pj is not None:
                    cands[o] = ref_apply(pj, PAULI[(True, False)], [q], n) if o else pj
            res = {}
            for bit in (op['bit'], 1 - op['bit']):
                c = ts.copy()
                c._prng = Script([bit])
                cirq.act_on(rop, c)
                res[bit] = (c, c.prng.pos)
            c, calls = res[op['bit']]
            if calls not in (0, 1):
                raise Unsupported('tableau reset consumed %d random values' % calls)
            if calls == 1 and abs(p1 - 0.5) > ATOL:
                fails.append(('reset', 'tableau', f'tableau reset of qubit {q} draws a fair random bit but Born P(1) = {p1:.6f}'))
            if calls == 0 and len(cands) != 1:
                fails.append(('reset', 'tableau', f'tableau reset of qubit {q} draws no random bit but Born P(1) = {p1:.6f}'))
            for bit in ((0, 1) if calls == 1 else (op['bit'],)):
                if not any(not stabilizer_failures(res[bit][0].tableau, v) for v in cands.values()):
                    fails.append(('reset', 'tableau', f'after reset of qubit {q} (Born P(1) = {p1:.6f}, scripted bit {bit}) the stabilizers do not stabilize any reference post-reset state'))
            okc = [o for o in sorted(cands, key=lambda o: o != op['bit']) if not stabilizer_failures(c.tableau, cands[o])]
            ctx.count('reset_branch', [case['id'], k, 't'], True, sample=dict(n=n, qubit=q, born_p1=p1, random=calls == 1))
            steps.append(f'SSkip {tab_lit(c.tableau)}')
            if not okc:
                break
            newpsi = cands[okc[0]]
            nv = int(np.sum(cs.state.v))
            chosen, mass = None, {o: 0 for o in cands}
            same = len(cands) == 2 and np.allclose(cands[0], cands[1], atol=ATOL)
            for bits in itertools.product([0, 1], repeat=nv):
                cc = cs.copy()
                cc._prng = Script(bits)
                cirq.act_on(rop, cc)
                if cc.prng.pos != nv:
                    raise Unsupported('CH-form reset consumed %d random values, expected %d' % (cc.prng.pos, nv))
                sv = cc.state.state_vector()
                match = [o for o in cands if np.allclose(sv, cands[o], atol=ATOL)]
                if not match:
                    fails.append(('reset', 'chform', f'CH-form reset of qubit {q}: the state after script {bits} is none of the reference post-reset states'))
                for o in match[:1]:
                    mass[o] += 1
                if chosen is None and np.allclose(sv, newpsi, atol=ATOL):
                    chosen = cc
            if not same and any(abs(mass[o] / 2 ** nv - (p1 if o else 1 - p1)) > ATOL for o in cands):
                fails.append(('reset', 'chform', f'CH-form reset of qubit {q}: outcome masses {mass} over {2 ** nv} scripts, Born P(1) = {p1:.6f}'))
            ctx.count('reset_branch', [case['id'], k, 'c'], True)
            if chosen is None:
                break
            chsteps.append(f'HSkip {ch_coq(chosen.state)}')
            ts, cs, psi = c, chosen, newpsi
            ts._prng = Script()
            cs._prng = Script()
            oracles('reset')
    return (case['n'], t0, steps), (c0, chsteps), fails


def project(psi, q, out, n):
    t = psi.reshape((2,) * n).copy()
    idx = [slice(None)] * n
    idx[q] = 1 - out
    t[tuple(idx)] = 0
    nrm = np.linalg.norm(t)
    return None if nrm < 1e-9 else (t / nrm).reshape(-1)


def gen_case(rng, cid, tier):
    n = rng.choice([1, 2, 2, 3, 3, 4, 4, 5, 6])
    init = rng.randrange(2 ** n) if rng.random() < 0.3 else 0
    ops = []
    for _ in range(rng.randint(4, 14 if n < 6 else 9)):
        r = rng.random()
        if r < 0.13:
            ops.append(dict(kind='m', axes=[rng.randrange(n)], bit=rng.randrange(2)))
        elif r < 0.17:
            fam = rng.choice(['X', 'Y', 'Z', 'H', 'CZ', 'CX']) if n >= 2 else rng.choice(['X', 'Y', 'Z', 'H'])
            q4 = rng.choice([1, 3, -1, 5, 7] if fam in 'XYZ' else [1, 2, 3, -2, 6, 5])
            axes = rng.sample(range(n), 2) if fam in ('CZ', 'CX') else [rng.randrange(n)]
            ops.append(dict(kind='e', fam=fam, q4=q4, shift=rng.choice(SHIFTS), axes=axes))
        else:
            ops.append(draw_op(rng, n))
    return dict(id=cid, n=n, init=init, ops=ops)


def G(fam, q4, axes, shift=0.0):
    return dict(kind='g', fam=fam, q4=q4, shift=shift, axes=list(axes))


def gen_entangled_case(rng, cid):
    """Measurements and resets of entangled states whose stabilizer generators are scrambled: a prefix of gates that only
    permutes/phases basis states (CX, CZ, SWAP, S, Z, X: it changes which generators the tableau holds, not the state),
    then a random Clifford circuit on a subset of the qubits with classical controls from the others (so the other qubits
    keep a definite value that is a product of several generators), then every qubit measured or reset in a random order,
    all other qubits being probed on copies before each one."""
    n = rng.choice([3, 4, 4, 5, 5, 6, 6])
    init = rng.randrange(2 ** n) if rng.random() < 0.3 else 0
    sh = lambda: rng.choice(SHIFTS)
    ops = []

    def basis_gate():
        r = rng.random()
        if r < 0.6:
            return G('CX', rng.choice([4, 4, -4, 12]), rng.sample(range(n), 2), sh())
        if r < 0.75:
            return G('CZ', rng.choice([4, -4]), rng.sample(range(n), 2), sh())
        if r < 0.83:
            return G('SWAP', 4, rng.sample(range(n), 2), sh())
        if r < 0.95:
            return G('Z', rng.choice([2, 6, 4, -2]), [rng.randrange(n)], sh())
        return G('X', 4, [rng.randrange(n)], sh())

    for _ in range(rng.randint(2 * n, 5 * n)):
        ops.append(basis_gate())
    sub = rng.sample(range(n), rng.randint(1, n - 1))
    for _ in range(rng.randint(3 * len(sub) + 2, 8 * len(sub) + 4)):
        r = rng.random()
        t = rng.choice(sub)
        if r < 0.25:
            ops.append(G('H', rng.choice([4, 4, -4, 12]), [t], sh()))
        elif r < 0.5:
            ops.append(G(rng.choice('XYZ'), 2 * rng.choice([1, 2, 3, -1, 5]), [t], sh()))
        else:
            c = rng.choice([x for x in range(n) if x != t])
            if c in sub:
                ops.append(G(rng.choice(['CX', 'CX', 'CZ', 'SWAP']), 4, rng.sample([c, t], 2), sh()))
            else:
                ops.append(G(rng.choice(['CX', 'CZ']), 4, [c, t], sh()))
    order = list(range(n))
    rng.shuffle(order)
    for q in order:
        if rng.random() < 0.25:
            ops.append(basis_gate())
        ops.append(dict(kind='r' if rng.random() < 0.15 else 'm', axes=[q], bit=rng.randrange(2)))
    return dict(id=cid, n=n, init=init, ops=ops, probe=True, trim=True)


def walk_stream(ctx, cirq, count):
    walk_cases(ctx, cirq, [gen_case(ctx.rng, cid, ctx.tier) for cid in range(count)], 'walk')


def entangled_stream(ctx, cirq, fixed, count):
    """`fixed` cases from a generator that does not depend on VERIF_SEED (the same on every run), `count` more from ctx.rng."""
    frng = random.Random(0xC13)
    cases = [gen_entangled_case(frng, f'f{i}') for i in range(fixed)] + [gen_entangled_case(ctx.rng, f'e{i}') for i in range(count)]
    walk_cases(ctx, cirq, cases, 'ent', chmodel=False)


def cg_fixed_specs():
    """The CliffordGate objects of the fixed grids (independent of VERIF_SEED): every gate cirq names and words on 2, 3, 4 qubits."""
    frng = random.Random(0xC6)
    specs = [dict(k=2, named=nm) for nm in sorted(NAMED_CG)]
    for k, cnt in ((2, 3), (3, 4), (4, 1)):
        specs += [draw_cg_spec_word(frng, k) for _ in range(cnt)]
    return specs


def draw_cg_spec_word(rng, k):
    m = len(cg_gens(k))
    return dict(k=k, word=[rng.randrange(m) for _ in range(rng.randint(2 * k, 4 * k))])


def cg_target_orders(k, n):
    """Every ordered choice of k of n qubits (k <= 3); for k = 4 the rotations, the reversal and two more orders."""
    if k <= 3:
        return [list(p) for p in itertools.permutations(range(n), k)]
    return [[(i + r) % 4 for i in range(4)] for r in range(4)] + [[3, 2, 1, 0], [1, 0, 3, 2], [2, 0, 3, 1], [0, 2, 1, 3]]


def cgate_order_stream(ctx, cirq, count):
    """Multi-qubit CliffordGate objects applied through act_on to stabilizer states in every qubit order: for every fixed
    spec, the register of exactly the gate's width and of one more qubit, every ordered choice of target qubits, after a
    random Clifford prefix; then `count` VERIF_SEED cases.  Judged by the walk oracles (stabilizers / CH-form amplitudes
    against the numpy reference, the Coq model of then(pad) bit for bit)."""
    frng = random.Random(0xC60)
    cases = []
    for si, spec in enumerate(cg_fixed_specs()):
        k = spec['k']
        for n in ((k, k + 1) if k < 4 else (k,)):
            if k == 3 and n == 4 and si % 2:          # (half of the three-qubit words on the four-qubit register)
                continue
            for targets in cg_target_orders(k, n):
                ops = [draw_op(frng, n, allow_derived=False) for _ in range(n + 2)]
                ops.append(dict(kind='d', name='CGN', axes=targets, spec=spec, a=0, b=0, c=0, word=[]))
                ops.append(draw_op(frng, n, allow_derived=False))
                k2 = frng.randint(2, min(n, 3))
                ops.append(dict(kind='d', name='CGN', axes=frng.sample(range(n), k2), spec=draw_cg_spec(frng, k2), a=0, b=0, c=0, word=[]))
                cases.append(dict(id=f'cg{si}n{n}o{"".join(map(str, targets))}', n=n, init=frng.randrange(2 ** n) if frng.random() < 0.3 else 0, ops=ops))
    for i in range(count):
        n = ctx.rng.choice([2, 3, 3, 4, 4, 5])
        ops = []
        for _ in range(ctx.rng.randint(4, 10)):
            if ctx.rng.random() < 0.35:
                k = min(n, 4) if ctx.rng.random() < 0.6 else ctx.rng.randint(2, min(n, 4))
                ops.append(dict(kind='d', name='CGN', axes=ctx.rng.sample(range(n), k), spec=draw_cg_spec(ctx.rng, k), a=0, b=0, c=0, word=[]))
            elif ctx.rng.random() < 0.1:
                ops.append(dict(kind='m', axes=[ctx.rng.randrange(n)], bit=ctx.rng.randrange(2)))
            else:
                ops.append(draw_op(ctx.rng, n, allow_derived=False))
        cases.append(dict(id=f'cgr{i}', n=n, init=ctx.rng.randrange(2 ** n) if ctx.rng.random() < 0.3 else 0, ops=ops))
    walk_cases(ctx, cirq, cases, 'cgate', chmodel=False)


def oplist_stream(ctx, cirq, count):
    """CliffordGate.from_op_list over op lists that contain multi-qubit CliffordGate operations with their qubits in
    every order, and with a qubit_order that is itself a permutation: the result must conjugate like the numpy product of
    the operations' matrices taken in that qubit order (then the other group laws of check_element)."""
    frng = random.Random(0xC61)
    todo = []
    for spec in cg_fixed_specs():
        k = spec['k']
        if k > 3:
            continue
        for n in (k, k + 1):
            for targets in cg_target_orders(k, n):
                todo.append((frng, spec, n, targets))
    for _ in range(count):
        n = ctx.rng.choice([2, 3, 3, 4])
        k = ctx.rng.randint(2, min(n, 3))
        todo.append((ctx.rng, draw_cg_spec(ctx.rng, k), n, ctx.rng.sample(range(n), k)))
    for rng, spec, n, targets in todo:
        order = list(range(n))
        if rng.random() < 0.5:
            rng.shuffle(order)
        pre = [draw_op(rng, n, allow_derived=False) for _ in range(rng.randint(0, 3))]
        post = [draw_op(rng, n, allow_derived=False) for _ in range(rng.randint(0, 2))]
        oplist_case(ctx, cirq, dict(kind='oplist', spec=spec, n=n, targets=targets, order=order, pre=pre, post=post))


def oplist_case(ctx, cirq, d):
    spec, n, targets, order, pre, post = d['spec'], d['n'], d['targets'], d['order'], d['pre'], d['post']
    qs = cirq.LineQubit.range(n)
    gate, _ = cg_gate(cirq, spec)
    ops = [make_operation(cirq, o, qs) for o in pre] + [gate.on(*[qs[a] for a in targets])] + [make_operation(cirq, o, qs) for o in post]
    u = np.eye(2 ** n, dtype=complex)
    for o in ops:
        m = np.asarray(cirq.unitary(o))
        u = (embed(m, [order.index(q.x) for q in o.qubits], n) if o.qubits else complex(m.reshape(-1)[0]) * np.eye(2 ** n)) @ u
    key = f'from_op_list([{describe_ops(pre, 150)} ; {cg_text(spec)}({",".join(map(str, targets))}) ; {describe_ops(post, 100)}], qubit_order={order})'
    built = cirq.CliffordGate.from_op_list(ops, [qs[i] for i in order])
    check_element(ctx, cirq, 'group_oplist', n, built, u, key, 'groupn', full=n <= 3, replay=d)
    ctx.count('group_oplist', key, targets != sorted(targets) or order != sorted(order), sample=dict(n=n, ops=key[:200]))


def walk_cases(ctx, cirq, case_list, name, chmodel=True):
    traces, chtraces, cases = [], [], []
    for case in case_list:
        trace, chtrace, fails = walk(ctx, cirq, case)
        report_fails(ctx, case, fails)
        traces.append(trace)
        chtraces.append(chtrace)
        for k, hs in enumerate(chtrace[1] if chmodel else []):
            ctx.count('chform_step', [case['id'], k], not hs.startswith('HSkip'), sample=dict(n=case['n'], step=hs[:200]))
        cases.append(case)
        for k, s in enumerate(trace[2]):
            nontrivial = not s.startswith('SSkip')
            ctx.count('tableau_rule_step', [case['id'], k], nontrivial,
                      sample=dict(n=case['n'], op={kk: v for kk, v in case['ops'][min(k, len(case['ops']) - 1)].items() if kk != 'word'}, step=s[:160]))
    bad = eval_traces(ctx, name, traces)
    for ti, k in bad:
        ctx.mark_broken('correspondence:tableau_rule_step', f'circuit {cases[ti]["id"]} step {k}: model and implementation tableaux differ: {traces[ti][2][k][:300]}')
        # the spec-level oracles already ran on this very circuit (walk); a failure there is the failing input
    for ti, k in eval_chtraces(ctx, 'ch' + name, chtraces if chmodel else []):
        ctx.mark_broken('correspondence:chform_step', f'circuit {cases[ti]["id"]} step {k}: model and implementation CH forms differ: {chtraces[ti][1][k][:400]}')


def report_fails(ctx, case, fails):
    for kind, label, what, k in fails:
        ctx.violation(f'{kind}:{label}', f'n={case["n"]} init={case["init"]}: {what}; circuit up to this step: {describe_ops(case["ops"][:k + 1])}',
                      dict(kind='walk', case=case))


def eval_traces(ctx, name, traces, shard=40):
    """Evaluate the model on the recorded traces; returns [(trace index, step index)] of disagreements."""
    head = ('From Coq Require Import List Bool ZArith Uint63.\nFrom VF Require Import Cliff.Tableau Cliff.TableauHarness.\n'
            'Import ListNotations.\nOpen Scope uint63_scope.\n')
    items = []
    for s in range(0, len(traces), shard):
        body = ';\n'.join(f'({n}%nat, {t0}, [\n  ' + ';\n  '.join(steps) + '])' for n, t0, steps in traces[s:s + shard])
        items.append((f'c13_{name}_{ctx.seed}_{s}', head + 'Definition traces : list trace := [\n' + body + '].\n'
                      'Eval vm_compute in bad_traces traces 0.\n', s))
    if not items:
        return []
    coq.make(['Cliff/TableauHarness.vo'])
    with ThreadPoolExecutor(max_workers=6) as ex:
        outs = list(ex.map(lambda it: coq.coq_eval(it[0], it[1]), items))
    bad = []
    for (nm, _, s), out in zip(items, outs):
        vals = coq.parse_evals(out)
        assert len(vals) == 1, out[-500:]
        nums = coq.parse_nat_list(vals[0])
        bad += [(s + nums[i], nums[i + 1]) for i in range(0, len(nums), 2)]
    return bad


def eval_chtraces(ctx, name, chtraces, shard=40):
    head = ('From Coq Require Import List Bool ZArith PrimFloat.\nFrom VF Require Import Base.FloatInst Cliff.Tableau Cliff.CHForm Cliff.CHFormHarness.\n'
            'Import ListNotations.\nOpen Scope nat_scope.\n')
    items = []
    for s in range(0, len(chtraces), shard):
        body = ';\n'.join(f'({c0}, [\n  ' + ';\n  '.join(steps) + '])' for c0, steps in chtraces[s:s + shard])
        items.append((f'c13_{name}_{ctx.seed}_{s}', head + 'Definition traces : list chtrace := [\n' + body + '].\n'
                      'Eval vm_compute in bad_chtraces traces 0.\n', s))
    if not items:
        return []
    coq.make(['Cliff/CHFormHarness.vo'])
    with ThreadPoolExecutor(max_workers=6) as ex:
        outs = list(ex.map(lambda it: coq.coq_eval(it[0], it[1]), items))
    bad = []
    for (nm, _, s), out in zip(items, outs):
        vals = coq.parse_evals(out)
        assert len(vals) == 1, out[-500:]
        nums = coq.parse_nat_list(vals[0])
        bad += [(s + nums[i], nums[i + 1]) for i in range(0, len(nums), 2)]
    return bad


def literal_selftest(ctx, cirq):
    """The packed tableau literals (TI) decode to the same tableaux as the readable ones (R rows): 40 random tableaux."""
    rng = random.Random(7)
    tabs = [random_tableau(cirq, rng, rng.randint(1, 6)) for _ in range(40)]
    for t in tabs[::3]:
        t.rs[rng.randrange(2 * t.n)] ^= True
    text = ('From Coq Require Import List Bool ZArith Uint63.\nFrom VF Require Import Cliff.Tableau Cliff.TableauHarness.\n'
            'Import ListNotations.\nOpen Scope uint63_scope.\nEval vm_compute in map (fun p => tab_eqb (fst p) (snd p)) [\n' +
            ';\n'.join(f'({tab_lit(t)}, ({tab_coq(t)})%nat)' for t in tabs) + '].\n')
    vals = coq.parse_evals(coq.coq_eval(f'c13_literals_{ctx.seed}', text))
    if len(vals) != 1 or vals[0].count('true') != len(tabs) or 'false' in vals[0]:
        ctx.mark_broken('harness:packed-literals', 'TI literals do not decode to the tableaux they were built from')


# ------------------------------------------------------------------ every measurement of every short 3-qubit circuit
def measure_grid(ctx, cirq, depth, n=3):
    """Breadth-first over all circuits of at most `depth` gates from {H_i, S_i, CX_ij} on n qubits (distinct tableaux only):
    every qubit of every reached tableau is measured under every scripted random bit; each branch is judged against the
    numpy reference state (Born probability, collapsed state) and replayed through the model.  Independent of VERIF_SEED.
    Returns {class of measurement: [(ops, qubit)]} in breadth-first order."""
    gens = [G('H', 4, [i]) for i in range(n)] + [G('Z', 2, [i]) for i in range(n)] + \
           [G('CX', 4, [i, j]) for i in range(n) for j in range(n) if i != j]
    mats = [embed(np.asarray(cirq.unitary(make_gate(cirq, g))), g['axes'], n) for g in gens]
    qubits = cirq.LineQubit.range(n)

    def step(t, g):
        c = t.copy()
        if g['fam'] == 'H':
            c.apply_h(g['axes'][0])
        elif g['fam'] == 'Z':
            c.apply_z(g['axes'][0], 0.5)
        else:
            c.apply_cx(*g['axes'])
        return c

    def direct(t, q):                  # CliffordTableau.measure on a copy, the random bit scripted
        def run(bit):
            c, sc = t.copy(), Script([bit])
            (out,) = c.measure([q], seed=sc)
            return c, int(out), sc.pos, c
        return run

    keyf = lambda t: t.matrix().tobytes() + t.rs.tobytes()
    t0 = cirq.CliffordTableau(n)
    psi0 = np.zeros(2 ** n, dtype=complex)
    psi0[0] = 1
    seen = {keyf(t0)}
    level = [(t0, psi0, ())]
    traces, words, classes = [], [], {}
    for d in range(depth + 1):
        nxt = []
        for t, psi, w in level:
            steps, fails = [], FailList()
            for q in range(n):
                fails.k = q
                p1 = float(np.sum(np.abs(psi.reshape((2,) * n).take(1, axis=q)) ** 2))
                tableau_measure(ctx, t, direct(t, q), psi, q, f'g{q}', 0, ['grid', list(w)], False, steps, fails)
                if abs(p1 - 0.5) < ATOL:
                    cls = 'random'
                else:
                    kk, ph = product_class(t, q)
                    cls = f'fixed by a product of {kk} generator(s)' + (', Pauli product contributes -1' if ph else '')
                classes.setdefault(cls, []).append((w, q))
                ctx.count('measure_grid', [list(w), q], cls != 'fixed by a product of 1 generator(s)',
                          sample=dict(n=n, circuit=describe_ops([gens[i] for i in w]), qubit=q, born_p1=p1, kind=cls))
            for kind, label, what, q in fails:
                ops = [gens[i] for i in w] + [dict(kind='m', axes=[q], bit=0)]
                ctx.violation(f'{kind}:{label}', f'n={n} init=0: {what}; circuit: {describe_ops(ops)}',
                              dict(kind='walk', case=dict(id='grid', n=n, init=0, ops=ops)))
            traces.append((n, tab_lit(t), steps))
            words.append(w)
            if d < depth:
                for gi, g in enumerate(gens):
                    t2 = step(t, g)
                    k2 = keyf(t2)
                    if k2 not in seen:
                        seen.add(k2)
                        nxt.append((t2, mats[gi] @ psi, w + (gi,)))
        level = nxt
    for ti, k in eval_traces(ctx, 'grid', traces, shard=400):
        ctx.mark_broken('correspondence:measure_grid', f'circuit {describe_ops([gens[i] for i in words[ti]])}: model and implementation measurement differ: {traces[ti][2][k][:300]}')
    return {cls: [([gens[i] for i in w], q) for w, q in lst] for cls, lst in classes.items()}


# ------------------------------------------------------------------ then / inverse / validate against the model
def random_tableau(cirq, rng, n, length=None):
    t = cirq.CliffordTableau(n)
    for _ in range(length if length is not None else rng.randint(0, 4 * n + 2)):
        r = rng.randrange(6)
        a = rng.randrange(n)
        if r == 0:
            t.apply_h(a)
        elif r == 1:
            t.apply_z(a, rng.choice([0.5, 1, 1.5]))
        elif r == 2:
            t.apply_x(a, rng.choice([0.5, 1, 1.5]))
        elif r == 3:
            t.apply_y(a, rng.choice([0.5, 1, 1.5]))
        elif n >= 2:
            c, x = rng.sample(range(n), 2)
            (t.apply_cx if r == 4 else t.apply_cz)(c, x)
    return t


def then_stream(ctx, cirq, count):
    traces = []
    for i in range(count):
        n = ctx.rng.choice([1, 1, 2, 2, 3, 4, 5])
        t1, t2 = random_tableau(cirq, ctx.rng, n), random_tableau(cirq, ctx.rng, n)
        steps = [f'SValid {B(t1._validate())}', f'SInv {tab_lit(t1.inverse())}', f'SThen {tab_lit(t2)} {tab_lit(t1.then(t2))}']
        if ctx.rng.random() < 0.3:       # an invalid table must be rejected by _validate
            bad = t1.copy()
            bad.xs[ctx.rng.randrange(2 * n), ctx.rng.randrange(n)] ^= True
            traces.append((n, tab_lit(bad), [f'SValid {B(bad._validate())}']))
        traces.append((n, tab_lit(t1), steps))
        ctx.count('then_inverse', [n, tab_coq(t1), tab_coq(t2)], True, sample=dict(n=n, t1=tab_coq(t1), t2=tab_coq(t2)))
    for ti, k in eval_traces(ctx, 'then', traces):
        ctx.mark_broken('correspondence:then_inverse', f'trace {ti} step {k}: {traces[ti][2][k][:300]} from {traces[ti][1]}')


# ------------------------------------------------------------------ CliffordGate group laws against matrices
def group_1q(ctx, cirq):
    gs = list(cirq.SingleQubitCliffordGate.all_single_qubit_cliffords)
    us = [np.asarray(cirq.unitary(g)) for g in gs]
    q = cirq.LineQubit(0)

    def bad(i, law, what):
        ctx.violation(f'group1:{law}', f'single-qubit Clifford #{i}: {what}', dict(kind='group1', index=i, law=law))

    for i, (g, u) in enumerate(zip(gs, us)):
        ctx.count('group_1q', ['elt', i], i > 0, sample=dict(index=i, unitary=[str(complex(x)) for x in u.reshape(-1)]))
        if not tableau_matches_unitary(g.clifford_tableau, u):
            bad(i, 'tableau', 'cirq.unitary does not conjugate X, Z to the rows of clifford_tableau')
        prod = np.eye(2, dtype=complex)
        for h in g.decompose_gate():
            prod = np.asarray(cirq.unitary(h)) @ prod
        if not np.allclose(prod, u, atol=ATOL):
            bad(i, 'decompose', 'decompose_gate() product differs from cirq.unitary (phase included)')
        dops = cirq.decompose_once(g.on(q))
        prod = np.eye(2, dtype=complex)
        for o in dops:
            prod = np.asarray(cirq.unitary(o)) @ prod
        if not np.allclose(prod, u, atol=ATOL):
            bad(i, 'decompose', 'cirq.decompose_once product differs from cirq.unitary')
        if cirq.SingleQubitCliffordGate.from_unitary(u) != g or cirq.SingleQubitCliffordGate.from_clifford_tableau(g.clifford_tableau) != g:
            bad(i, 'from_unitary', 'from_unitary / from_clifford_tableau do not return the gate')
        for ph in PHASES:
            r = cirq.SingleQubitCliffordGate.from_unitary_with_global_phase(ph * u)
            if r is None or r[0] != g or not np.allclose(r[1] * np.asarray(cirq.unitary(r[0])), ph * u, atol=ATOL):
                bad(i, 'from_unitary_phase', f'from_unitary_with_global_phase({ph} * U) does not reproduce the matrix')
        inv = g ** -1
        if not phase_equal(np.asarray(cirq.unitary(inv)), u.conj().T) or not tableau_matches_unitary(inv.clifford_tableau, u.conj().T):
            bad(i, 'inverse', 'g**-1 is not the inverse matrix up to phase')
        for k in (-3, -2, 0, 2, 3, 5, 24, 47):
            p = g ** k
            if not tableau_matches_unitary(p.clifford_tableau, np.linalg.matrix_power(u, k)):
                bad(i, 'power', f'g**{k} does not conjugate like U**{k}')
        for j, (h, v) in enumerate(zip(gs, us)):
            m = g.merged_with(h)
            ctx.count('group_1q', ['merge', i, j], True)
            if not phase_equal(np.asarray(cirq.unitary(m)), v @ u) or not tableau_matches_unitary(m.clifford_tableau, v @ u):
                bad(i, 'merged_with', f'merged_with(#{j}) is not the matrix product up to phase')
    # half-integer powers of the Paulis
    for name, pauli in (('X', cirq.X), ('Y', cirq.Y), ('Z', cirq.Z)):
        g = getattr(cirq.SingleQubitCliffordGate, name)
        for e in (0.5, -0.5, 1.5, -1.5, 2.5):
            p = g ** e
            ctx.count('group_1q', ['half', name, e], True)
            if p is NotImplemented or not tableau_matches_unitary(p.clifford_tableau, np.asarray(cirq.unitary(pauli ** e))):
                bad(gs.index(g), 'half_power', f'{name}**{e} does not conjugate like the matrix power')
    # a non-Clifford and a non-unitary matrix are rejected
    if cirq.SingleQubitCliffordGate.from_unitary(np.asarray(cirq.unitary(cirq.T))) is not None:
        bad(0, 'from_unitary', 'from_unitary accepts T')


GENS2 = [('H', [0]), ('H', [1]), ('S', [0]), ('S', [1]), ('CX', [0, 1])]


def gen_unitary(cirq, name):
    return np.asarray(cirq.unitary({'H': cirq.H, 'S': cirq.S, 'CX': cirq.CNOT, 'CZ': cirq.CZ, 'X': cirq.X, 'Y': cirq.Y ** 0.5, 'SWAP': cirq.SWAP}[name]))


def check_element(ctx, cirq, stream, n, gate, u, key, law_prefix, full=True, replay=None):
    """gate: CliffordGate whose reference matrix is u (built from numpy products of generator matrices)."""
    qs = cirq.LineQubit.range(n)

    def bad(law, what):
        ctx.violation(f'{law_prefix}:{law}', f'{n}-qubit Clifford {key}: {what}', replay or dict(kind='group', n=n, key=key, law=law))

    t = gate.clifford_tableau
    if not tableau_matches_unitary(t, u):
        bad('tableau', 'the tableau rows are not U X_j U^dagger / U Z_j U^dagger of the reference matrix')
        return
    if not full:
        return
    dops = cirq.decompose_once(gate.on(*qs))
    prod = np.eye(2 ** n, dtype=complex)
    for o in dops:
        prod = embed(np.asarray(cirq.unitary(o)), [qs.index(q) for q in o.qubits], n) @ prod
    if not phase_equal(prod, u):
        bad('decompose', 'the decomposition into elementary gates is not the reference matrix up to phase')
    if not phase_equal(np.asarray(cirq.unitary(gate)), u):
        bad('unitary', 'cirq.unitary(gate) is not the reference matrix up to phase')
    back = cirq.CliffordGate.from_op_list(dops, qs)
    if back != gate or cirq.CliffordGate.from_clifford_tableau(t) != gate:
        bad('roundtrip', 'from_op_list(decompose(gate)) / from_clifford_tableau(tableau) is a different gate')
    inv = gate ** -1
    if not tableau_matches_unitary(inv.clifford_tableau, u.conj().T) or t.then(inv.clifford_tableau) != cirq.CliffordTableau(n):
        bad('inverse', 'gate**-1 is not the inverse')
    for k in (2, 3, -2):
        if not tableau_matches_unitary((gate ** k).clifford_tableau, np.linalg.matrix_power(u, k)):
            bad('power', f'gate**{k} does not conjugate like U**{k}')


def group_2q(ctx, cirq, exhaustive, sample):
    """All 11520 two-qubit Cliffords by breadth-first composition with `then` (thorough), or a random sample of them."""
    n = 2
    gen_tabs, gen_us = [], []
    for name, axes in GENS2:
        t = cirq.CliffordTableau(2)
        (t.apply_h if name == 'H' else t.apply_z if name == 'S' else t.apply_cx)(*axes, *([0.5] if name == 'S' else []))
        gen_tabs.append(t)
        gen_us.append(embed(gen_unitary(cirq, name), axes, 2))
    ident = cirq.CliffordTableau(2)
    keyf = lambda t: t.matrix().tobytes() + t.rs.tobytes()
    if exhaustive:
        seen = {keyf(ident): (ident, np.eye(4, dtype=complex), ())}
        frontier = [keyf(ident)]
        while frontier:
            nxt = []
            for k in frontier:
                t, u, w = seen[k]
                for gi, (gt, gu) in enumerate(zip(gen_tabs, gen_us)):
                    t2 = t.then(gt)
                    k2 = keyf(t2)
                    if k2 not in seen:
                        seen[k2] = (t2, gu @ u, w + (gi,))
                        nxt.append(k2)
            frontier = nxt
        if len(seen) != 11520:
            ctx.violation('group2:order', f'composition of H, S, CNOT tableaux generates {len(seen)} elements, the two-qubit Clifford group has 11520',
                          dict(kind='group', n=2, key='order', law='order'))
        elems = list(seen.values())
    else:
        elems = []
        for _ in range(sample):
            w = tuple(ctx.rng.randrange(5) for _ in range(ctx.rng.randint(1, 14)))
            t, u = ident, np.eye(4, dtype=complex)
            for gi in w:
                t, u = t.then(gen_tabs[gi]), gen_us[gi] @ u
            elems.append((t, u, w))
    for idx, (t, u, w) in enumerate(elems):
        gate = cirq.CliffordGate.from_clifford_tableau(t)
        full = (not exhaustive) or idx % 8 == 0 or len(w) <= 3
        check_element(ctx, cirq, 'group_2q', 2, gate, u, list(w), 'group2', full=full)
        ctx.count('group_2q', list(w), len(w) > 0, sample=dict(word=list(w), tableau=tab_coq(t)))
    # composition of pairs through then, against the matrix product
    for _ in range(min(len(elems), 200)):
        (t1, u1, w1), (t2, u2, w2) = ctx.rng.choice(elems), ctx.rng.choice(elems)
        ctx.count('group_2q', ['pair', list(w1), list(w2)], True)
        if not tableau_matches_unitary(t1.then(t2), u2 @ u1) or (t2 @ t1) != t1.then(t2):
            ctx.violation('group2:then', f'then() of two-qubit Cliffords {w1} and {w2} is not the matrix product',
                          dict(kind='group_pair', w1=list(w1), w2=list(w2)))


def group_nq(ctx, cirq, count):
    """Random 3..4-qubit elements from op lists (from_op_list), and decompose_clifford_tableau_to_operations."""
    for i in range(count):
        n = ctx.rng.choice([3, 3, 4])
        qs = cirq.LineQubit.range(n)
        ops, u = [], np.eye(2 ** n, dtype=complex)
        for _ in range(ctx.rng.randint(3, 5 * n)):
            op = draw_op(ctx.rng, n, allow_derived=False)
            o = make_operation(cirq, op, qs)
            ops.append(o)
            m = np.asarray(cirq.unitary(o))
            u = (embed(m, [qs.index(q) for q in o.qubits], n) if o.qubits else complex(m.reshape(-1)[0]) * np.eye(2 ** n)) @ u
        gate = cirq.CliffordGate.from_op_list(ops, qs)
        check_element(ctx, cirq, 'group_nq', n, gate, u, [repr(o) for o in ops], 'groupn')
        ctx.count('group_nq', [repr(o) for o in ops], True, sample=dict(n=n, ops=[repr(o) for o in ops][:6]))


def decompose_stream(ctx, cirq, count):
    for i in range(count):
        n = ctx.rng.choice([1, 2, 3, 4, 5, 6])
        qs = cirq.LineQubit.range(n)
        t = random_tableau(cirq, ctx.rng, n, length=ctx.rng.randint(0, 6 * n))
        ops = cirq.decompose_clifford_tableau_to_operations(qs, t)
        st = cirq.CliffordTableauSimulationState(tableau=cirq.CliffordTableau(n), qubits=qs, prng=Script())
        for o in ops:
            cirq.act_on(o, st)
        ctx.count('decompose_tableau', [n, tab_coq(t)], t != cirq.CliffordTableau(n), sample=dict(n=n, tableau=tab_coq(t), ops=len(ops)))
        ok = st.tableau == t
        if ok and n <= 4:          # and the operations multiply to a matrix with that conjugation action
            u = np.eye(2 ** n, dtype=complex)
            for o in ops:
                u = embed(np.asarray(cirq.unitary(o)), [qs.index(q) for q in o.qubits], n) @ u
            ok = tableau_matches_unitary(t, u)
        if not ok:
            ctx.violation('decompose_tableau', f'decompose_clifford_tableau_to_operations does not reproduce the tableau {tab_coq(t)}',
                          dict(kind='decompose_tableau', n=n, rows=tab_rows(t)))


# ------------------------------------------------------------------ simulators end to end, every branch
def born_records(cirq, n, ops):
    """Exact outcome distribution and collapsed final states of the reference simulation: {record: (prob, psi)}."""
    qubits = cirq.LineQubit.range(n)
    branches = [((), 1.0, np.eye(2 ** n, dtype=complex)[:, 0])]
    for k, op in enumerate(ops):
        new = []
        if op['kind'] == 'c':        # applied in the branches whose record of measurement `src` has a 1
            o = make_operation(cirq, op['op'], qubits)
            u = np.asarray(cirq.unitary(o))
            pos = sum(1 for x in ops[:op['src']] if x['kind'] == 'm')
            assert ops[op['src']]['kind'] == 'm' and op['src'] < k
            for rec, p, psi in branches:
                new.append((rec, p, ref_apply(psi, u, [qubits.index(q) for q in o.qubits], n) if any(rec[pos]) else psi))
        elif op['kind'] == 'm':
            for rec, p, psi in branches:
                outs = [(rec, p, psi, ())]
                for q in op['axes']:
                    nxt = []
                    for rec_, p_, psi_, bits in outs:
                        for o in (0, 1):
                            pj = project(psi_, q, o, n)
                            if pj is not None:
                                w = float(np.sum(np.abs(psi_.reshape((2,) * n).take(o, axis=q)) ** 2))
                                nxt.append((rec_, p_ * w, pj, bits + (o,)))
                    outs = nxt
                new += [(rec_ + (bits,), p_, psi_) for rec_, p_, psi_, bits in outs]
        else:
            o = make_operation(cirq, op, qubits)
            u = np.asarray(cirq.unitary(o))
            for rec, p, psi in branches:
                new.append((rec, p, ref_apply(psi, u, [qubits.index(q) for q in o.qubits], n) if o.qubits else psi * complex(u.reshape(-1)[0])))
        branches = new
    return {rec: (p, psi) for rec, p, psi in branches}


def e2e_circuit(cirq, n, ops):
    qubits = cirq.LineQubit.range(n)
    out, keys = [], []
    for k, op in enumerate(ops):
        if op['kind'] == 'm':
            out.append(cirq.measure(*[qubits[a] for a in op['axes']], key=f'k{k}'))
            keys.append(f'k{k}')
        elif op['kind'] == 'c':
            out.append(make_operation(cirq, op['op'], qubits).with_classical_controls(f'k{op["src"]}'))
        else:
            out.append(make_operation(cirq, op, qubits))
    return cirq.Circuit(out), keys, qubits


def dfs_scripts(run, cap=160):
    """Enumerate every script (sequence of random bits) of a run.  Returns [(probability, result)] or None if > cap."""
    leaves, stack = [], [[]]
    while stack:
        prefix = stack.pop()
        s = Script(prefix)
        res = run(s)
        used = s.bits[:s.pos]
        leaves.append((0.5 ** len(used), res))
        if len(leaves) > cap:
            return None
        for i in range(len(prefix), len(used)):
            stack.append(used[:i] + [1])
    return leaves


def e2e_stream(ctx, cirq, count):
    done = 0
    attempts = 0
    while done < count and attempts < 6 * count:
        attempts += 1
        n = ctx.rng.choice([1, 2, 2, 3, 3, 4])
        ops = []
        for _ in range(ctx.rng.randint(3, 10)):
            if ctx.rng.random() < 0.2:
                ops.append(dict(kind='m', axes=ctx.rng.sample(range(n), ctx.rng.randint(1, min(2, n)))))
            else:
                ops.append(draw_op(ctx.rng, n))
        ops.append(dict(kind='m', axes=ctx.rng.sample(range(n), ctx.rng.randint(1, min(3, n)))))
        if sum(len(o['axes']) for o in ops if o['kind'] == 'm') > 5:
            continue
        case = dict(n=n, ops=ops)
        ok = e2e_case(ctx, cirq, case)
        if ok is None:
            continue
        done += 1


def e2e_grid(ctx, cirq, classes, per_class):
    """The simulators end to end on circuits of the measurement grid, the same number from every class of measurement."""
    for cls in sorted(classes):
        lst = classes[cls]
        for ops, q in lst[::max(1, len(lst) // per_class)][:per_class]:
            n = 3
            rest = [(q + 1 + i) % n for i in range(n)]
            e2e_case(ctx, cirq, dict(n=n, ops=list(ops) + [dict(kind='m', axes=[q]), dict(kind='m', axes=rest)]))


def e2e_entangled(ctx, cirq, fixed, count):
    frng = random.Random(0xE2E)
    for rng, k in ((frng, fixed), (ctx.rng, count)):
        done = 0
        while done < k:
            case = gen_entangled_case(rng, 'x')
            if case['n'] > 4:
                continue
            ops = [o for o in case['ops'] if o['kind'] == 'g']
            order = [o['axes'][0] for o in case['ops'] if o['kind'] in ('m', 'r')]
            ops += [dict(kind='m', axes=[a]) for a in order[:2]] + [dict(kind='m', axes=order[2:] + order[:1])]
            if e2e_case(ctx, cirq, dict(n=case['n'], ops=ops)) is not None:
                done += 1


def e2e_cgate(ctx, cirq):
    """The simulators end to end (every script) on circuits whose only entangling operation is a multi-qubit CliffordGate
    object spanning the whole register, its qubits given in every order; all qubits measured.  Independent of VERIF_SEED."""
    frng = random.Random(0xC62)
    for spec in cg_fixed_specs():
        k = spec['k']
        if k > 3:
            continue
        for targets in cg_target_orders(k, k):
            ops = []
            for q in range(k):
                ops.append(G(frng.choice(['X', 'H', 'X', 'Y']), 4, [q]) if frng.random() < 0.8 else G('Z', 2, [q]))
            ops.append(dict(kind='d', name='CGN', axes=targets, spec=spec, a=0, b=0, c=0, word=[]))
            order = list(range(k))
            frng.shuffle(order)
            ops += [dict(kind='m', axes=order[:1]), dict(kind='m', axes=order[1:])]
            e2e_case(ctx, cirq, dict(n=k, ops=ops))


def e2e_case(ctx, cirq, case, cap=160):
    n, ops = case['n'], case['ops']
    circuit, keys, qubits = e2e_circuit(cirq, n, ops)
    want = born_records(cirq, n, ops)

    def rec_of(meas):
        return tuple(tuple(int(b) for b in np.asarray(meas[k]).reshape(-1)) for k in keys)

    def run_sim(s):
        r = cirq.CliffordSimulator(seed=s).simulate(circuit, qubit_order=qubits)
        return rec_of(r.measurements), r.final_state.state_vector()

    def run_run(s):
        r = cirq.CliffordSimulator(seed=s).run(circuit, repetitions=1)
        return rec_of(r.measurements), None

    def run_sampler(s):
        r = cirq.StabilizerSampler(seed=s).run(circuit, repetitions=1)
        return rec_of(r.measurements), None

    def run_split(s):
        r = cirq.CliffordSimulator(seed=s, split_untangled_states=True).simulate(circuit, qubit_order=qubits)
        return rec_of(r.measurements), r.final_state.state_vector()

    results = {}
    for name, f in (('CliffordSimulator.simulate', run_sim), ('CliffordSimulator.run', run_run), ('StabilizerSampler.run', run_sampler),
                    ('CliffordSimulator(split_untangled_states=True).simulate', run_split)):
        leaves = dfs_scripts(f, cap)
        if leaves is None:
            return None
        results[name] = leaves
    for name, leaves in results.items():
        dist = {}
        for p, (rec, sv) in leaves:
            dist[rec] = dist.get(rec, 0.0) + p
            ctx.count('e2e_branch', [name, repr(case), rec, p], len(leaves) > 1)
            if sv is not None and (rec not in want or not np.allclose(sv, want[rec][1], atol=ATOL)):
                ctx.violation('e2e:final-state:' + name, f'{name}: final state of branch {rec} differs from the collapsed reference state; n={n} circuit: {describe_ops(ops)}',
                              dict(kind='e2e', case=case))
        for rec in set(dist) | set(want):
            if abs(dist.get(rec, 0.0) - want.get(rec, (0.0,))[0]) > ATOL:
                ctx.violation('e2e:probability:' + name,
                              f'{name}: outcome {rec} has probability {dist.get(rec, 0.0):.6f} over all scripts, Born probability {want.get(rec, (0.0,))[0]:.6f}; n={n} circuit: {describe_ops(ops)}',
                              dict(kind='e2e', case=case))
    ctx.count('e2e_circuit', repr(case), True, sample=dict(n=n, circuit=str(circuit).splitlines()[:4], outcomes=len(want)))
    return True


# ------------------------------------------------------------------ several repetitions: every one starts from the same state
REPS_ENTRIES = {
    'CliffordSimulator.run': lambda cirq, s: cirq.CliffordSimulator(seed=s),
    'CliffordSimulator(split_untangled_states=True).run': lambda cirq, s: cirq.CliffordSimulator(seed=s, split_untangled_states=True),
    'StabilizerSampler.run': lambda cirq, s: cirq.StabilizerSampler(seed=s),
    'CliffordSimulator.sample': lambda cirq, s: cirq.CliffordSimulator(seed=s),
}


def reps_case(ctx, cirq, case, cap=400, entries=None, must=False):
    """run / sample with repetitions = case['reps'] >= 2 under EVERY script of random bits: the joint distribution of the
    records of the repetitions must be the product of the Born distribution of one execution of the circuit (every
    repetition starts from the same state and is independent of the others).  Returns None if a run has more than `cap`
    scripts (with must=True that is an error: the fixed cases are chosen small)."""
    n, ops, reps = case['n'], case['ops'], case['reps']
    circuit, keys, qubits = e2e_circuit(cirq, n, ops)
    want = {rec: p for rec, (p, _) in born_records(cirq, n, ops).items()}
    widths = [len(o['axes']) for o in ops if o['kind'] == 'm']
    terminal = not any(o['kind'] != 'm' for o in ops[min(k for k, o in enumerate(ops) if o['kind'] == 'm'):])
    results = {}
    for name in entries or REPS_ENTRIES:
        mk = REPS_ENTRIES[name]

        def run(s, name=name, mk=mk):
            try:
                return run_(s, name, mk)
            except Unsupported:
                raise
            except Exception as e:       # a valid circuit: the entry point has no reason to raise
                return ('error', f'{type(e).__name__}: {e}'[:160])

        def run_(s, name, mk):
            if name.endswith('.sample'):
                df = mk(cirq, s).sample(circuit, repetitions=reps)
                if len(df) != reps:
                    return ('shape', len(df))
                return tuple(tuple(tuple((int(df[k][i]) >> (w - 1 - j)) & 1 for j in range(w)) for k, w in zip(keys, widths)) for i in range(reps))
            r = mk(cirq, s).run(circuit, repetitions=reps)
            for k, w in zip(keys, widths):
                if np.asarray(r.measurements[k]).shape != (reps, w):
                    return ('shape', np.asarray(r.measurements[k]).shape)
            return tuple(tuple(tuple(int(b) for b in r.measurements[k][i]) for k in keys) for i in range(reps))

        leaves = dfs_scripts(run, cap)
        if leaves is None:
            if must:
                ctx.mark_broken('reps:enumeration', f'{name}(repetitions={reps}) draws more than {cap} scripts of random bits on the fixed circuit {describe_ops(ops)}')
            return None
        results[name] = leaves
    text = f'n={n} circuit: {describe_ops(ops)}'
    for name, leaves in results.items():
        call = f'{name}(repetitions={reps})'
        dist = {}
        for p, joint in leaves:
            dist[joint] = dist.get(joint, 0.0) + p
        ctx.count('reps_branch', [name, repr(case)], len(leaves) > 1)
        bad = None
        for joint in sorted(dist):
            if joint and joint[0] == 'shape':
                bad = ('shape', f'{call}: the result has shape {joint[1]} for a measurement, expected {reps} repetitions')
                break
            if joint and joint[0] == 'error':
                bad = ('error', f'{call} raises {joint[1]} (with probability {dist[joint]:.6f} over all scripts)')
                break
        # 1. no repetition may show a record that has Born probability 0 in one execution
        for joint in sorted(dist) if bad is None else []:
            for i, rec in enumerate(joint):
                if want.get(rec, 0.0) < ATOL and dist[joint] > ATOL and bad is None:
                    bad = ('impossible-record', f'{call}: repetition {i} yields the record {rec} (keys {keys}) with probability {dist[joint]:.6f} over all scripts '
                           f'(joint outcome {joint}), but one execution of the circuit has Born probability 0 for it')
        # 2. every repetition by itself is Born distributed
        if bad is None:
            for i in range(reps):
                marg = {}
                for joint, p in dist.items():
                    marg[joint[i]] = marg.get(joint[i], 0.0) + p
                for rec in sorted(set(marg) | set(want)):
                    if abs(marg.get(rec, 0.0) - want.get(rec, 0.0)) > ATOL and bad is None:
                        bad = ('marginal', f'{call}: repetition {i} yields the record {rec} with probability {marg.get(rec, 0.0):.6f} over all scripts, Born probability {want.get(rec, 0.0):.6f}')
        # 3. the repetitions are independent: the joint distribution is the product
        if bad is None:
            for joint in sorted(set(dist) | set(itertools.product(sorted(want), repeat=reps))):
                exp = float(np.prod([want.get(rec, 0.0) for rec in joint]))
                if abs(dist.get(joint, 0.0) - exp) > ATOL and bad is None:
                    bad = ('dependent', f'{call}: the records {joint} of the repetitions have joint probability {dist.get(joint, 0.0):.6f} over all scripts, '
                           f'the product of their Born probabilities is {exp:.6f} (repetitions are not independent)')
        if bad is not None:
            ctx.violation(f'reps:{bad[0]}:{name}', f'{bad[1]}; {text}', dict(kind='reps', case=case))
    ctx.count('reps_circuit', repr(case), not terminal and len(want) > 1,
              sample=dict(n=n, repetitions=reps, circuit=describe_ops(ops), records=len(want), terminal_measurements_only=terminal))
    return True


def gen_reps_case(rng, reps=None, control=None):
    """A small circuit for several repetitions: a superposing Clifford prefix, one or two NON-terminal measurements, a
    suffix of gates that update the stabilizer state in place (H, S, CX, CZ, SWAP, X; optionally one of them controlled by a
    measurement record), then a terminal measurement of every qubit.  One time in six all measurements are terminal."""
    n = rng.choice([2, 2, 3])
    two = lambda: rng.sample(range(n), 2)

    def gate(basis_only=False):
        r = rng.random()
        if r < 0.3 and not basis_only:
            return G('H', 4, [rng.randrange(n)])
        if r < 0.45:
            return G('Z', rng.choice([2, 6, 4]), [rng.randrange(n)])
        if r < 0.75:
            return G('CX', 4, two())
        if r < 0.88:
            return G('CZ', 4, two())
        if r < 0.94:
            return G('SWAP', 4, two())
        return G(rng.choice('XY'), rng.choice([4, 2]), [rng.randrange(n)])

    ops = [G('H', 4, [rng.randrange(n)])] + [gate() for _ in range(rng.randint(0, 3))]
    if rng.random() >= 1 / 6:
        mids = []
        for _ in range(rng.choice([1, 1, 2])):
            mids.append(len(ops))
            ops.append(dict(kind='m', axes=[rng.randrange(n)]))
            suffix = [gate() for _ in range(rng.randint(1, 3))]
            if control if control is not None else rng.random() < 0.3:
                i = rng.randrange(len(suffix))
                suffix[i] = dict(kind='c', src=rng.choice(mids), op=suffix[i])
            ops += suffix
    order = list(range(n))
    rng.shuffle(order)
    if rng.random() < 0.5:
        ops.append(dict(kind='m', axes=order))
    else:
        ops += [dict(kind='m', axes=order[:1]), dict(kind='m', axes=order[1:])]
    return dict(n=n, ops=ops, reps=reps or rng.choice([2, 2, 3]))


def reps_grid_cases():
    """Independent of VERIF_SEED: on two qubits, H on a, a measured (non-terminal), EVERY single in-place gate of
    {H, S, CX, CZ} (either direction), both qubits measured; and the same after a Bell pair."""
    cases = []
    for a in (0, 1):
        b = 1 - a
        for pre in ([G('H', 4, [a])], [G('H', 4, [a]), G('CX', 4, [a, b])]):
            for g in [G('H', 4, [a]), G('H', 4, [b]), G('Z', 2, [a]), G('CX', 4, [a, b]), G('CX', 4, [b, a]), G('CZ', 4, [a, b])]:
                cases.append(dict(n=2, reps=2, ops=pre + [dict(kind='m', axes=[a]), g, dict(kind='m', axes=[a, b])]))
    return cases


def reps_stream(ctx, cirq, fixed, count):
    """run / sample with 2 and 3 repetitions over every script.  The grid and `fixed` generated cases do not depend on
    VERIF_SEED and are always enumerated completely; `count` more cases come from ctx.rng (skipped beyond 400 scripts)."""
    frng = random.Random(0xC65)
    for case in reps_grid_cases():
        reps_case(ctx, cirq, case, cap=20000, must=True)
    light = [nm for nm in REPS_ENTRIES if not nm.endswith('.sample')]       # (sample = run + data frame: on every third case)
    done = attempts = 0
    while done < fixed and attempts < 8 * fixed:
        attempts += 1
        case = gen_reps_case(frng, reps=2 if attempts % 3 else 3, control=(attempts % 4 == 3))
        if reps_case(ctx, cirq, case, cap=300, entries=None if done % 3 == 0 else light) is not None:
            done += 1
    if done < fixed:
        ctx.mark_broken('reps:enumeration', f'only {done} of {fixed} fixed circuits could be enumerated within 300 scripts')
    done = attempts = 0
    while done < count and attempts < 8 * count:
        attempts += 1
        if ctx.rng.random() < 0.6:
            case = gen_reps_case(ctx.rng)
        else:                        # the vocabulary of the end-to-end stream, shortened
            n = ctx.rng.choice([1, 2, 2, 3])
            ops = []
            for _ in range(ctx.rng.randint(2, 6)):
                ops.append(dict(kind='m', axes=ctx.rng.sample(range(n), 1)) if ctx.rng.random() < 0.2 else draw_op(ctx.rng, n))
            ops.append(dict(kind='m', axes=ctx.rng.sample(range(n), ctx.rng.randint(1, n))))
            case = dict(n=n, ops=ops, reps=2)
        if reps_case(ctx, cirq, case, cap=300, entries=None if done % 3 == 0 else light) is not None:
            done += 1


# ------------------------------------------------------------------ CH forms joined (kron) and reordered (reindex)
def gen_join_case(rng, cid, n=None, chain=None):
    """A program for join_walk: every qubit starts as its own one-qubit CH-form state with a single-qubit preparation that
    tells the qubits apart; two-qubit gates along `chain` join the states in that order (the sub-state's internal qubit
    order is the chain, whatever the canonical order is); then more gates, explicit transpositions to other orders, swaps
    of qubit labels and joins of states that no gate connects; finally everything is joined and put in canonical order."""
    n = n or rng.choice([3, 3, 4, 4, 5])
    init = rng.randrange(2 ** n) if rng.random() < 0.4 else 0
    chain = list(chain) if chain is not None else rng.sample(range(n), rng.randint(2, n))
    one = lambda q: G(rng.choice('XYZH'), 4, [q], rng.choice(SHIFTS)) if rng.random() < 0.5 else G(rng.choice('XYZ'), 2 * rng.choice([1, 3, -1, 5]), [q], rng.choice(SHIFTS))
    prog = []
    for q in range(n):
        prog += [one(q) for _ in range(rng.randint(1, 2))]
    for a, b in zip(chain, chain[1:]):
        pair = [a, b] if rng.random() < 0.7 else [b, a]
        prog.append(G(rng.choice(['CX', 'CZ', 'CX', 'SWAP']), 4, pair, rng.choice(SHIFTS)))
        if rng.random() < 0.5:
            prog.append(one(rng.choice(pair)))
    prog.append(dict(kind='t', block=chain[0], perm=rot_or_random(rng, len(chain))))
    for _ in range(rng.randint(2, 6)):
        r = rng.random()
        if r < 0.3:
            prog.append(draw_op(rng, n, allow_derived=False))
        elif r < 0.55:
            prog.append(dict(kind='t', block=rng.randrange(n), perm=None, seed=rng.randrange(10 ** 6)))
        elif r < 0.7:
            prog.append(dict(kind='j', a=rng.randrange(n), b=rng.randrange(n), inplace=rng.random() < 0.5))
        elif r < 0.8:
            prog.append(dict(kind='w', a=rng.randrange(n), b=rng.randrange(n)))
        else:
            prog.append(one(rng.randrange(n)))
    prog.append(dict(kind='merge'))
    return dict(id=cid, n=n, init=init, prog=prog)


def rot_or_random(rng, k):
    """A permutation of range(k): a cyclic rotation (not its own inverse for k >= 3) half of the time."""
    if rng.random() < 0.5 and k >= 2:
        r = rng.randrange(1, k)
        return [(i + r) % k for i in range(k)]
    p = list(range(k))
    rng.shuffle(p)
    return p


def describe_prog(prog, limit=420):
    out = []
    for st in prog:
        if st['kind'] == 't':
            out.append(f'Transpose(block of {st["block"]}, perm {st["perm"] if st.get("perm") is not None else "#%d" % st["seed"]})')
        elif st['kind'] == 'j':
            out.append(f'Kron({st["a"]},{st["b"]})')
        elif st['kind'] == 'w':
            out.append(f'SwapLabels({st["a"]},{st["b"]})')
        elif st['kind'] == 'merge':
            out.append('MergeAll')
        else:
            out.append(describe_ops([st]))
    text = ' '.join(out)
    return text if len(text) <= limit else '... ' + text[-limit:]


def join_walk(ctx, cirq, case):
    """Run a join program on real StabilizerChFormSimulationState objects (kronecker_product, transpose_to_qubit_order, swap,
    act_on) and on the numpy reference.  After every step the numpy Kronecker product of the sub-states' state_vector()s,
    transposed from their qubit lists to the canonical order, must equal the reference state, global phase included.
    Returns (one-step traces for the Coq model of kron / reindex, failures)."""
    n, init, prog = case['n'], case['init'], case['prog']
    qubits = cirq.LineQubit.range(n)
    blocks = {i: cirq.StabilizerChFormSimulationState(qubits=[qubits[i]], prng=Script(), initial_state=(init >> (n - 1 - i)) & 1) for i in range(n)}
    psi = np.zeros(2 ** n, dtype=complex)
    psi[init] = 1
    jsteps, fails = [], FailList()

    def distinct():
        seen, out = set(), []
        for i in range(n):
            if id(blocks[i]) not in seen:
                seen.add(id(blocks[i]))
                out.append(blocks[i])
        return out

    def assemble():
        v, qs = np.ones(1, dtype=complex), []
        for b in distinct():
            v = np.kron(v, b.state.state_vector())
            qs += [q.x for q in b.qubits]
        if sorted(qs) != list(range(n)):
            return None
        return np.transpose(v.reshape((2,) * n), [qs.index(j) for j in range(n)]).reshape(-1)

    def oracle(label, what):
        got = assemble()
        if got is None or not np.allclose(got, psi, atol=ATOL):
            kind = 'chjoin-phase' if got is not None and phase_equal(got, psi) else 'chjoin-state'
            orders = ' '.join('[' + ','.join(str(q.x) for q in b.qubits) + ']' for b in distinct())
            diff = 'qubit lists do not partition the register' if got is None else f'max diff {np.max(np.abs(got - psi)):.3g}'
            fails.append((kind, label, f'after {what} the CH-form sub-states (qubit orders {orders}) do not give the reference state ({diff})'))
        ctx.count('chjoin_step', [case['id'], fails.k], label != 'gate', sample=dict(n=n, step=what))

    def join(a, b, inplace=True):
        A, Bk = blocks[a], blocks[b]
        if A is Bk:
            return A
        before, other, n1, n2 = ch_coq(A.state), ch_coq(Bk.state), len(A.qubits), len(Bk.qubits)
        keep = A.state.state_vector()
        J = A.kronecker_product(Bk, inplace=inplace)
        if not inplace and (len(A.qubits) != n1 or not np.allclose(A.state.state_vector(), keep, atol=ATOL)):
            fails.append(('chjoin-state', 'kron', 'kronecker_product(inplace=False) modified its receiver'))
        jsteps.append(f'({before}, JKron {n1} {n2} {other} {ch_coq(J.state)})')
        for q in J.qubits:
            blocks[q.x] = J
        return J

    def transpose(blk, order, inplace=True):
        axes = [[q.x for q in blk.qubits].index(x) for x in order]
        before = ch_coq(blk.state)
        sv = blk.state.state_vector()
        direct = blk.state.reindex(axes)                     # StabilizerStateChForm.reindex called directly
        want = np.transpose(sv.reshape((2,) * len(axes)), axes).reshape(-1)
        if not np.allclose(direct.state_vector(), want, atol=ATOL):
            fails.append(('chjoin-state', 'reindex', f'StabilizerStateChForm.reindex({axes}).state_vector() is not the state vector with its axes transposed by {axes}'))
        T = blk.transpose_to_qubit_order([qubits[x] for x in order], inplace=inplace)
        jsteps.append(f'({before}, JReindex ([{";".join(str(a) for a in axes)}])%nat {ch_coq(T.state)})')
        if [q.x for q in T.qubits] != list(order):
            fails.append(('chjoin-state', 'reindex', f'transpose_to_qubit_order({order}) leaves qubits {[q.x for q in T.qubits]}'))
        for q in T.qubits:
            blocks[q.x] = T
        ctx.count('chjoin_reindex', [case['id'], fails.k], len(axes) >= 3 and [axes[a] for a in axes] != list(range(len(axes))),
                  sample=dict(n=n, block=[q.x for q in blk.qubits], order=list(order)))
        return T

    for k, st in enumerate(prog):
        fails.k = k
        kind = st['kind']
        if kind == 'g':
            o = make_operation(cirq, st, qubits)
            blk = None
            for q in o.qubits:            # as SimulationProductState does: the first qubit's state absorbs the others in turn
                blk = blocks[q.x] if blk is None else (blk if q in blk.qubits else join([x.x for x in blk.qubits][0], q.x))
            u = cirq.unitary(o)
            if o.qubits:
                cirq.act_on(o, blk)
                psi = ref_apply(psi, u, [q.x for q in o.qubits], n)
            else:
                cirq.act_on(o, blocks[0])
                psi = psi * complex(u.reshape(-1)[0])
            oracle('gate', describe_ops([st]))
        elif kind == 't':
            blk = blocks[st['block']]
            cur = [q.x for q in blk.qubits]
            perm = st.get('perm')
            if perm is None or len(perm) != len(cur):
                perm = rot_or_random(random.Random(st.get('seed', 0)), len(cur))
            order = [cur[i] for i in perm]
            transpose(blk, order, inplace=st.get('seed', 0) % 3 != 0)
            oracle('reindex', f'transpose_to_qubit_order of [{",".join(map(str, cur))}] to [{",".join(map(str, order))}]')
        elif kind == 'j':
            if blocks[st['a']] is not blocks[st['b']]:
                join(st['a'], st['b'], st.get('inplace', True))
                oracle('kron', f'kronecker_product of the states of qubits {st["a"]} and {st["b"]}')
        elif kind == 'w':
            a, b = st['a'], st['b']
            if a != b and blocks[a] is blocks[b]:
                blocks[a].swap(qubits[a], qubits[b], inplace=True)
                psi = ref_apply(psi, gen_unitary(cirq, 'SWAP'), [a, b], n)
                oracle('swap', f'swap of the labels of qubits {a} and {b}')
        elif kind == 'merge':            # as create_merged_state does
            m = blocks[0]
            for b in distinct()[1:]:
                m = join([q.x for q in m.qubits][0], [q.x for q in b.qubits][0])
            cur = [q.x for q in m.qubits]
            T = transpose(m, list(range(n)))
            oracle('reindex', f'merging all sub-states (order [{",".join(map(str, cur))}]) and transposing to the canonical order')
            if not np.allclose(T.state.state_vector(), psi, atol=ATOL):
                fails.append(('chjoin-state', 'reindex', f'the merged state transposed from [{",".join(map(str, cur))}] to canonical order differs from the reference state'))
    return jsteps, fails


def eval_joins(ctx, name, jsteps, shard=150):
    head = ('From Coq Require Import List Bool ZArith PrimFloat.\nFrom VF Require Import Base.FloatInst Cliff.Tableau Cliff.CHForm Cliff.CHFormHarness Cliff.CHFormJoin.\n'
            'Import ListNotations.\nOpen Scope nat_scope.\n')
    items = [(f'c13_{name}_{ctx.seed}_{s}', head + 'Definition steps : list (chst (K:=FC) * jstep) := [\n' + ';\n'.join(jsteps[s:s + shard]) + '].\n'
              'Eval vm_compute in bad_joins steps.\n', s) for s in range(0, len(jsteps), shard)]
    if not items:
        return []
    coq.make(['Cliff/CHFormJoin.vo'])
    with ThreadPoolExecutor(max_workers=6) as ex:
        outs = list(ex.map(lambda it: coq.coq_eval(it[0], it[1]), items))
    bad = []
    for (nm, _, s), out in zip(items, outs):
        vals = coq.parse_evals(out)
        assert len(vals) == 1, out[-500:]
        bad += [s + i for i in coq.parse_nat_list(vals[0])]
    return bad


def join_stream(ctx, cirq, count):
    """Fixed grid (independent of VERIF_SEED): every join order (chain) of all 3 and all 4 qubits and the rotations of 5,
    then `count` VERIF_SEED programs."""
    frng = random.Random(0xC63)
    cases = []
    for n in (3, 4):
        cases += [gen_join_case(frng, f'jf{n}_{"".join(map(str, p))}', n, p) for p in itertools.permutations(range(n))]
    cases += [gen_join_case(frng, f'jf5_{r}', 5, [(i + r) % 5 for i in range(5)]) for r in range(1, 5)]
    cases += [gen_join_case(ctx.rng, f'jr{i}') for i in range(count)]
    all_steps, owner = [], []
    for case in cases:
        jsteps, fails = join_walk(ctx, cirq, case)
        for kind, label, what, k in fails:
            ctx.violation(f'{kind}:{label}', f'n={case["n"]} init={case["init"]}: {what}; program up to this step: {describe_prog(case["prog"][:k + 1])}',
                          dict(kind='join', case=case))
        all_steps += jsteps
        owner += [case['id']] * len(jsteps)
    for i in eval_joins(ctx, 'join', all_steps):
        ctx.mark_broken('correspondence:chjoin_step', f'program {owner[i]}: model and implementation kron / reindex differ: {all_steps[i][:400]}')


def split_circuit(cirq, case):
    """The circuit of a join program (gates only), one operation per moment."""
    qubits = cirq.LineQubit.range(case['n'])
    ops = [st for st in case['prog'] if st['kind'] == 'g']
    return cirq.Circuit([cirq.Moment([make_operation(cirq, st, qubits)]) for st in ops] + [cirq.Moment(cirq.I.on_each(*qubits))]), ops, qubits


def split_case(ctx, cirq, case):
    """CliffordSimulator(split_untangled_states=True) on the gates of a join program: the state of every step
    (simulate_moment_steps) and the final state must equal the numpy reference, for the canonical qubit order and for a
    second, permuted qubit_order."""
    n, init = case['n'], case['init']
    circuit, ops, qubits = split_circuit(cirq, case)
    psi = np.zeros(2 ** n, dtype=complex)
    psi[init] = 1
    refs = []
    for st in ops:
        o = make_operation(cirq, st, qubits)
        u = cirq.unitary(o)
        psi = ref_apply(psi, u, [q.x for q in o.qubits], n) if o.qubits else psi * complex(u.reshape(-1)[0])
        refs.append(psi)
    refs.append(psi)
    for order in (list(range(n)), case.get('order') or list(range(n))[1:] + [0]):
        qo = [qubits[i] for i in order]
        init_o = sum(((init >> (n - 1 - q)) & 1) << (n - 1 - j) for j, q in enumerate(order))
        tr = lambda v: np.transpose(v.reshape((2,) * n), order).reshape(-1)
        sim = cirq.CliffordSimulator(seed=Script(), split_untangled_states=True)
        bad, badsv = None, None
        for k, step in enumerate(sim.simulate_moment_steps(circuit, qubit_order=qo, initial_state=init_o)):
            sv = step.state.state_vector()
            ctx.count('split_step', [case['id'], order, k], k < len(ops), sample=dict(n=n, qubit_order=order, step=k))
            if bad is None and not np.allclose(sv, tr(refs[k]), atol=ATOL):
                bad, badsv = k, sv
        final = cirq.CliffordSimulator(seed=Script(), split_untangled_states=True).simulate(circuit, qubit_order=qo, initial_state=init_o).final_state.state_vector()
        if bad is not None:
            ctx.violation('split:step-state', f'CliffordSimulator(split_untangled_states=True).simulate_moment_steps, qubit_order={order}, initial_state={init_o}: the state after moment {bad} '
                          f'is {cirq.dirac_notation(badsv)} but the reference state is {cirq.dirac_notation(tr(refs[bad]))}; n={n} circuit: {describe_ops(ops[:bad + 1])}', dict(kind='split', case=case))
        if not np.allclose(final, tr(refs[-1]), atol=ATOL):
            ctx.violation('split:final-state', f'CliffordSimulator(split_untangled_states=True).simulate(...).final_state.state_vector(), qubit_order={order}, initial_state={init_o}: '
                          f'{cirq.dirac_notation(final)} but the reference state is {cirq.dirac_notation(tr(refs[-1]))}; n={n} circuit: {describe_ops(ops)}', dict(kind='split', case=case))


def split_stream(ctx, cirq, count):
    """The same grid of join orders through the real simulator with split_untangled_states=True, then VERIF_SEED cases."""
    frng = random.Random(0xC64)
    cases = []
    for n in (3, 4):
        cases += [gen_join_case(frng, f'sf{n}_{"".join(map(str, p))}', n, p) for p in itertools.permutations(range(n))]
    cases += [gen_join_case(frng, f'sf5_{r}', 5, [(i + r) % 5 for i in range(5)]) for r in range(1, 5)]
    for i in range(count):
        c = gen_join_case(ctx.rng, f'sr{i}')
        c['order'] = rot_or_random(ctx.rng, c['n'])
        cases.append(c)
    for case in cases:
        split_case(ctx, cirq, case)


# ------------------------------------------------------------------ integer seeds handed to measure()
def int_seed_stream(ctx, cirq):
    """StabilizerState.measure(axes, seed) with integer seeds: over the seeds, two independent fair qubits must show
    all four outcomes (64 seeds: a correct implementation misses one with probability 4 * 0.75^64 ~ 4e-8)."""
    for name, mk in (('CliffordTableau', lambda: cirq.CliffordTableau(2)), ('StabilizerStateChForm', lambda: cirq.StabilizerStateChForm(2))):
        seen = set()
        for seed in range(64):
            st = mk()
            st.apply_h(0)
            st.apply_h(1)
            seen.add(tuple(int(b) for b in st.measure([0, 1], seed=seed)))
        ctx.count('int_seed', [name], True, sample=dict(state='|+>|+>', cls=name, outcomes=sorted(seen)))
        if len(seen) < 4:
            ctx.violation(f'measure:int-seed-reparsed-per-axis:{name}',
                          f'{name}.measure([0, 1], seed=s) on |+>|+> yields only {sorted(seen)} over s = 0..63 (Born: four outcomes, 1/4 each)',
                          dict(kind='int_seed', cls=name))


# ------------------------------------------------------------------ entry points
def run(ctx):
    cirq = env.import_cirq()
    ctx.rule = ('random Clifford circuits on 1..6 qubits (X/Y/Z half-integer powers, H/CZ/CX/SWAP integer powers, global shifts, global phases, '
                'inadmissible exponents, derived Clifford operations, single-qubit measurements with both branches): after every step the '
                'implementation tableau is compared bit for bit with the model (vm_compute) and, on the real code, stabilizers / CH-form amplitudes / '
                'branch probabilities with a numpy state-vector reference; simulators end to end over every script of random bits; group laws of all 24 '
                '(and sampled or all 11520 two-qubit, random 3-4 qubit) CliffordGates against matrices; non-trivial = step changes the tableau model '
                'input or branch is random; distinct by (circuit, step).  Measurement grid (same on every run): every qubit of every tableau reached by at most 4 '
                '(thorough: 5) gates of {H, S, CX} on 3 qubits is measured under every scripted bit and judged by Born probability, collapsed state and '
                'the model; entangled-measurement circuits (generator-scrambling prefix of basis-state gates, Clifford circuit on a subset with classical '
                'controls, every qubit measured or reset in random order, all other qubits probed on copies before each): a fixed set plus a VERIF_SEED set; '
                'streams measure_deterministic / measure_product_phase count outcomes fixed by a product of >= 2 generators / whose Pauli product carries -1.  '
                'Multi-qubit CliffordGate objects (every gate cirq names, from_op_list words on 2-4 qubits) applied by act_on to the register of their own width and of one '
                'more qubit with their qubits in EVERY order (fixed grid + VERIF_SEED cases; non-trivial = full width in a non-canonical order), replayed through the '
                'model of then(pad); from_op_list over lists containing such operations with permuted qubit_order; the simulators end to end on them.  CH forms joined '
                'and reordered: programs on real StabilizerChFormSimulationState objects (kronecker_product, transpose_to_qubit_order, swap, act_on) for every join order of '
                '3 and 4 qubits and the rotations of 5 (fixed) + VERIF_SEED programs, judged after every step by the numpy Kronecker product of the sub-state vectors '
                'transposed to canonical order, kron / reindex replayed through the model; CliffordSimulator(split_untangled_states=True) step states and final states on the '
                'same grid for two qubit orders, and in every end-to-end case.  Several repetitions: CliffordSimulator.run / .sample (also split_untangled_states=True) and '
                'StabilizerSampler.run with repetitions = 2 and 3 over EVERY script of random bits on circuits with non-terminal measurements followed by in-place gates '
                '(fixed grid: H, measure, every single gate of {H, S, CX, CZ}, measure all, also after a Bell pair; fixed generated set incl. classically controlled gates; '
                'VERIF_SEED set) and on terminal-measurement circuits: no repetition may show a record of Born probability 0, every repetition is Born distributed and the joint '
                'distribution is the product (non-trivial = a non-terminal measurement and more than one record).  In the walk every gate is applied to a state of which a '
                'copy(deep_copy_buffers=False) was taken before, and measurements act on copies of both kinds: the other state must keep its tableau rows / state vector')
    ctx.assumptions += ['numpy reference simulation in vf/checks/c13.py (cirq.unitary of each gate applied by tensordot, projectors for measurement)',
                        'gate matrices transcribed in coq/Gates/GateSpecs.v', 'scripted seed object answers randint(2) only; any other request aborts the case']
    err = tables.regenerate(['TableauRules'])
    if err['TableauRules']:
        ctx.mark_broken('table:TableauRules', err['TableauRules'])
    ctx.set_obligations(coq.compile_props('C13'))
    quick = ctx.tier == 'quick'
    literal_selftest(ctx, cirq)
    classes = measure_grid(ctx, cirq, 4 if quick else 5)
    walk_stream(ctx, cirq, 160 if quick else 1500)
    entangled_stream(ctx, cirq, 40 if quick else 200, 40 if quick else 600)
    then_stream(ctx, cirq, 120 if quick else 1000)
    group_1q(ctx, cirq)
    group_2q(ctx, cirq, exhaustive=not quick, sample=250)
    group_nq(ctx, cirq, 40 if quick else 300)
    decompose_stream(ctx, cirq, 80 if quick else 600)
    e2e_stream(ctx, cirq, 45 if quick else 300)
    e2e_grid(ctx, cirq, classes, 6 if quick else 40)
    e2e_entangled(ctx, cirq, 6 if quick else 30, 6 if quick else 60)
    int_seed_stream(ctx, cirq)
    cgate_order_stream(ctx, cirq, 40 if quick else 600)
    oplist_stream(ctx, cirq, 30 if quick else 400)
    e2e_cgate(ctx, cirq)
    reps_stream(ctx, cirq, 18 if quick else 60, 14 if quick else 150)
    join_stream(ctx, cirq, 40 if quick else 600)
    split_stream(ctx, cirq, 30 if quick else 400)


def replay(ctx, data):
    cirq = env.import_cirq()
    k = data.get('kind')
    before = len(ctx.violations) + len(ctx.known_hits)
    if k == 'walk':
        trace, chtrace, fails = walk(ctx, cirq, data['case'])
        for f in fails:
            print('FAIL', f)
        bad = eval_traces(ctx, 'replay', [trace]) + eval_chtraces(ctx, 'chreplay', [chtrace])
        print('model disagreements (trace, step):', bad)
        return not fails and not bad
    if k == 'e2e':
        e2e_case(ctx, cirq, data['case'], cap=100000)
    elif k == 'reps':
        reps_case(ctx, cirq, data['case'], cap=100000)
    elif k == 'int_seed':
        int_seed_stream(ctx, cirq)
    elif k == 'oplist':
        oplist_case(ctx, cirq, data)
    elif k == 'split':
        split_case(ctx, cirq, data['case'])
    elif k == 'join':
        jsteps, fails = join_walk(ctx, cirq, data['case'])
        for f in fails:
            print('FAIL', f)
        bad = eval_joins(ctx, 'joinreplay', jsteps)
        print('model disagreements (step):', bad)
        return not fails and not bad
    elif k in ('group1',):
        group_1q(ctx, cirq)
    elif k in ('group', 'group_pair'):
        group_2q(ctx, cirq, exhaustive=False, sample=300)
        group_nq(ctx, cirq, 30)
    elif k == 'decompose_tableau':
        n = data['n']
        t = cirq.CliffordTableau(n)
        t.xs = np.array([[b[0] for b in bits] for bits, _ in data['rows']], dtype=bool)
        t.zs = np.array([[b[1] for b in bits] for bits, _ in data['rows']], dtype=bool)
        t.rs = np.array([r for _, r in data['rows']], dtype=bool)
        qs = cirq.LineQubit.range(n)
        return cirq.CliffordGate.from_op_list(cirq.decompose_clifford_tableau_to_operations(qs, t), qs).clifford_tableau == t
    else:
        print('nothing to replay for kind', k)
        return False
    for v in ctx.violations:
        print('FAIL', v['what'])
    for kf in ctx.known_hits:
        print('FAIL (known finding)', kf['what'])
    return len(ctx.violations) + len(ctx.known_hits) == before
