"""C04 — all descriptions of one operation agree (DESIGN 5/C04)."""
import itertools, math
import numpy as np
from .. import env, coq, runner, gates, tables, circuits

LEVEL = 'proof'
META = dict(
    text='Coq theorems: the textbook action of a matrix on chosen axes (apply) is linear, commutes on disjoint axes and composes (C01 theorems re-used), the buffer loop returns the ordered product, control of a product is the product of controls, SWAP = 3 CNOT and CZ = (I x H) CNOT (I x H) as ring identities; and on every run a correspondence that evaluates the model inside Coq and compares it with each description Cirq offers for generated operations: apply_unitary on embedded / permuted / subspace axes with junk buffers, decompose_once and recursive decompose, kraus / mixture / superoperator, act_on for the state-vector and density-matrix states, wrappers (tags, inverse, ParallelGate, qubit remapping, CircuitOperation, controls) and the has_* / is_measurement answers. Application to chosen levels of wider axes (ApplyUnitaryArgs.subspaces) is modelled: amplitudes outside the product subspace are untouched, all levels is ordinary application, a product of gates on the subspace is the gates one after the other on it. Fixed grids for every seed: controlled powers at every special exponent x shift, the noise channels at near-special parameters against the documented Kraus maps applied in Coq, one simulation state through sequences of channels, one qubit-subspace case per gate family.',
    note='Trusted: Coq kernel; float instance with tolerance 1e-6; numpy; Python adapters. The particular decompositions Cirq uses today are validated per generated operation (a proved evaluator applied to the real output), not proved for all parameters; pieces of a decomposition enter the model through their own cirq.unitary (whose agreement with the documented matrix is C03).',
    technique='Rocq/Coq proof over the reference tensor semantics + vm_compute correspondence across all protocol descriptions of generated operations',
)

TOL = '0x1p-20'
PRE = gates.COQ_HEADER + 'From VF Require Import Sim.Ref Sim.Measure Gates.Channels Sim.SubspaceApply.\nDefinition R (x : float) : FC := (x, 0).\n'


def mat_gate(u, shape):
    return gates.G('Matrix', dict(m=np.asarray(u, dtype=complex)), shape)


def rand_tensor(rng, shape):
    n = int(np.prod(shape)) if shape else 1
    return np.array([complex(rng.gauss(0, 1), rng.gauss(0, 1)) for _ in range(n)]).reshape(shape)


def run(ctx):
    mods = env.import_cirq(('cirq_google', 'cirq_ionq'))
    cirq = mods['cirq']
    ctx.rule = ('generated operations over the gate vocabulary (incl. controlled gates with every control-value form, qudits) x '
                'description: apply_unitary on random axes of <=6-axis tensors with junk buffers and subspaces, decompose_once / '
                'decompose, kraus / mixture / superoperator, act_on, wrappers, predicates; non-trivial = gate is not the identity; '
                'distinct by canonical case')
    ctx.assumptions += ['float tolerance 1e-6', 'pieces of a decomposition are taken through cirq.unitary (C03 ties those to the documented matrices)']
    err = tables.regenerate(['EigenTables'])
    if err['EigenTables']:
        ctx.mark_broken('table:EigenTables', err['EigenTables'])
    ctx.set_obligations(coq.compile_props('C04'))
    n = 1 if ctx.tier == 'quick' else 8
    checks = []
    apply_stream(ctx, cirq, mods, checks, 150 * n)
    decompose_stream(ctx, cirq, mods, checks, 170 * n)
    channel_stream(ctx, cirq, mods, checks, 90 * n)
    wrapper_stream(ctx, cirq, mods, checks, 120 * n)
    circuit_op_grid(ctx, cirq, mods, checks, n)
    control_grid(ctx, cirq, mods, checks, n)
    control_phase_grid(ctx, cirq, mods, checks, n)
    noise_channel_grid(ctx, cirq, mods, checks, n)
    act_on_history_grid(ctx, cirq, mods, checks, n)
    predicate_stream(ctx, cirq, mods, 300 * n)
    evaluate(ctx, checks)


def evaluate(ctx, checks):
    SH = 50
    shards = []
    for s0 in range(0, len(checks), SH):
        part = checks[s0:s0 + SH]
        text = PRE + 'Definition checks : list bool := [\n' + ';\n'.join(c[1] for c in part) + '].\nEval vm_compute in failing (fun b => b) checks.\n'
        shards.append((f'c04_{ctx.seed}_{s0 // SH}', text))
    outs = coq.coq_eval_many(shards, workers=12)
    for si, out in enumerate(outs):
        for idx in coq.parse_nat_list(coq.parse_evals(out)[0]):
            stream, _, desc, rep = checks[si * SH + idx]
            ctx.disagree(f'correspondence:{stream}', desc, rep.pop('signature'), desc, dict(kind=stream, **rep))


ALL = gates.CORE_FAMILIES + gates.QUDIT_FAMILIES + ['Sycamore']


def apply_stream(ctx, cirq, mods, checks, n):
    rng = ctx.rng
    todo = [gates.draw(rng, rng.choice(gates.FAST) if rng.random() < 0.4 else rng.choice(ALL)) for _ in range(n)]
    # every special value of every parameter, and every pair of special values, of every family with a kernel/fast path
    for fam in ALL:
        if fam not in ('Ctrl', 'Matrix', 'Diagonal', 'Identity', 'Perm', 'QFT', 'CSwap', 'Sycamore'):
            todo += gates.special_grid(rng, fam) + gates.pair_grid(rng, fam)
    # every family once (twice in the thorough tier) on qubit subspaces of wider axes, for every seed
    forced = set()
    for fam in ALL:
        for _rep in range(1 if ctx.tier == 'quick' else 2):
            for _try in range(40):
                g = gates.draw(rng, fam)
                if 1 <= len(g.shape) <= 3 and all(d == 2 for d in g.shape):
                    todo.append(g)
                    forced.add(id(g))
                    break
    for g in todo:
        k = len(g.shape)
        cg = g.cirq_gate(cirq, mods)
        sub = id(g) in forced or (rng.random() < 0.25 and k >= 1 and all(d == 2 for d in g.shape) and k <= 2)
        extra = rng.randint(0, max(0, min(3, 6 - k)))
        total = k + extra
        pos = rng.sample(range(total), k)
        shape = [rng.choice([2, 2, 3]) for _ in range(total)]
        subspaces = None
        if sub:
            subspaces = []
            for a in pos:
                shape[a] = rng.choice([3, 4])
                cand = [(0, 1), (1, 2), (0, 2), (2, 1), (2, 0), (1, 0)] + ([(1, 3), (3, 1), (0, 3), (2, 3)] if shape[a] == 4 else [])
                subspaces.append(rng.choice(cand))
        else:
            for a, d in zip(pos, g.shape):
                shape[a] = d
        target = rand_tensor(rng, shape)
        junk = rand_tensor(rng, shape)
        try:
            args = cirq.ApplyUnitaryArgs(target.copy(), junk.copy(), pos, subspaces=subspaces)
            out = np.asarray(cirq.apply_unitary(cg, args))
        except Exception as e:
            ctx.violation(f'apply:{g.fam}:raises', f'apply_unitary({g.fam} {g.key()[1]}) on axes {pos} of shape {shape} raised {type(e).__name__}: {e}',
                          dict(kind='apply', gate=g.key(), axes=pos, shape=shape, subspaces=subspaces))
            continue
        if sub:
            # model: the gate's matrix embedded on the chosen levels of each axis, identity elsewhere
            u = np.asarray(cirq.unitary(cg), dtype=complex).reshape((2,) * (2 * k))
            dims = [shape[a] for a in pos]
            E = np.eye(int(np.prod(dims)), dtype=complex).reshape(dims * 2)
            for bi in itertools.product(range(2), repeat=k):
                for bj in itertools.product(range(2), repeat=k):
                    li = tuple(subspaces[t][bi[t]] for t in range(k))
                    lj = tuple(subspaces[t][bj[t]] for t in range(k))
                    E[li + lj] = u[bi + bj]
            gm = mat_gate(E.reshape(int(np.prod(dims)), -1), dims)
            gterm, dims_l = gm.coq(), dims
        else:
            gterm, dims_l = g.coq(), list(g.shape)
        ctx.count('apply_unitary' + ('[subspace]' if sub else ''), [g.key(), pos, shape, subspaces], True,
                  sample=dict(gate=g.key(), axes=pos, tensor_shape=shape, subspaces=subspaces))
        if sub:
            # the same case through the subspace model of Sim/SubspaceApply.v, from the gate model itself (no embedding done in Python)
            subs_l = '[' + '; '.join(gates.nlist(list(t)) for t in subspaces) + ']'
            checks.append(('apply_unitary', f'fcl_close {TOL} (tab {gates.nlist(shape)} (sapply FOps (mat_of FOps {gates.nlist(list(g.shape))} (gate_model FOps {g.coq()})) '
                                            f'{gates.nlist(pos)} {subs_l} (untab FOps {gates.nlist(shape)} {gates.fvec(target)}))) {gates.fvec(out)}',
                           f'apply_unitary({g.fam} {g.key()[1]}) on axes {pos} of a tensor of shape {shape} (subspaces {subspaces}) differs from the gate acting on those levels (sapply)',
                           dict(signature=f'apply:{g.fam}:subspace', gate=g.key(), axes=pos, shape=shape, subspaces=subspaces)))
        checks.append(('apply_unitary', f'fcl_close {TOL} (apply_tab FOps (gate_model FOps {gterm}) {gates.nlist(dims_l)} {gates.nlist(pos)} '
                                        f'{gates.nlist(shape)} {gates.fvec(target)}) {gates.fvec(out)}',
                       f'apply_unitary({g.fam} {g.key()[1]}) on axes {pos} of a tensor of shape {shape} (subspaces {subspaces}) differs from the matrix action',
                       dict(signature=f'apply:{g.fam}' + (':subspace' if sub else ''), gate=g.key(), axes=pos, shape=shape, subspaces=subspaces)))


def pieces_to_coq(cirq, pieces, qubits):
    """Operation list -> Gallina gop list through each piece's own cirq.unitary; None if a piece has no unitary or uses other qubits."""
    idx = {q: i for i, q in enumerate(qubits)}
    items = []
    for p in pieces:
        if any(q not in idx for q in p.qubits) or not cirq.has_unitary(p):
            return None
        u = cirq.unitary(p)
        items.append(f'({mat_gate(u, cirq.qid_shape(p)).coq()}, {gates.nlist([idx[q] for q in p.qubits])})')
    return '[' + ';\n '.join(items) + ']'


def decompose_stream(ctx, cirq, mods, checks, n):
    rng = ctx.rng
    fams = [f for f in ALL if f not in ('Matrix', 'Identity')] + ['Ctrl'] * 6
    for _ in range(n):
        g = gates.draw(rng, rng.choice(fams))
        if int(np.prod(g.shape or (1,))) > 32:
            continue
        cg = g.cirq_gate(cirq, mods)
        # qubits in arbitrary (non-adjacent, non-sorted) positions of a line: decompositions that reorder qubits must still agree
        pos = rng.sample(range(7), len(g.shape))
        qs = [cirq.LineQid(x, dimension=d) for x, d in zip(pos, g.shape)]
        op = cg.on(*qs)
        for how in ('decompose_once', 'decompose'):
            try:
                pieces = cirq.decompose_once(op, None) if how == 'decompose_once' else cirq.decompose(op)
            except Exception as e:
                ctx.violation(f'decompose:{g.fam}:raises', f'{how}({g.fam} {g.key()[1]}) raised {type(e).__name__}: {e}',
                              dict(kind='decompose', gate=g.key(), how=how))
                continue
            if pieces is None:
                ctx.count(how, [g.key(), 'none'], False)
                continue
            pieces = list(cirq.flatten_to_ops(pieces))
            if how == 'decompose' and len(pieces) == 1 and pieces[0] == op:
                ctx.count(how, [g.key(), 'atomic'], False)
                continue
            try:
                term = pieces_to_coq(cirq, pieces, qs)
            except Exception as e:
                ctx.violation(f'decompose:{g.fam}:raises', f'a piece of {how}({g.fam} {g.key()[1]}) has no consistent unitary: {type(e).__name__}: {e}',
                              dict(kind='decompose', gate=g.key(), how=how))
                continue
            if term is None:
                ctx.count(how, [g.key(), 'non-unitary pieces'], False)
                continue
            ctx.count(how, g.key(), True, sample=dict(gate=g.key(), pieces=[str(p) for p in pieces][:8]))
            checks.append((how, f'fcll_close {TOL} (circ_unitary FOps {gates.nlist(g.shape)} {term}) (gate_model FOps {g.coq()})',
                           f'{how}({g.fam} {g.key()[1]}) multiplies to a different matrix than the operation',
                           dict(signature=f'{how}:{g.fam}' + (':' + g.p['sub'].fam if g.fam == 'Ctrl' else ''), gate=g.key(), how=how)))


def channel_stream(ctx, cirq, mods, checks, n):
    rng = ctx.rng
    for _ in range(n):
        g = gates.draw(rng, rng.choice(ALL))
        if int(np.prod(g.shape or (1,))) > 16:
            continue
        cg = g.cirq_gate(cirq, mods)
        try:
            ks = cirq.kraus(cg)
            mix = cirq.mixture(cg)
        except Exception as e:
            ctx.violation(f'channel:{g.fam}:raises', f'{g.fam} {g.key()[1]}: has_unitary={cirq.has_unitary(cg)} has_kraus={cirq.has_kraus(cg)} '
                          f'has_mixture={cirq.has_mixture(cg)} but kraus/mixture raised {type(e).__name__}: {e}', dict(kind='channel', gate=g.key()))
            continue
        ok_flags = cirq.has_unitary(cg) and cirq.has_kraus(cg) and cirq.has_mixture(cg)
        shape_ok = len(ks) == 1 and len(mix) == 1 and abs(mix[0][0] - 1) < 1e-9
        ctx.count('kraus/mixture', g.key(), True, sample=dict(gate=g.key(), n_kraus=len(ks)))
        if not (ok_flags and shape_ok):
            ctx.violation(f'channel:{g.fam}:form', f'{g.fam} {g.key()[1]}: a unitary gate must report has_unitary/has_kraus/has_mixture and a single Kraus/mixture term',
                          dict(kind='channel', gate=g.key()))
            continue
        checks.append(('kraus/mixture', f'fcll_close {TOL} (gate_model FOps {g.coq()}) {gates.fmat(ks[0])} && fcll_close {TOL} (gate_model FOps {g.coq()}) {gates.fmat(mix[0][1])}',
                       f'kraus/mixture of {g.fam} {g.key()[1]} is not the gate matrix', dict(signature=f'kraus:{g.fam}', gate=g.key())))
        if int(np.prod(g.shape or (1,))) <= 4:
            sup = cirq.kraus_to_superoperator(ks)
            checks.append(('superoperator', f'fcll_close {TOL} (kron FOps (gate_model FOps {g.coq()}) (mconj FOps (gate_model FOps {g.coq()}))) {gates.fmat(sup)}',
                           f'superoperator of {g.fam} {g.key()[1]} is not U (x) conj U', dict(signature=f'superoperator:{g.fam}', gate=g.key())))
            ctx.count('superoperator', g.key(), True)


def noise_channel_grid(ctx, cirq, mods, checks, n):
    """The library's parametrised noise channels at special and NEAR-special parameter values (0, 1, and 1e-9 .. 1e-4 away from them,
    fixed for every seed, plus generic ones): every description of the channel's effect on one qubit of a random two-qubit density
    matrix - apply_channel on either axis pair, the Kraus sum, the mixture, the superoperator, DensityMatrixSimulator, act_on of a
    density-matrix simulation state - must be the map of the documented Kraus operators (Gates/Channels.v), applied in Coq."""
    rng = ctx.rng
    R = lambda x: f'(R {gates.fl(x)})'
    eps = [1e-9, 1e-7, 1e-6, 1e-5, 1e-4, 1e-3]
    ps = [0.0, 1.0, 0.5, 0.3] + eps + [1 - e for e in eps] + [round(rng.random(), 5) for _ in range(2 * n)]
    chans = []
    for p in ps:
        chans += [('bit_flip', cirq.bit_flip(p), f'kraus_bit_flip FOps {R(math.sqrt(1 - p))} {R(math.sqrt(p))}', dict(p=p)),
                  ('phase_flip', cirq.phase_flip(p), f'kraus_phase_flip FOps {R(math.sqrt(1 - p))} {R(math.sqrt(p))}', dict(p=p)),
                  ('depolarize', cirq.depolarize(p), f'kraus_depolarize FOps {R(math.sqrt(1 - p))} {R(math.sqrt(p / 3))}', dict(p=p)),
                  ('amplitude_damp', cirq.amplitude_damp(p), f'kraus_amp_damp FOps {R(math.sqrt(1 - p))} {R(math.sqrt(p))}', dict(gamma=p)),
                  ('phase_damp', cirq.phase_damp(p), f'kraus_phase_damp FOps {R(math.sqrt(1 - p))} {R(math.sqrt(p))}', dict(gamma=p))]
        for g in (p, 1 - p, 0.4):
            chans.append(('generalized_amplitude_damp', cirq.generalized_amplitude_damp(p, g),
                          f'kraus_gen_amp_damp FOps {R(math.sqrt(p))} {R(math.sqrt(1 - p))} {R(math.sqrt(1 - g))} {R(math.sqrt(g))}', dict(p=p, gamma=g)))
    chans.append(('reset', cirq.ResetChannel(), 'kraus_reset2 FOps', {}))
    qs = cirq.LineQubit.range(2)
    for ci, (name, ch, spec, params) in enumerate(chans):
        ax = ci % 2
        a = np.array([[complex(rng.gauss(0, 1), rng.gauss(0, 1)) for _ in range(4)] for _ in range(4)])
        rho = a @ a.conj().T
        rho = rho / np.trace(rho)
        want = f'(dm_kraus FOps ({spec}) [2%nat] [{ax}%nat] [2%nat; 2%nat] {gates.fvec(rho.reshape(-1))})'
        descs = {}
        try:
            t = rho.reshape(2, 2, 2, 2).astype(np.complex128)
            r = cirq.apply_channel(ch, cirq.ApplyChannelArgs(target_tensor=t.copy(), out_buffer=np.full_like(t, 7.5), auxiliary_buffer0=np.full_like(t, -3.25),
                                                             auxiliary_buffer1=np.full_like(t, 11.0), left_axes=[ax], right_axes=[2 + ax]))
            descs['apply_channel'] = np.asarray(r).reshape(-1)
            big = lambda k: np.kron(k, np.eye(2)) if ax == 0 else np.kron(np.eye(2), k)
            descs['kraus'] = sum(big(k) @ rho @ big(k).conj().T for k in cirq.kraus(ch)).reshape(-1)
            if cirq.has_mixture(ch):
                descs['mixture'] = sum(pr * (big(u) @ rho @ big(u).conj().T) for pr, u in cirq.mixture(ch)).reshape(-1)
            sim = cirq.DensityMatrixSimulator(dtype=np.complex128, split_untangled_states=bool(ci % 3))
            descs['DensityMatrixSimulator'] = np.asarray(sim.simulate(cirq.Circuit(ch.on(qs[ax]), cirq.I(qs[1 - ax])), qubit_order=qs,
                                                                      initial_state=rho.astype(np.complex128)).final_density_matrix).reshape(-1)
            st = cirq.DensityMatrixSimulationState(qubits=qs, initial_state=rho.astype(np.complex128), dtype=np.complex128)
            cirq.act_on(ch.on(qs[ax]), st)
            descs['act_on[density matrix]'] = np.asarray(st.target_tensor).reshape(-1)
            s1 = np.asarray(cirq.kraus_to_superoperator(cirq.kraus(ch)))      # on the single qubit
            r1 = rho.reshape(2, 2, 2, 2)
            other = np.einsum('abcb->ac', r1) if ax == 0 else np.einsum('abad->bd', r1)      # reduced state of the qubit the channel acts on
        except Exception as e:
            ctx.violation(f'noise_channel_grid:raises:{name}', f'{name} {params}: a description raised {type(e).__name__}: {e}', dict(kind='noise_channel_grid', channel=name, params=params))
            continue
        for dn, v in descs.items():
            ctx.count('noise_channel_grid', [name, params, dn, ax], True, sample=dict(channel=name, params=params, description=dn))
            checks.append(('noise_channel_grid', f'fcl_close {TOL} {want} {gates.fvec(np.asarray(v))}',
                           f'{dn} of {name} {params} on qubit {ax} of a two-qubit density matrix is not the map of the documented Kraus operators',
                           dict(signature=f'noise_channel_grid:{dn}:{name}', channel=name, params=params, description=dn)))
        red = (s1 @ other.reshape(-1))
        checks.append(('noise_channel_grid', f'fcl_close {TOL} (dm_kraus FOps ({spec}) [2%nat] [0%nat] [2%nat] {gates.fvec(other.reshape(-1))}) {gates.fvec(red)}',
                       f'superoperator of {name} {params} does not act as the documented Kraus operators',
                       dict(signature=f'noise_channel_grid:superoperator:{name}', channel=name, params=params, description='superoperator')))
        ctx.count('noise_channel_grid', [name, params, 'superoperator'], True)


def act_on_history_grid(ctx, cirq, mods, checks, n):
    """ONE density-matrix simulation state (and one state-vector state for the unitary steps) receives a sequence of operations through
    act_on; after every step its contents must be the documented Kraus maps applied in order to the initial matrix (nested dm_kraus in
    Coq).  The sequences are sliding windows over a fixed list that puts every in-place fast path (parameters 0 and 1, reset, diagonal
    and permutation unitaries) in front of every kind of follower (fixed for every seed)."""
    rng = ctx.rng
    R = lambda x: f'(R {gates.fl(x)})'
    sq = math.sqrt
    H = np.array([[1, 1], [1, -1]], dtype=complex) / sq(2)
    lit = lambda *ms: '[' + '; '.join(gates.fmat(np.asarray(m, dtype=complex)) for m in ms) + ']'
    pool = [('phase_damp(0)', cirq.phase_damp(0.0), f'kraus_phase_damp FOps {R(1.0)} {R(0.0)}'), ('depolarize(0.1)', cirq.depolarize(0.1), f'kraus_depolarize FOps {R(sq(0.9))} {R(sq(0.1 / 3))}'),
            ('amplitude_damp(0)', cirq.amplitude_damp(0.0), f'kraus_amp_damp FOps {R(1.0)} {R(0.0)}'), ('amplitude_damp(0.3)', cirq.amplitude_damp(0.3), f'kraus_amp_damp FOps {R(sq(0.7))} {R(sq(0.3))}'),
            ('phase_damp(1)', cirq.phase_damp(1.0), f'kraus_phase_damp FOps {R(0.0)} {R(1.0)}'), ('bit_flip(0.2)', cirq.bit_flip(0.2), f'kraus_bit_flip FOps {R(sq(0.8))} {R(sq(0.2))}'),
            ('H', cirq.H, lit(H)), ('phase_damp(0)', cirq.phase_damp(0.0), f'kraus_phase_damp FOps {R(1.0)} {R(0.0)}'), ('reset', cirq.ResetChannel(), 'kraus_reset2 FOps'),
            ('bit_flip(0)', cirq.bit_flip(0.0), f'kraus_bit_flip FOps {R(1.0)} {R(0.0)}'), ('Z', cirq.Z, lit(np.diag([1, -1]))), ('phase_flip(0.3)', cirq.phase_flip(0.3), f'kraus_phase_flip FOps {R(sq(0.7))} {R(sq(0.3))}'),
            ('amplitude_damp(1)', cirq.amplitude_damp(1.0), f'kraus_amp_damp FOps {R(0.0)} {R(1.0)}'), ('X', cirq.X, lit(np.array([[0, 1], [1, 0]]))),
            ('generalized_amplitude_damp(0.3, 0.4)', cirq.generalized_amplitude_damp(0.3, 0.4), f'kraus_gen_amp_damp FOps {R(sq(0.3))} {R(sq(0.7))} {R(sq(0.6))} {R(sq(0.4))}'),
            ('phase_damp(0.25)', cirq.phase_damp(0.25), f'kraus_phase_damp FOps {R(sq(0.75))} {R(0.5)}')]
    qs = cirq.LineQubit.range(2)
    L = 4
    starts = range(len(pool)) if ctx.tier != 'quick' else range(0, len(pool), 1)
    for st in starts:
        seq = [pool[(st + j) % len(pool)] for j in range(L)]
        a = np.array([[complex(rng.gauss(0, 1), rng.gauss(0, 1)) for _ in range(4)] for _ in range(4)])
        rho = a @ a.conj().T
        rho = rho / np.trace(rho)
        state = cirq.DensityMatrixSimulationState(qubits=qs, initial_state=rho.astype(np.complex128), dtype=np.complex128)
        expr = gates.fvec(rho.reshape(-1))
        names = []
        for j, (nm, ch, spec) in enumerate(seq):
            ax = (st + j) % 2
            names.append(f'{nm} on q{ax}')
            try:
                cirq.act_on(ch.on(qs[ax]), state)
            except Exception as e:
                ctx.violation('act_on_history:raises', f'act_on of {names} on one density-matrix state raised {type(e).__name__}: {e}', dict(kind='act_on_history', steps=names))
                break
            expr = f'(dm_kraus FOps ({spec}) [2%nat] [{ax}%nat] [2%nat; 2%nat] {expr})'
            got = np.asarray(state.target_tensor).reshape(-1).copy()
            ctx.count('act_on_history', [names[:]], True, sample=dict(steps=names[:]))
            checks.append(('act_on_history', f'fcl_close {TOL} {expr} {gates.fvec(got)}',
                           f'one DensityMatrixSimulationState after act_on of {names}: not the documented Kraus maps applied in order',
                           dict(signature=f'act_on_history:{nm}', steps=names[:])))


def wrapper_stream(ctx, cirq, mods, checks, n):
    rng = ctx.rng
    for _ in range(n):
        g = gates.draw(rng, rng.choice(ALL))
        k = len(g.shape)
        if k == 0 or int(np.prod(g.shape)) > 16:
            continue
        cg = g.cirq_gate(cirq, mods)
        qs = cirq.LineQid.for_qid_shape(g.shape)
        op = cg.on(*qs)
        how = rng.choice(['tags', 'inverse', 'parallel', 'with_qubits', 'circuit_op', 'act_on_sv', 'act_on_dm', 'nested_tags_ctrl'])
        sh = gates.nlist(g.shape)
        ident = gates.nlist(range(k))
        try:
            if how == 'tags':
                u = cirq.unitary(op.with_tags('t', 7))
                expr = f'fcll_close {TOL} (gate_model FOps {g.coq()}) {gates.fmat(u)}'
            elif how == 'inverse':
                inv = cirq.inverse(op, None)
                if inv is None:
                    continue
                u = cirq.unitary(inv)
                expr = f'fcll_close {TOL} (mdagger FOps (gate_model FOps {g.coq()})) {gates.fmat(u)}'
            elif how == 'parallel':
                if k != 1 or g.shape[0] != 2:
                    continue
                m = rng.choice([2, 3])
                u = cirq.unitary(cirq.ParallelGate(cg, m))
                kr = f'(gate_model FOps {g.coq()})'
                for _i in range(m - 1):
                    kr = f'(kron FOps (gate_model FOps {g.coq()}) {kr})'
                expr = f'fcll_close {TOL} {kr} {gates.fmat(u)}'
            elif how == 'with_qubits':
                if len(set(g.shape)) > 1:
                    continue
                perm = list(range(k))
                rng.shuffle(perm)
                op2 = op.with_qubits(*[qs[p] for p in perm])
                u = cirq.Circuit(op2).unitary(qubit_order=qs, qubits_that_should_be_present=qs)
                expr = f'fcll_close {TOL} (circ_unitary FOps {sh} [({g.coq()}, {gates.nlist(perm)})]) {gates.fmat(u)}'
            elif how == 'circuit_op':
                g2 = gates.draw(rng, rng.choice(gates.FAST))
                if len(g2.shape) > k or any(d != 2 for d in g.shape):
                    continue
                w2 = rng.sample(range(k), len(g2.shape))
                sub = cirq.FrozenCircuit(op, g2.cirq_gate(cirq, mods).on(*[qs[w] for w in w2]))
                reps = rng.choice([1, 2, -1])
                cop = cirq.CircuitOperation(sub, repetitions=reps)
                u = cirq.Circuit(cop).unitary(qubit_order=qs, qubits_that_should_be_present=qs)
                body = f'[({g.coq()}, {ident}); ({g2.coq()}, {gates.nlist(w2)})]'
                if reps == 2:
                    body = f'({body} ++ {body})'
                inner = f'(circ_unitary FOps {sh} {body})'
                expr = f'fcll_close {TOL} {"(mdagger FOps " + inner + ")" if reps == -1 else inner} {gates.fmat(u)}'
            elif how in ('act_on_sv', 'act_on_dm'):
                order = list(qs)
                rng.shuffle(order)
                axes = [order.index(q) for q in qs]
                oshape = [q.dimension for q in order]
                psi = rand_tensor(rng, oshape)
                psi = psi / np.linalg.norm(psi)
                if how == 'act_on_sv':
                    st = cirq.StateVectorSimulationState(qubits=order, initial_state=psi.reshape(-1).astype(np.complex128), dtype=np.complex128)
                    cirq.act_on(op, st)
                    out = np.asarray(st.target_tensor).reshape(-1)
                    expr = (f'fcl_close {TOL} (apply_tab FOps (gate_model FOps {g.coq()}) {sh} {gates.nlist(axes)} {gates.nlist(oshape)} '
                            f'{gates.fvec(psi)}) {gates.fvec(out)}')
                else:
                    if int(np.prod(oshape)) > 8:
                        continue
                    rho = np.outer(psi.reshape(-1), psi.reshape(-1).conj())
                    st = cirq.DensityMatrixSimulationState(qubits=order, initial_state=rho.astype(np.complex128), dtype=np.complex128)
                    cirq.act_on(op, st)
                    d = int(np.prod(oshape))
                    out = np.asarray(st.target_tensor).reshape(d, d)
                    expr = (f'fcll_close {TOL} (outer FOps (apply_tab FOps (gate_model FOps {g.coq()}) {sh} {gates.nlist(axes)} {gates.nlist(oshape)} '
                            f'{gates.fvec(psi)})) {gates.fmat(out)}')
            else:
                cq = cirq.LineQid(50, dimension=2)
                op2 = op.with_tags('a').controlled_by(cq).with_tags('b')
                u = cirq.Circuit(op2).unitary(qubit_order=[cq] + list(qs))
                expr = f'fcll_close {TOL} (gate_model FOps (GCtrl [2]%nat [[1]%nat] {g.coq()})) {gates.fmat(u)}'
        except Exception as e:
            ctx.violation(f'wrapper:{how}:{g.fam}:raises', f'{how} on {g.fam} {g.key()[1]} raised {type(e).__name__}: {e}',
                          dict(kind='wrapper', gate=g.key(), how=how))
            continue
        ctx.count('wrapper:' + how, [g.key(), how], True, sample=dict(gate=g.key(), wrapper=how))
        checks.append(('wrapper:' + how, expr, f'{how} applied to {g.fam} {g.key()[1]} does not preserve the agreement with the matrix',
                       dict(signature=f'wrapper:{how}:{g.fam}', gate=g.key(), how=how)))


def circuit_op_grid(ctx, cirq, mods, checks, n):
    """CircuitOperation as a gate-like value: every description it offers (unitary protocol, Circuit.unitary, apply_unitary,
    decompose, mapped_circuit) on one- and two-qubit bodies of 2-3 operations that do not commute, for every repetition count
    (incl. negative), under tags / a control / a qubit map.  Runs for every seed: the one-qubit body has its own fast path."""
    rng = ctx.rng
    oneq = ['XPow', 'YPow', 'ZPow', 'HPow', 'PhasedX', 'Rz', 'Rx', 'PhasedXZ']
    for case in range(24 * n):
        k = 1 if case % 3 != 2 else 2
        qs = cirq.LineQubit.range(k)
        while True:
            body = []
            for _ in range(rng.choice([2, 2, 3])):
                g = gates.draw(rng, rng.choice(oneq if k == 1 or rng.random() < 0.5 else ['CXPow', 'CZPow', 'ISwapPow']))
                w = rng.sample(range(k), len(g.shape))
                body.append((g, w))
            if {i for _, w in body for i in w} == set(range(k)):      # the operation acts on exactly these qubits
                break
        sub = cirq.FrozenCircuit([g.cirq_gate(cirq, mods).on(*[qs[i] for i in w]) for g, w in body])
        reps = [1, 2, -1, 3, -2][case % 5]
        cop = cirq.CircuitOperation(sub, repetitions=reps)
        sh = gates.nlist([2] * k)
        term = '[' + '; '.join(f'({g.coq()}, {gates.nlist(w)})' for g, w in body) + ']'
        rep_term = ' ++ '.join([term] * abs(reps))
        inner = f'(circ_unitary FOps {sh} ({rep_term}))'
        model = f'(mdagger FOps {inner})' if reps < 0 else inner
        descs = {}
        try:
            descs['cirq.unitary'] = cirq.unitary(cop)
            descs['Circuit.unitary'] = cirq.Circuit(cop).unitary(qubit_order=qs, qubits_that_should_be_present=qs)
            descs['decompose'] = cirq.Circuit(cirq.decompose(cop)).unitary(qubit_order=qs, qubits_that_should_be_present=qs)
            descs['mapped_circuit'] = cop.mapped_circuit(deep=True).unitary(qubit_order=qs, qubits_that_should_be_present=qs)
            args = cirq.ApplyUnitaryArgs.for_unitary(qid_shape=(2,) * k)
            descs['apply_unitary'] = np.asarray(cirq.apply_unitary(cop, args)).reshape(2 ** k, 2 ** k)
            descs['tagged'] = cirq.unitary(cop.with_tags('t'))
            st = cirq.StateVectorSimulationState(qubits=qs, initial_state=0, dtype=np.complex128)
            cirq.act_on(cop, st)
            col0 = np.asarray(st.target_tensor).reshape(-1)
        except Exception as e:
            ctx.violation('wrapper:circuit_op_grid:raises', f'CircuitOperation({sub!r}, repetitions={reps}) raised {type(e).__name__}: {e}',
                          dict(kind='wrapper', how='circuit_op_grid', body=[[g.key(), w] for g, w in body], reps=reps))
            continue
        key = [[g.key(), w] for g, w in body]
        for name, u in descs.items():
            ctx.count('wrapper:circuit_op_grid', [key, reps, name], True, sample=dict(body=[[g.fam, w] for g, w in body], repetitions=reps, description=name))
            checks.append(('wrapper:circuit_op_grid', f'fcll_close {TOL} {model} {gates.fmat(np.asarray(u))}',
                           f'{name} of CircuitOperation(body {[[g.fam, g.key()[1], w] for g, w in body]}, repetitions={reps}) is not the ordered product of the body',
                           dict(signature=f'wrapper:circuit_op_grid:{name}', body=key, reps=reps, description=name)))
        checks.append(('wrapper:circuit_op_grid', f'fcl_close {TOL} (map (fun r => hd (0, 0)%float r) {model}) {gates.fvec(col0)}',
                       f'act_on of CircuitOperation(body {[[g.fam, w] for g, w in body]}, repetitions={reps}) on |0..0> is not the first column of the ordered product',
                       dict(signature='wrapper:circuit_op_grid:act_on', body=key, reps=reps, description='act_on')))
        # under a control and a qubit map
        cq = cirq.LineQubit(50)
        qs2 = cirq.LineQubit.range(10, 10 + k)[::-1]
        try:
            uc = cirq.Circuit(cop.controlled_by(cq)).unitary(qubit_order=[cq] + list(qs))
            um = cirq.Circuit(cop.with_qubits(*qs2)).unitary(qubit_order=qs2, qubits_that_should_be_present=qs2)
        except Exception as e:
            ctx.violation('wrapper:circuit_op_grid:raises', f'controlled / remapped CircuitOperation raised {type(e).__name__}: {e}',
                          dict(kind='wrapper', how='circuit_op_grid', body=key, reps=reps))
            continue
        checks.append(('wrapper:circuit_op_grid', f'fcll_close {TOL} (ctrl_matrix FOps [2]%nat [[1]%nat] {model}) {gates.fmat(uc)}',
                       f'controlled CircuitOperation (body {[[g.fam, w] for g, w in body]}, repetitions={reps}) is not the controlled product',
                       dict(signature='wrapper:circuit_op_grid:controlled_by', body=key, reps=reps, description='controlled_by')))
        checks.append(('wrapper:circuit_op_grid', f'fcll_close {TOL} {model} {gates.fmat(um)}',
                       f'CircuitOperation.with_qubits (body {[[g.fam, w] for g, w in body]}, repetitions={reps}) changes the matrix',
                       dict(signature='wrapper:circuit_op_grid:with_qubits', body=key, reps=reps, description='with_qubits')))


def control_grid(ctx, cirq, mods, checks, n):
    """Controlled gates and controlled_by operations over EVERY control-value set (fixed for every seed): each subset of the levels of
    one control qudit of dimension 3..5, and every assignment of {0, 1, (0,1)} to two or three qubit controls, with sub gates that
    have and have not a specialised controlled form.  Every description: unitary protocol, apply_unitary (operation and gate, through
    Circuit.unitary), decompose_once, decompose."""
    import itertools
    rng = ctx.rng
    subs = [gates.G('XPow', dict(e=0.3, s=0.0), (2,)), gates.G('YPow', dict(e=0.5, s=0.25), (2,)), gates.G('HPow', dict(e=1.0, s=0.0), (2,)),
            gates.G('Rz', dict(rads=0.9), (2,)), gates.G('ZPow', dict(e=1.0, s=0.0), (2,)), gates.G('XPow', dict(e=1.0, s=0.0), (2,))]
    cases = []
    for d in (3, 4, 5):
        for r in range(1, d + 1):
            for levels in itertools.combinations(range(d), r):
                cases.append(([d], [list(levels)]))
    for nc in (2, 3):
        for combo in itertools.product(([0], [1], [0, 1]), repeat=nc):
            cases.append(([2] * nc, [list(v) for v in combo]))
    if ctx.tier == 'quick':
        # all qudit subsets and all 2-control assignments; a seed-independent half of the 3-control ones
        cases = [c for i, c in enumerate(cases) if len(c[0]) < 3 or i % 2 == 0]
    for ci, (cdims, vals) in enumerate(cases):
        sub = subs[ci % len(subs)] if ctx.tier == 'quick' else None
        for sub in ([sub] if sub is not None else subs):
            control_case(ctx, cirq, mods, checks, sub, cdims, vals, 'control_grid')


def control_phase_grid(ctx, cirq, mods, checks, n):
    """Controlled X/Y/Z/CZ powers and rotations over every combination of special exponents and global shifts (fixed for every seed):
    the phase exp(i pi exponent shift) of the sub gate becomes a relative phase on the controls, and the decompositions have integer
    short-cuts for it."""
    quick = ctx.tier == 'quick'
    exps = [1.0, 2.0, 3.0, -1.0, 0.5] + ([] if quick else [4.0, -2.0, 0.25, 1.5])
    shifts = [0.0, 1.0, -0.5, 0.5, 2.0] + ([] if quick else [-1.0, 0.25, 1 / 3, 3.0])
    subs = [gates.G(f, dict(e=e, s=sh), gates.EIG_SHAPE.get(f, (2, 2))) for f in ('XPow', 'YPow', 'ZPow', 'CZPow') for e in exps for sh in shifts]
    subs += [gates.G(f, dict(rads=r), (2,)) for f in ('Rx', 'Ry', 'Rz') for r in (2 * math.pi, -2 * math.pi, 6 * math.pi, math.pi, 4 * math.pi, 3 * math.pi)]
    ctrls = [([2], [[1]]), ([2, 2], [[1], [0]])] + ([] if quick else [([2], [[0]]), ([3], [[1, 2]]), ([2, 2], [[1], [1]])])
    for sub in subs:
        for cdims, vals in ctrls:
            control_case(ctx, cirq, mods, checks, sub, cdims, vals, 'control_phase_grid')


def control_case(ctx, cirq, mods, checks, sub, cdims, vals, stream):
    g = gates.G('Ctrl', dict(sub=sub, cdims=cdims, cv=('pos', vals), bools=False, as_sets=True), tuple(cdims) + sub.shape)
    cg = g.cirq_gate(cirq, mods)
    qs = cirq.LineQid.for_qid_shape(g.shape)
    cqs, tqs = qs[:len(cdims)], qs[len(cdims):]
    op_by = sub.cirq_gate(cirq, mods).on(*tqs).controlled_by(*cqs, control_values=[tuple(v) for v in vals])
    model = f'(gate_model FOps {g.coq()})'
    descs = {}
    try:
        descs['cirq.unitary(gate)'] = cirq.unitary(cg)
        descs['cirq.unitary(controlled_by op)'] = cirq.unitary(op_by)
        descs['apply_unitary(gate)'] = np.asarray(cirq.apply_unitary(cg, cirq.ApplyUnitaryArgs.for_unitary(qid_shape=g.shape))).reshape(
            int(np.prod(g.shape)), -1)
        descs['apply_unitary(controlled_by op)'] = cirq.Circuit(op_by).unitary(qubit_order=qs, qubits_that_should_be_present=qs)
    except Exception as e:
        ctx.violation(stream + ':raises', f'controlled {sub.fam} with control dims {cdims} values {vals} raised {type(e).__name__}: {e}',
                      dict(kind=stream, sub=sub.key(), cdims=cdims, vals=vals))
        return
    for name, u in descs.items():
        ctx.count(stream, [sub.key(), cdims, vals, name], True, sample=dict(sub=sub.fam, control_dims=cdims, control_values=vals, description=name))
        checks.append((stream, f'fcll_close {TOL} {model} {gates.fmat(np.asarray(u))}',
                       f'{name} of {sub.fam} {sub.p} controlled on dims {cdims} values {vals} is not the controlled matrix',
                       dict(signature=f'{stream}:{name}', sub=sub.key(), cdims=cdims, vals=vals, description=name)))
    for target, label in ((cg.on(*qs), 'gate'), (op_by, 'controlled_by op')):
        for how in ('decompose_once', 'decompose'):
            try:
                pieces = cirq.decompose_once(target, None) if how == 'decompose_once' else cirq.decompose(target)
            except Exception as e:
                ctx.violation(stream + ':raises', f'{how} of controlled {sub.fam} ({label}) with control dims {cdims} values {vals} raised {type(e).__name__}: {e}',
                              dict(kind=stream, sub=sub.key(), cdims=cdims, vals=vals))
                continue
            if pieces is None:
                continue
            pieces = list(cirq.flatten_to_ops(pieces))
            if len(pieces) == 1 and pieces[0] == target:
                continue
            try:
                term = pieces_to_coq(cirq, pieces, qs)
            except Exception:
                term = None
            if term is None:
                continue
            ctx.count(stream, [sub.key(), cdims, vals, how, label], True)
            checks.append((stream, f'fcll_close {TOL} (circ_unitary FOps {gates.nlist(g.shape)} {term}) {model}',
                           f'{how}({label}) of {sub.fam} {sub.p} controlled on dims {cdims} values {vals} multiplies to a different matrix',
                           dict(signature=f'{stream}:{how}', sub=sub.key(), cdims=cdims, vals=vals, description=f'{how}({label})')))


def predicate_stream(ctx, cirq, mods, n):
    """has_unitary / has_kraus / has_mixture / is_measurement must agree with what the corresponding calls return."""
    rng = ctx.rng
    q = cirq.LineQubit.range(3)
    import sympy
    extras = [cirq.measure(q[0], key='m'), cirq.measure(q[0], q[1], key='k', invert_mask=(True,)), cirq.reset(q[0]),
              cirq.depolarize(0.1).on(q[0]), cirq.amplitude_damp(0.2).on(q[0]), cirq.bit_flip(0.3).on(q[0]), cirq.phase_damp(0.1).on(q[1]),
              cirq.X(q[0]) ** sympy.Symbol('a'), cirq.CZ(q[0], q[1]) ** sympy.Symbol('b'), cirq.X(q[0]).with_classical_controls('m'),
              cirq.CircuitOperation(cirq.FrozenCircuit(cirq.H(q[0]), cirq.measure(q[0], key='z'))), cirq.CircuitOperation(cirq.FrozenCircuit(cirq.H(q[0]))),
              cirq.bit_flip(0.2).on(q[0]).controlled_by(q[1]), cirq.measure(q[1], key='w').with_tags('t'), cirq.I(q[0]), cirq.global_phase_operation(1j),
              cirq.PauliMeasurementGate([cirq.X, cirq.Z], key='p').on(q[0], q[1]), cirq.ResetChannel(3).on(cirq.LineQid(0, 3)),
              cirq.asymmetric_depolarize(0.1, 0.2, 0.3).on(q[2]), cirq.generalized_amplitude_damp(0.3, 0.2).on(q[0]),
              cirq.phase_flip(0.25).on(q[0]), cirq.KrausChannel([np.eye(2) * math.sqrt(0.5), np.array([[0, 1], [1, 0]]) * math.sqrt(0.5)]).on(q[0]),
              cirq.MixedUnitaryChannel([(0.5, np.eye(2)), (0.5, np.array([[0, 1], [1, 0]]))]).on(q[0]), cirq.RandomGateChannel(sub_gate=cirq.X, probability=0.3).on(q[0])]
    objs = list(extras)
    for _ in range(n):
        g = gates.draw(rng, rng.choice(ALL))
        cg = g.cirq_gate(cirq, mods)
        objs.append(cg)
        if g.shape:
            objs.append(cg.on(*cirq.LineQid.for_qid_shape(g.shape)))
    for o in objs:
        hu, hk, hm = cirq.has_unitary(o), cirq.has_kraus(o), cirq.has_mixture(o)
        u, k, m = cirq.unitary(o, None), cirq.kraus(o, None), cirq.mixture(o, None)
        meas = cirq.is_measurement(o)
        keys = cirq.measurement_key_names(o) if hasattr(cirq, 'measurement_key_names') else set()
        bad = []
        if hu != (u is not None):
            bad.append(f'has_unitary={hu} but unitary {"returned a value" if u is not None else "returned nothing"}')
        if hk != (k is not None):
            bad.append(f'has_kraus={hk} but kraus {"returned a value" if k is not None else "returned nothing"}')
        if hm != (m is not None):
            bad.append(f'has_mixture={hm} but mixture {"returned a value" if m is not None else "returned nothing"}')
        if meas != bool(keys):
            bad.append(f'is_measurement={meas} but measurement keys={sorted(keys)}')
        if hu and not (hk and hm):
            bad.append('unitary value without kraus/mixture description')
        ctx.count('predicates', repr(o)[:200], True, sample=dict(obj=repr(o)[:120], has_unitary=hu, has_kraus=hk, has_mixture=hm, is_measurement=meas))
        if bad:
            what = '+'.join(sorted(b.split('=')[0] for b in bad))
            ctx.violation(f'predicates:{what}:{type(o).__name__}:{type(getattr(o, "gate", None)).__name__}', f'{repr(o)[:160]}: ' + '; '.join(bad),
                          dict(kind='predicates', obj=repr(o)))


def replay(ctx, data):
    """Re-runs the generating stream with the recorded seed/tier and looks for the recorded signature."""
    import sys
    return runner.replay_by_rerun(sys.modules[__name__], ctx, data)
